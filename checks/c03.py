"""C03 — the reader never reports a schema-violating exchange file as clean, and the violation is confined.

proof:           lean/StepModel/Props/C03.lean over P21.Reader (severity plumbing attribute -> instance -> file -> exit)
regenerated tie: tools/extract.d/p21rw.py -> Generated/P21RWGen.lean (merge thresholds, recovery scan, complex-part plumbing,
                 counters of ReadData1/ReadData2, AppendEntityErrorMsg floor, AppendFile's total/valid rule, p21read exit rule)
correspondence:  harness/h_p21.cc linked to generated schema libraries vs lean exe m_c01 on conforming populations altered by
                 one violation of the statement's classes: file severity, counters, per-instance state and written values
oracle:          the statement itself: severity worse than USERMSG (=> p21read's exit rule gives 1), and every other,
                 conforming instance is complete and written with the values it has in the file
"""
import json, os, random
from vlib import build as B, p21_gen as G, p21_gen_rw as W, p21_rw_run as R
from checks import c01 as C01

HERE = os.path.dirname(os.path.abspath(__file__))
VERIF = os.path.dirname(HERE)
RANK = {"MAX": -5, "DUMP": -4, "EXIT": -3, "BUG": -2, "INPUT_ERROR": -1, "WARNING": 0, "INCOMPLETE": 1, "USERMSG": 2, "NULL": 3}


def schemas_for(ctx, n):
    out = []
    for k in range(n):
        rng = random.Random(f"C03-schema:{ctx.seed}:{k}")
        out.append((f"{k}", W.SchemaX(G.gen_schema(rng, f"vt{k}", n_entities=rng.randint(3, 6), kinds=list(G.KIND_POOL), cover_all_kinds=(k % 2 == 0)))))
    return out


def oracle(v, base, rr):
    """None when the implementation satisfies the statement on this violated file; else (kind, text)"""
    if rr.died:
        return ("detect", "implementation died: " + rr.died)
    sev = rr.read.get("sev")
    if RANK.get(sev, -9) >= RANK["USERMSG"]:
        return ("detect", f"a file with a violation of class {v.cls} was read with severity {sev}: p21read would exit 0")
    got = {i: (ty, stt, txt) for (i, ty, stt, txt) in rr.insts}
    for (i, ty, stt, txt) in base.insts:
        if i in v.skip_confine:
            continue
        if i not in got:
            return ("confine", f"conforming instance #{i} was not loaded")
        if got[i][1] != "completeSE":
            return ("confine", f"conforming instance #{i} is {got[i][1]}")
        if got[i][2] != txt:
            return ("confine", f"conforming instance #{i} was loaded with other values: {got[i][2].strip()} instead of {txt.strip()}")
    return None


def minimal_prefix(ctx, b, lib, seq_texts, target, v, base):
    """smallest single earlier file after which the violated file is read wrongly (else the whole sequence)"""
    for j, txt in enumerate(seq_texts):
        p = os.path.join(ctx.work, f"seq-{j}.p21")
        open(p, "w", encoding="latin-1").write(txt)
        r = R.run_real(b, lib, [(p, 60), target], ctx.work, rewrite=False)
        if len(r) == 2 and not r[1].died and oracle(v, base, r[1]):
            return [txt]
    return seq_texts


def compare(v, rr, mr):
    if mr.stop:
        return "model: " + mr.stop
    if rr.died:
        return None
    a = (rr.read.get("sev"), rr.read.get("ret"), rr.read.get("invalid"), rr.read.get("incomplete"), rr.read.get("notcreated"))
    m = (mr.head.get("sev"), mr.head.get("ret"), mr.head.get("invalid"), mr.head.get("incomplete"), mr.head.get("notcreated"))
    if a != m:
        return f"file level (sev, ret, invalid, incomplete, notcreated): impl {a} model {m}"
    if [x[:3] for x in rr.insts] != [x[:3] for x in mr.insts]:
        return f"instances/states: impl {[x[:3] for x in rr.insts]} model {[x[:3] for x in mr.insts]}"
    for x, y in zip(rr.insts, mr.insts):
        if x[0] not in v.skip_confine and x[3] != y[3]:
            return f"instance #{x[0]}: impl {x[3]!r} model {y[3]!r}"
    return None


NEAR_POPS = 3


def evaluate(ctx, b, lib, model_exe, n_pops, per_class):
    rng = ctx.rng
    sch = lib.schema
    # the class "string literal with record delimiters where another scalar is expected" breaks the confinement clause
    # in a source without the resynchronisation of ReadInstance (finding confine:string-delimiters-as-scalar, repaired by
    # fixes/C03-3): it is generated when the source has the repair (decided from the regenerated switch, i.e. from the
    # source text, not from any symptom); corpus/C03/string-delimiters-as-scalar.json replays it on any tree
    string_delims = ctx.cov.get("model_cfg", {}).get("errorResyncsFromStart") == "1"
    # likewise the class "a delimiter where an aggregate element must stand" (finding agg:missing-element-read-as-unset of
    # property C09, repaired by fixes/C01-7): generated when the element loops have the repair
    missing_elem = ctx.cov.get("model_cfg", {}).get("aggrReportsMissingElement") == "1"
    items = []     # (violation, text, base index)
    bases = []
    pops = [W.gen_population(rng, sch, rng.randint(4, 9)) for _ in range(n_pops)]
    if "rf_e" in sch.by_name:
        pops.insert(0, W.ref_population(sch))       # references to complex instances through every part
    for pk, pop in enumerate(pops):
        bases.append((pop, W.render_file(sch.name, pop)))
        # every near-miss spelling of the grammar's productions (wave e): on the first populations of every schema
        for v in W.violations(rng, sch, pop, per_class, string_delims=string_delims, missing_elem=missing_elem,
                              near_miss=(pk < NEAR_POPS)):
            items.append((v, W.render_violation(sch.name, v), len(bases) - 1))
    files = []
    for k, (pop, text) in enumerate(bases):
        p = os.path.join(ctx.work, f"b-{sch.name}-{k}.p21")
        open(p, "w", encoding="latin-1").write(text)
        files.append((p, len(pop) + 3))
    for k, (v, text, bi) in enumerate(items):
        p = os.path.join(ctx.work, f"v-{sch.name}-{k}.p21")
        open(p, "w", encoding="latin-1").write(text)
        files.append((p, len(bases[bi][0]) + 3))
    reals = R.run_real(b, lib, files, ctx.work, rewrite=False)
    models = R.run_model(model_exe, lib, [t for _, t in bases] + [t for _, t, _ in items], abstract=getattr(sch, "abstract", ()))
    nb = len(bases)
    for k, (pop, text) in enumerate(bases):
        if reals[k].read.get("sev") != "NULL" or any(x[2] != "completeSE" for x in reals[k].insts):
            ctx.broken.append(("generator", f"a population meant to conform is not read cleanly: {reals[k].read}\n{text[-1500:]}"))
            return
    stat = ctx.cov["correspondence"].setdefault(sch.name, {"conforming_files": len(bases), "violated_files": len(items),
                                                             "oracle_failures": 0, "model_disagreements": 0})
    for k, (v, text, bi) in enumerate(items):
        rr, mr, base = reals[nb + k], models[nb + k], reals[bi]
        ctx.count(1, key=(sch.name, text))
        ctx.hist("violation classes", v.cls)
        ctx.hist("positions", v.detail.split(":")[0])
        res = oracle(v, base, rr)
        if res and not rr.died:
            # was it the file, or what the process had read before it?  (several files per process is part of "all inputs")
            fresh = R.run_real(b, lib, [files[nb + k]], ctx.work, rewrite=False)[0]
            if not oracle(v, base, fresh):
                seq = [bases[j][1] for j in range(nb)] + [items[j][1] for j in range(k)]
                ctx.hist("interference", v.cls)
                ctx.violation(f"interference:{v.cls}", res[1] + " — but only when the file is read after other files by the same "
                              "process (a fresh process reports it): state carried from one read to the next",
                              {"schema": lib.express, "file": text, "class": v.cls, "victim": v.victim,
                               "not_claimed": sorted(v.skip_confine), "conforming_file": bases[bi][1],
                               "read_before": minimal_prefix(ctx, b, lib, seq, files[nb + k], v, base)})
                res = None
        if res:
            stat["oracle_failures"] += 1
            kind, what = res
            key = f"{kind}:{v.key()}"
            if kind == "detect" and "@complex" in v.detail and not rr.died:
                # one root cause (STEPcomplex::STEPread drops what the parts other than the head report; repaired by
                # fixes/C15-3 and C15-4): one stable key whatever the violation class and position
                key = "detect:violation-in-complex-part"
                what += " (the violation is in a part of an externally mapped instance)"
            if kind == "detect" and v.cls == "stray_separator" and not rr.died:
                # one root cause: ReadTokenSeparator drops a `/` that starts no comment and a `\` that starts no complete
                # print control directive without reporting anything (routing note from C09's aggregate oracle)
                key = "detect:stray-slash-or-backslash-between-parameters"
                what += " (a stray `/` or `\\` stands in front of a parameter)"
            if kind == "detect" and v.cls.startswith("bad_reference_at_") and "[][]" in v.detail and not rr.died:
                # one root cause: an aggregate of aggregates is kept as raw text (GenericAggregate / SCLundefined), the
                # references inside it are never resolved - whatever the element type and nesting depth
                key = "detect:reference-inside-aggregate-of-aggregates"
                what += " (the reference stands inside an aggregate of aggregates)"
            ctx.violation(key, what, {"schema": lib.express, "file": text, "class": v.cls, "victim": v.victim,
                                                       "not_claimed": sorted(v.skip_confine), "conforming_file": bases[bi][1]})
        d = compare(v, rr, mr)
        if d:
            if mr.stop and mr.stop.startswith("unmodelled"):
                ctx.hist("model", "unmodelled: " + mr.stop)
                continue
            ctx.hist("model", "disagrees")
            stat["model_disagreements"] += 1
            if os.environ.get("C03_DUMP_DISAGREEMENT"):
                json.dump({"key": "debug", "replay": {"schema": lib.express, "file": text, "class": v.cls, "victim": v.victim,
                                                      "not_claimed": sorted(v.skip_confine), "conforming_file": bases[bi][1]}},
                          open(os.environ["C03_DUMP_DISAGREEMENT"], "w"))
            if not any(n.startswith("correspondence") for n, _ in ctx.broken):
                ctx.broken.append(("correspondence P21.Reader vs the reader of the schema library (violated files)",
                                   f"{d}; violation {v.key()}; file:\n{text[-3000:]}"))
        else:
            ctx.hist("model", "agrees")


def evaluate_redecl(ctx, b, n_pops):
    """violations at redeclared (explicitly narrowed) parameter positions - one and two levels of narrowing - judged by the
    statement's oracle alone (the Lean model has the redefining attributes, the model driver's dictionary does not)"""
    sch = W.redecl_schema()
    lib = R.build_libs(b, ctx.work, [("rdc", sch)])[0]
    rng = random.Random(f"C03-redecl:{ctx.seed}")
    bases, items = [], []
    for _ in range(n_pops):
        pop = W.redecl_population(rng, sch)
        bases.append((pop, W.render_file(sch.name, pop)))
        for v in W.redecl_violations(rng, sch, pop):
            items.append((v, W.render_violation(sch.name, v), len(bases) - 1))
    files = []
    for k, (pop, text) in enumerate(bases):
        p = os.path.join(ctx.work, f"b-rdc-{k}.p21")
        open(p, "w", encoding="latin-1").write(text)
        files.append((p, len(pop) + 3))
    for k, (v, text, bi) in enumerate(items):
        p = os.path.join(ctx.work, f"v-rdc-{k}.p21")
        open(p, "w", encoding="latin-1").write(text)
        files.append((p, len(bases[bi][0]) + 3))
    reals = R.run_real(b, lib, files, ctx.work, rewrite=False)
    nb = len(bases)
    for k, (pop, text) in enumerate(bases):
        if reals[k].read.get("sev") != "NULL" or any(x[2] != "completeSE" for x in reals[k].insts):
            ctx.broken.append(("generator", f"a population with redeclared attributes meant to conform is not read cleanly: {reals[k].read}\n{text[-1500:]}"))
            return
    stat = ctx.cov["correspondence"].setdefault(sch.name, {"conforming_files": len(bases), "violated_files": len(items),
                                                             "oracle_failures": 0, "model_disagreements": "not compared"})
    for k, (v, text, bi) in enumerate(items):
        rr, base = reals[nb + k], reals[bi]
        ctx.count(1, key=(sch.name, text))
        ctx.hist("violation classes", v.cls)
        ctx.hist("positions", v.detail.split(":")[0])
        res = oracle(v, base, rr)
        if res:
            stat["oracle_failures"] += 1
            ctx.violation(f"{res[0]}:{v.key()}", res[1] + " (the violation stands at a parameter position the instance's entity redeclares)",
                          {"schema": lib.express, "file": text, "class": v.cls, "victim": v.victim,
                           "not_claimed": sorted(v.skip_confine), "conforming_file": bases[bi][1]})


def run(ctx):
    ctx.trusted += [
        "hand-written models lean/StepModel/IStream.lean, P21/Lex.lean, P21/Reader.lean (transliterations of the anchored C++), "
        "tied by correspondence on generated violated files",
        "tools/extract.d/p21rw.py (regex translation of thresholds, counters and the exit rule)",
        "harness/h_p21.cc, vlib/p21_gen.py, vlib/p21_gen_rw.py (violator), vlib/p21_rw_run.py",
    ]
    ctx.assumptions += [
        "p21read's exit status is computed from STEPfile::Error().severity() by the rule extracted from p21read.cc (the driver "
        "is h_p21, not p21read itself)",
        "one violation per file; fewer than _maxErrorCount errors; no &SCOPE, no user-defined entities",
        "legal externally mapped combinations are given to the model as a table (C08's subject)",
    ]
    C01.lean_side(ctx, "StepModel.Props.C03")
    model_exe = ctx.model_exe("m_c01")
    if not os.path.exists(model_exe):
        return
    b = ctx.build("plain")
    quick = ctx.tier == "quick"
    ctx.cov["model_cfg"] = R.model_cfg(model_exe)
    W.NUMBER_ELEM_INT = ctx.cov["model_cfg"].get("numberElemReadsNumber") == "1"
    W.DOLLAR_JUNK = ctx.cov["model_cfg"].get("fillerKeepsError") == "1"
    W.SENTINELS = all(ctx.cov["model_cfg"].get(k) == "1" for k in ("intNullReported", "realNullReported", "numberNullReported"))
    libs = R.build_libs(b, ctx.work, schemas_for(ctx, 3 if quick else 24))
    # corpus first: the failing inputs of the repaired defects (each is a schema, a conforming file and the violated file)
    cdir = os.path.join(VERIF, "corpus", "C03")
    if os.path.isdir(cdir):
        for f in sorted(os.listdir(cdir)):
            if f.endswith(".json"):
                ctx.hist("corpus", f)
                replay_obj(ctx, b, json.load(open(os.path.join(cdir, f))))
    evaluate_redecl(ctx, b, 2 if quick else 8)
    for lib in libs:
        evaluate(ctx, b, lib, model_exe, 8 if quick else 40, 1 if quick else 3)
        if any(n == "generator" for n, _ in ctx.broken):
            break
    ctx.cov["rule"] = ("generated schemas (plus an abstract supertype) x conforming closed populations x one violation per file from: "
                       "wrong literal kind (attribute / aggregate element), undeclared enumeration item, `*` for a non-derived "
                       "attribute, a value for a derived one, `$` for a required aggregate, dangling / wrong-type reference (attribute / aggregate element), "
                       "a STRING literal containing `)` `;` `,` where another scalar is expected (when the source re-synchronises such records), SELECT value outside the list (typed / reference), too few / too many parameters, unknown / abstract "
                       "keyword (simple / complex part), duplicate id, unterminated instance / string; at first / middle / "
                       "last / only parameter positions, in simple and complex instances; every class that applies at every explicitly "
                       "redeclared (narrowed) position, one and two levels; every near-miss spelling of REAL / INTEGER / "
                       "ENUMERATION / BOOLEAN / LOGICAL / BINARY (one mandatory element of the production dropped)")


def replay(ctx, path):
    d = json.load(open(path))
    C01.lean_side(ctx, "StepModel.Props.C03")
    b = ctx.build("plain")
    replay_obj(ctx, b, d)


def replay_obj(ctx, b, d):
    r = d.get("replay", d)
    if isinstance(r, str):
        import ast
        r = ast.literal_eval(r)
    import hashlib
    wd = os.path.join(ctx.work, "replay-" + hashlib.sha1(r["schema"].encode()).hexdigest()[:8])
    os.makedirs(wd, exist_ok=True)
    open(os.path.join(wd, "schema.exp"), "w").write(r["schema"])
    exe = os.path.join(wd, "h_p21")
    B.gen_schema_lib(b, os.path.join(wd, "schema.exp"), wd, [R.H_P21], exe)
    lib = R.Lib(None, exe, r["schema"])
    pb, pv = os.path.join(wd, "base.p21"), os.path.join(wd, "viol.p21")
    open(pb, "w", encoding="latin-1").write(r["conforming_file"])
    open(pv, "w", encoding="latin-1").write(r["file"])
    pre = []
    for j, txt in enumerate(r.get("read_before", [])):
        pj = os.path.join(wd, f"before-{j}.p21")
        open(pj, "w", encoding="latin-1").write(txt)
        pre.append((pj, 60))
    res_all = R.run_real(b, lib, [(pb, 60)] + pre + [(pv, 60)], wd, rewrite=False)
    base, rr = res_all[0], res_all[-1]

    class V:
        cls = r.get("class", "?")
        skip_confine = set(r.get("not_claimed", []))
    res = oracle(V, base, rr)
    ctx.count(1, key=("replay", r["file"]))
    if res:
        ctx.violation(d.get("key", "replay"), res[1], r)

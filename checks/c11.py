"""C11 — inverse attributes resolved on load contain exactly the real referrers.

proof:           lean/StepModel/Props/C11.lean over the model lean/StepModel/LazyRefs.lean
regenerated tie: tools/extract.d/lazy.py -> Generated/LazyGen.lean (refs* flags: candidate set per inverse attribute,
                 missing inverted attribute skipped, attribute found by descriptor, storage by the inverse's own type,
                 aggregate re-read per referrer, resolution deferred until no instance is half-read)
correspondence:  harness/h_lazy.cc (`INV` lines: getInvAttrs() of every instance loaded on request, read the way the
                 generated accessor reads them) vs lean exe m_c11 on the same generated schema + population
oracle:          Spec.Inverse computed from the generated population (vlib/lazy_gen.inverse_truth); a sanitizer
                 report or a crash while loading / reading the inverse attributes is a failing input by itself
"""
import concurrent.futures as cf
import hashlib, json, os, re, subprocess, time
from vlib import build as B
from vlib import lazy_gen as G
from checks import c10 as C10

VERIF = C10.VERIF
PID = "C11"


def numbering(s):
    ents = {e["name"]: i + 1 for i, e in enumerate(s["entities"])}
    names = {}
    for e in s["entities"]:
        for (n, k, t) in e["attrs"]:
            names.setdefault(n, len(names) + 1)
    return ents, names


def dict_records(s):
    """the schema as data for the model: `E name sups attrs redecl invs` (everything else - supertype closure, slots, attribute
    layout, the descriptor an INVERSE is linked to - is computed by lean/StepModel/LazyDict.lean)"""
    ents, names = numbering(s)
    recs = []
    for e in s["entities"]:
        sups = ",".join(str(ents[x]) for x in G.sups_of(e)) or "-"
        attrs = ",".join(f"{names[n]}.{1 if k in ('listref', 'setref') else 0}" for (n, k, t) in e["attrs"]) or "-"
        rd = ",".join(str(names[n]) for (n, o, t) in e.get("redecl", [])) or "-"
        invs = ",".join(f"{100 * ents[e['name']] + j}.{1 if a else 0}.{ents[o]}.{names[at]}" for j, (n, a, o, at) in enumerate(e.get("inverses", []))) or "-"
        recs.append(f"E {ents[e['name']]} {sups} {attrs} {rd} {invs}")
    return recs


def model_query(s, pop, x, inv, owner):
    ents, names = numbering(s)
    (n, aggr, over, attr) = inv
    key = 100 * ents[owner] + [v[0] for v in G.ent(s, owner)["inverses"]].index(n)     # one key per declaration
    kw = x["parts"][0][0]
    head = f"rd {x['id']} {ents[kw]} {key} {1 if aggr else 0} {ents[over]} {names[attr]}"
    recs = []
    for y in sorted(pop, key=lambda v: v["id"]):
        if len(y["parts"]) > 1:
            recs.append(f"P {y['id']} -")
            continue
        p, vs = y["parts"][0]
        toks = []
        for v in vs:
            refs = [v[1]] if v[0] == "ref" else (list(v[1]) if v[0] == "agg" else [])
            toks.append("+".join(map(str, refs)) if refs else "-")
        recs.append(f"P {y['id']} {ents[p]} " + " ".join(toks))
    return " ; ".join([head] + dict_records(s) + recs)


def deep_entities(s):
    """entities that inherit an inverse attribute from the LAST supertype in breadth-first order when they have more than
    one (transitive) supertype - a grand-supertype or a second supertype (class inverse-inherited-beyond-first-supertype)"""
    out = set()
    for e in s["entities"]:
        sp = G.supers(s, e["name"])[1:]
        if len(sp) >= 2 and G.ent(s, sp[-1]).get("inverses"):
            out.add(e["name"])
    return out


def redecl_entities(s):
    return {e["name"] for e in s["entities"] if G.redeclared(s, e["name"])}


def parse_inv(lines):
    """{(id, name, owner): (flags, [ids])}"""
    out = {}
    for l in lines:
        m = re.match(r"INV (\d+) (\w+)@(\w+) (\w\w) :(.*)$", l)
        if m:
            out[(int(m.group(1)), m.group(2), m.group(3).lower())] = (m.group(4), [int(t) for t in m.group(5).split()])
    return out


def byname_problems(lines):
    """SDAI_Application_instance::getInvAttr( const char * name ) - the look-up by NAME next to the look-up by descriptor: for every
    inverse attribute of every inspected instance it must return that very descriptor with the same slot"""
    inv, invn = {}, {}
    for l in lines:
        m = re.match(r"INV (\d+) (\w+@\w+) \w\w :(.*)$", l)
        if m:
            inv[(m.group(1), m.group(2))] = m.group(3).split()
        m = re.match(r"INVN (\d+) (\w+@\w+) -> (NULL|(\w+@\w+) :(.*))$", l)
        if m:
            invn[(m.group(1), m.group(2))] = (m.group(4), (m.group(5) or "").split())
    out = []
    for key, ids in inv.items():
        if key not in invn:
            out.append(("machinery", f"no by-name line for inverse attribute {key[1]} of #{key[0]}"))
            continue
        ret, nids = invn[key]
        if ret != key[1] or nids != ids:
            out.append(("property", f"#{key[0]}: getInvAttr(\"{key[1].split('@')[0]}\") returns {ret or 'no inverse attribute'} holding {nids}; "
                                    f"the inverse attribute of that name is {key[1]} and holds {ids}"))
    return out


def check_pop(exe, env, model_exe, workdir, tag, s, pop, text, off, orders, budget=True):
    """returns problems [(kind, detail, order)]"""
    path = os.path.join(workdir, f"{tag}.p21")
    with open(path, "wb") as fh:
        fh.write(text.encode("latin-1"))
    maxid = max([x["id"] for x in pop] + [0]) + 2
    byid = {x["id"]: x for x in pop}
    problems = []
    if budget and C10.BUDGET.exhausted():
        C10.BUDGET.skipped += 1
        return [("skipped", "not run: the run's budget was used up", [])]
    for o in orders:
        rc, out, err = C10.run_h(exe, env, path, maxid, "load", o)
        if budget and C10.is_fatal(rc) and not (rc == 98 and "judy.c" in err and "misaligned" in err):
            C10.BUDGET.fatal_seen(tag)
        calls, cached, invl, ended = C10.parse_load(out)
        if rc == 98 and "judy.c" in err and "misaligned" in err:
            problems.append(("skipped", "UBSan abort inside the bundled judy.c (misaligned load; not C11's statement)", o))
            continue
        if (not ended or rc != 0) and C10.is_fatal(rc):
            ents_here = {p for x in pop for (p, _) in x["parts"]}
            if "not found in iAMap" in err and ents_here & deep_entities(s):
                problems.append(("class:inverse-inherited-beyond-first-supertype",
                                 f"loading {o}: abort() `{[l for l in err.splitlines() if 'iAMap' in l][0][:160]}`: the instance's entity inherits the inverse "
                                 f"attribute from a grand-supertype or a second supertype and InitIAttrs left no slot for it", o))
                break
            if ents_here & redecl_entities(s) and rc in (-11, 139, 99):
                problems.append(("class:redeclared-inverted-attr",
                                 f"loading {o} died (rc={rc}) in a population with an instance whose entity redeclares the inverted attribute", o))
                break
        if not ended or rc != 0:
            last = [l for l in err.strip().splitlines() if "runtime error" in l or "ERROR: AddressSanitizer" in l or "Assertion" in l]
            problems.append(("property", f"loading {o} and reading the inverse attributes ended rc={rc}: "
                             f"{(last[0] if last else err.strip()[-200:])[:300]}", o))
            if C10.is_fatal(rc):
                break          # the other histories of this population would wait for the same time-out
            continue
        got = parse_inv(invl)
        for kind, det in byname_problems(out):
            problems.append((kind, f"after loadInstance history {o}: " + det, o))
        reqs, keys = [], []
        for i in sorted(set(o)):
            if i not in byid:
                continue
            x = byid[i]
            truth = G.inverse_truth(s, pop, x)
            truth_nc = G.inverse_truth(s, pop, x, skip_complex=True)
            truth_nr = G.inverse_truth(s, pop, x, skip_redecl=True)
            for (n, owner), want in truth.items():
                inv = next(v for v in G.ent(s, owner)["inverses"] if v[0] == n)
                g = got.get((i, n, owner))
                if g is None:
                    kind = "property"
                    if len(x["parts"]) == 1 and x["parts"][0][0] in deep_entities(s):
                        kind = "class:inverse-inherited-beyond-first-supertype"
                    problems.append((kind, f"instance #{i} ({x['parts'][0][0]}) has no slot for inverse attribute {n} inherited from {owner}", o))
                    continue
                flags, ids = g
                if inv[1]:
                    if want != truth_nc[(n, owner)] and ids == truth_nc[(n, owner)]:
                        # exactly the complex referrers are missing: the known class
                        problems.append(("class:complex-referrer", f"after loadInstance history {o}: #{i}.{n} (SET OF {inv[2]} FOR {inv[3]}) holds {ids}, "
                                         f"the real referrers are {want} (the missing ones are complex instances)", o))
                    elif want != truth_nr[(n, owner)] and ids == truth_nr[(n, owner)]:
                        problems.append(("class:redeclared-inverted-attr", f"after loadInstance history {o}: #{i}.{n} (SET OF {inv[2]} FOR {inv[3]}) holds {ids}, "
                                         f"the real referrers are {want} (the missing ones mention #{i} through the attribute their entity redeclares)", o))
                    elif sorted(ids) != want or len(set(ids)) != len(ids):
                        problems.append(("property", f"after loadInstance history {o}: #{i}.{n} (SET OF {inv[2]} FOR {inv[3]}) holds {ids}, "
                                         f"the real referrers are {want}", o))
                else:
                    if (len(want) == 1 and ids != want) or (len(want) == 0 and ids) or (ids and ids[0] not in want):
                        problems.append(("property", f"after loadInstance history {o}: #{i}.{n} ({inv[2]} FOR {inv[3]}) holds {ids}, "
                                         f"the real referrers are {want}", o))
                reqs.append(model_query(s, pop, x, inv, owner))
                keys.append((i, n, owner, ids, inv[1]))
        if reqs:
            r = subprocess.run([model_exe], input="\n".join(reqs) + "\n", capture_output=True, text=True, timeout=300)
            rep = r.stdout.split("\n")[:-1]
            if len(rep) != len(reqs):
                problems.append(("machinery", f"model driver answered {len(rep)}/{len(reqs)} {r.stderr[-200:]}", o))
                continue
            for (i, n, owner, ids, aggr), ans in zip(keys, rep):
                m = [int(t) for t in ans.split()[1:]] if ans.startswith("ok") else ans
                if m != ids:
                    problems.append(("correspondence", f"#{i}.{n}@{owner}: impl {ids} vs model {m} (history {o})", o))
    return problems


def targets(s, pop):
    return [x["id"] for x in pop if G.inverse_truth(s, pop, x)]


def run(ctx):
    ctx.trusted += [
        "tools/extract.d/lazy.py (regex recognition of the shape of lazyRefs.h / loadInstance)",
        "hand-written model lean/StepModel/LazyRefs.lean of lazyRefs.h (modelled, tied by correspondence); the dictionary "
        "(supertype closure, InitIAttrs' search for the inverted attribute) enters the model as data computed by checks/c11.py",
        "harness/h_lazy.cc reads each slot the way the generated accessor does (aggregate iff the INVERSE attribute is an aggregate)",
        "vlib/lazy_gen.py (schemas: 1-3 inverse attributes per entity, own and inherited, aggregate and single-valued inverted "
        "attributes, inverted attribute inherited by the inverted entity, referrer subtypes, other-attribute mentions; no complex instances)",
    ]
    ctx.assumptions += ["referrers are simple instances (a complex instance is indexed under the empty keyword and is never a candidate: proposed finding in notes/C11.md)",
                        "single-valued INVERSE attributes are compared only when the population has at most one referrer (EXPRESS requires it)"]
    proof_ok = ctx.lean("StepModel.Props.C11", exes=["m_c11"], extractors=["lazy"])
    if not proof_ok:
        from vlib import lean as L
        L.lake_build(["m_c11"])
    quick = ctx.tier == "quick"
    b = ctx.build("asan")
    env = b.env()
    model_exe = ctx.model_exe("m_c11")
    if not os.path.exists(model_exe):
        return
    # corpus first: hand-minimised defect witnesses with the INV lines the property demands
    cdir = os.path.join(VERIF, "corpus", PID)
    for f in sorted(os.listdir(cdir)) if os.path.isdir(cdir) else []:
        r = json.load(open(os.path.join(cdir, f)))
        sdir = os.path.join(ctx.work, "corpus-" + f)
        os.makedirs(sdir, exist_ok=True)
        open(os.path.join(sdir, "s.exp"), "w").write(r["schema"])
        exe = os.path.join(sdir, "h_lazy")
        B.gen_schema_lib(b, os.path.join(sdir, "s.exp"), os.path.join(sdir, "gen"), [C10.HARNESS], exe)
        open(os.path.join(sdir, "f.p21"), "wb").write(r["file"].encode("latin-1"))
        for o in r["load_orders"]:
            rc, out, err = C10.run_h(exe, env, os.path.join(sdir, "f.p21"), 10 ** 3, "load", o)
            calls, cached, invl, ended = C10.parse_load(out)
            ctx.count(1, key="corpus:" + f)
            if rc != 0 or not ended or sorted(invl) != sorted(r["expect"]):
                ctx.violation(r.get("key", "corpus:" + f[:-5]), f"history {o}: inverse attributes {invl} (rc={rc}), the real referrers are {r['expect']}", r)
            for kind, det in byname_problems(out):
                if kind == "property":
                    ctx.violation(r.get("key", "corpus:" + f[:-5]) + ":by-name", f"history {o}: " + det, r)
                else:
                    ctx.broken.append((f"corpus {f}", det))
    nschemas, npops, nmax = (6, 30, 14) if quick else (40, 100, 14)
    # every 8th schema (the last one in quick) lets referrers be complex instances: the known `complex-referrer` class
    # 0,1,6 a multiple-inheritance diamond BELOW the inverted entity (rda, rdb, rdz, rdy, rdab, rdq, rdp: a shared subtype before further
    # subtypes in a subtype list); inverse attribute names are proper prefixes of one another, the longer declared first
    # schema variants by index mod 8: 1,4,7 subtypes of the inverted entity with several supertypes (rel first / second);
    # 2,4 targets inheriting inverses from a grand-/second supertype; 2,6 diamond and double-diamond target hierarchies (inverse declared at the
    # top and in the middle, aggregate and single-valued); 3 complex referrers; 5 a referrer redeclaring the inverted attribute
    # 2-4 inverse attributes per target entity; one of them inverts an attribute the inverted entity INHERITS (one level up, two
    # levels up, through a second supertype), placed first / in the middle / last among its siblings
    def inh_of(i):
        ninv = 2 + (i % 3)
        return ninv, ((i + i // 2) % ninv, ["one-up", "second-super", "two-up"][i % 3])
    schemas = [G.schema_c11(ctx.rng, i, ninv=inh_of(i)[0], complex_ref=(i % 8 == 3), mi=(i % 8 in (1, 4, 7)),
                            deep=(i % 8 in (2, 4)), redecl=(i % 8 == 5), diamond=(i % 8 in (2, 6)), inh=inh_of(i)[1],
                            rdiamond=(i % 8 in (0, 1, 6))) for i in range(nschemas)]
    t0 = time.time()
    with cf.ThreadPoolExecutor(max_workers=8) as ex:
        exes = list(ex.map(lambda s: C10.build_schema(b, s, ctx.work), schemas))
    ctx.cov["correspondence"]["schema libraries"] = {"n": nschemas, "wall_s": round(time.time() - t0, 1)}
    # the hierarchy the generated schema init code registered (h_lazy `registry`): the supertype lists are the ones sent to the model
    # (hypothesis SameHierarchy of C11_candidate_entities_generated) and the registered subtype lists are their inverse (what
    # C11_registry_subtypes_inverse derives from C02's model of the init code)
    nreg = 0
    for si, s in enumerate(schemas):
        rc, out, err = C10.run_h(exes[si], env, "-", 0, "registry")
        reg = {}
        for l in out:
            m = re.match(r"ENT (\S+) SUPS(.*) SUBS(.*)$", l)
            if m:
                reg[m.group(1).lower()] = ([x.lower() for x in m.group(2).split()], [x.lower() for x in m.group(3).split()])
        want = {e["name"]: G.sups_of(e) for e in s["entities"]}
        nreg += len(reg)
        if rc != 0 or "END" not in out or set(reg) != set(want):
            ctx.broken.append((f"registry dump of schema {s['name']}", f"rc={rc}: registered entities {sorted(reg)[:8]}.. vs schema {sorted(want)[:8]}.. {err.strip()[-200:]}"))
            continue
        # does a walk over the registered subtype lists from an inverted entity meet an entity it has queued already BEFORE one it has
        # not (the shape a once-per-entity iterator must skip over, not stop at)?
        overs = {iv[2] for e in s["entities"] for iv in e.get("inverses", [])}
        hit = False
        for ov in overs:
            queued, todo = {ov}, [ov]
            while todo:
                cur = todo.pop(0)
                seen_q = False
                for c in reg.get(cur, ([], []))[1]:
                    if c in queued:
                        seen_q = True
                    else:
                        hit = hit or seen_q
                        queued.add(c)
                        todo.append(c)
        ctx.hist("subtype walks", "a queued entity before further subtypes" if hit else "no entity met twice before the end of a list")
        for n, (sups, subs) in reg.items():
            inv = sorted(x for x in want if n in want[x])
            if sups != want[n] or sorted(subs) != inv:
                ctx.violation("registry-hierarchy", f"schema {s['name']}, entity {n}: registered supertypes {sups} (declared {want[n]}), registered subtypes "
                              f"{sorted(subs)} (entities naming it as supertype: {inv})", {"schema": G.express(s), "entity": n})
                break
    ctx.cov["correspondence"]["registry hierarchy"] = {"entities": nreg, "schemas": nschemas}
    jobs = []
    for si, s in enumerate(schemas):
        for pi in range(npops):
            n = ctx.rng.randint(2, nmax)
            pop = G.population(ctx.rng, s, n, cyc=ctx.rng.choice([0, 0.5, 1.0]), plain_strings=True, maxid=3 * n)
            text, off = G.render_file(ctx.rng, s, pop, lay=False, cmt=False)
            tg = targets(s, pop)
            ctx.rng.shuffle(tg)
            orders = [[t] for t in tg[:4]]
            allids = [x["id"] for x in pop]
            ctx.rng.shuffle(allids)
            orders.append(allids)
            jobs.append((si, f"s{si}p{pi}", s, pop, text, off, orders))

    def work(j):
        si, tag, s, pop, text, off, orders = j
        try:
            return j, check_pop(exes[si], env, model_exe, ctx.work, tag, s, pop, text, off, orders)
        except Exception as e:
            return j, [("machinery", f"{type(e).__name__}: {e}", [])]
    C10.BUDGET = C10.Budget(wall_s=120.0 if quick else 720.0, max_fatal=3, shrink_s=30.0 if quick else 60.0)
    C10.RETRY.on = True
    t0 = time.time()
    with cf.ThreadPoolExecutor(max_workers=14) as ex:
        results = list(ex.map(work, jobs[:14]))
        C10.BUDGET.calibrate()
        results += list(ex.map(work, jobs[14:]))
    ctx.cov["correspondence"]["budget"] = {"per-process time-out s": round(C10.BUDGET.timeout, 2), "populations with hang/signal": len(C10.BUDGET.fatal),
                                           "populations not run (budget used up)": C10.BUDGET.skipped}
    nprob = sum(1 for _, pr in results if [p for p in pr if p[0] != 'skipped' and not p[0].startswith('class:')])
    ctx.cov["correspondence"]["populations"] = {"n": len(jobs), "with_problems": nprob, "wall_s": round(time.time() - t0, 1)}
    for (si, tag, s, pop, text, off, orders), pr in results:
        ctx.count(len(orders), key=hashlib.sha1(text.encode("latin-1")).hexdigest())
        ctx.hist("inverse attributes per schema", sum(len(e.get("inverses", [])) for e in s["entities"]))
        for x in pop:
            for (_, want) in G.inverse_truth(s, pop, x).items():
                ctx.hist("referrers per inverse attribute", min(len(want), 4))
    for (si, tag, s, pop, text, off, orders), pr in results:
        for p in pr:
            if p[0].startswith("class:"):
                ctx.hist("known classes hit by the random stream", p[0][6:])
                ctx.violation(p[0][6:], p[1], {"schema": G.express(s), "file": text, "load_orders": [p[2]], "class": p[0][6:]})
                break
    for (si, tag, s, pop, text, off, orders), pr in results:
        props = [p for p in pr if p[0] == "property"]
        if props and len(ctx.violations) < 3:
            # shrink: drop instances while some property failure persists for the failing history
            order = props[0][2]

            def fails(pp, oo):
                t, o_ = G.render_file(ctx.rng, s, pp, lay=False, cmt=False)
                return [p for p in check_pop(exes[si], env, model_exe, ctx.work, "shrink", s, pp, t, o_, [oo], budget=False) if p[0] == "property"]
            cur, changed = pop, True
            deadline = time.time() + C10.BUDGET.shrink_s
            C10.RETRY.on = False
            while changed and len(cur) > 1 and time.time() < deadline:
                changed = False
                for x in list(cur):
                    cand = C10.drop_instance(cur, x["id"])
                    oo = [i for i in order if i != x["id"]]
                    if not oo or not C10.required_ok(s, cand):
                        continue
                    if fails(cand, oo):
                        cur, order, changed = cand, oo, True
                        break
            det = fails(cur, order)
            C10.RETRY.on = True
            text2, off2 = G.render_file(ctx.rng, s, cur, lay=False, cmt=False)
            invs = ";".join(f"{e['name']}.{n}:{'SET' if a else 'ONE'}:{o}.{at}" for e in s["entities"] for (n, a, o, at) in e.get("inverses", []))
            ctx.violation("inv:" + invs + "|" + C10.key_of(s, cur, text2, off2), det[0][1] if det else props[0][1],
                          {"schema": G.express(s), "file": text2, "load_orders": [order],
                           "how": "exp2cxx the schema, link harness/h_lazy.cc (ASan+UBSan build), run `h_lazy FILE MAXID load ids..` and read the INV lines"})
    ctx.cov["correspondence"]["skipped (judy.c alignment abort under UBSan)"] = sum(1 for _, pr in results for p in pr if p[0] == "skipped" and "judy" in p[1])
    if not ctx.violations:
        for (si, tag, s, pop, text, off, orders), pr in results:
            for kind, det, o in [p for p in pr if p[0] != "skipped" and not p[0].startswith("class:")]:
                ctx.broken.append((f"{kind} ({tag})", det + " (the oracle finds the property intact on this input)"))
                break
            if ctx.broken:
                break
    if jobs:
        j = jobs[-1]
        ctx.sample({"schema": G.express(j[2]), "data": j[4][j[5]:j[5] + 300], "load_orders": j[6][:2]})
    ctx.cov["rule"] = ("per generated schema (1-3 INVERSE attributes on tg/tsub over rel/rsub/qel, aggregate and single-valued inverted "
                       "attributes, one inherited by the inverted entity, optional single-valued inverse) random populations with "
                       "sibling referrers, subtype referrers, other-attribute mentions, cycles; every target loaded alone in a fresh "
                       "process (up to 4 per population) and all instances in one random order; ASan+UBSan build")


def replay(ctx, path):
    d = json.load(open(path))
    r = d.get("replay", d)
    ctx.lean("StepModel.Props.C11", exes=["m_c11"], extractors=["lazy"])
    b = ctx.build("asan")
    sdir = os.path.join(ctx.work, "replay")
    os.makedirs(sdir, exist_ok=True)
    exp = os.path.join(sdir, "s.exp")
    open(exp, "w").write(r["schema"])
    exe = os.path.join(sdir, "h_lazy")
    B.gen_schema_lib(b, exp, os.path.join(sdir, "gen"), [C10.HARNESS], exe)
    ppath = os.path.join(sdir, "f.p21")
    open(ppath, "wb").write(r["file"].encode("latin-1"))
    for o in r["load_orders"]:
        rc, out, err = C10.run_h(exe, b.env(), ppath, 10 ** 4, "load", o)
        calls, cached, invl, ended = C10.parse_load(out)
        print("\n".join(invl))
        if rc != 0 or not ended or (r.get("expect") and sorted(invl) != sorted(r["expect"])):
            ctx.violation(d.get("key", "replay"), f"rc={rc} INV lines {invl} {err.strip()[-300:]}", r)

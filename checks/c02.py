"""C02 — generated C++ dictionary and classes mirror the EXPRESS schema exactly.

proof:           lean/StepModel/Props/C02.lean (Part 21 attribute order of the generated constructors for every acyclic
                 inheritance graph, constructor agreement, no duplicate descriptors, name mangling injectivity, numbering)
regenerated tie: tools/extract.d/dictgen.py -> Generated/DictGen.lean (push duplicate test, LITERAL_INFINITY, prefixes,
                 constructor step order)
correspondence:  harness/h_dict.cc linked with the library exp2cxx emits for each generated schema (registry walk, every
                 descriptor getter, ObjCreate of every instantiable entity, mutator/accessor round trips compiled from the
                 model's mangled names) vs lean exe m_c02 fed the same schema as AST
oracle:          Spec.Mirror / Part 21 order computed from the schema itself (vlib/schema_gen_c02.py spec_lines, p21_order)
                 evaluated on the real dump; "the emitted code compiles" is observed (g++ exit status), not proved.
"""
import concurrent.futures as cf
import json, os, re, shutil, subprocess, sys, time, glob
from vlib import build as B
from vlib import schema_gen_c02 as G
from vlib import findings as F

HERE = os.path.dirname(os.path.abspath(__file__))
VERIF = os.path.dirname(HERE)
HARNESS = os.path.join(VERIF, "harness", "h_dict.cc")
CORPUS = os.path.join(VERIF, "corpus", "C02")
CXX_KEYWORDS = set("""alignas alignof and and_eq asm auto bitand bitor bool break case catch char char16_t char32_t class compl
const constexpr const_cast continue decltype default delete do double dynamic_cast else enum explicit export extern false float
for friend goto if inline int long mutable namespace new noexcept not not_eq nullptr operator or or_eq private protected public
register reinterpret_cast return short signed sizeof static static_assert static_cast struct switch template this thread_local
throw true try typedef typeid typename union unsigned using virtual void volatile wchar_t while xor xor_eq std""".split())


# global names of the C / C++ library headers the generated code includes: a schema named like one of them is the same finding as
# a schema named like a keyword (the name is used verbatim as a namespace)
C_LIBRARY_NAMES = set("""tm time clock div ldiv abs labs exit abort atoi atol atof rand srand free malloc calloc realloc qsort system
getenv signal raise remove rename tmpfile tmpnam fopen fclose printf scanf puts gets getc putc fgets fputs fread fwrite fseek ftell
stdin stdout stderr errno strlen strcpy strcat strcmp strchr strstr strtok memcpy memset memcmp memmove isalpha isdigit isspace
toupper tolower sin cos tan exp log pow sqrt ceil floor fabs fmod sinh cosh tanh asin acos atan modf frexp ldexp wait sleep read
write open close link unlink index rindex y0 y1 yn j0 j1 jn gamma""".split())


def cq(x):
    return x.replace("\\", "\\\\").replace('"', '\\"')


def p21_literal(s, tr, which=0):
    """a Part 21 literal for a value of type tr (None when it would need other instances)"""
    if tr[0] == "B":
        return {"INTEGER": ["1", "2"], "REAL": ["1.5", "2.5"], "NUMBER": ["1.5", "2.5"], "STRING": ["'a'", "'b'"],
                "BOOLEAN": [".T.", ".F."], "LOGICAL": [".T.", ".U."], "BINARY": ['"0A"', '"0B"']}[tr[1]][which]
    if tr[0] == "E":
        return None
    if tr[0] == "A":
        a, b = p21_literal(s, tr[6], 0), p21_literal(s, tr[6], 1)
        if a is None:
            return None
        return "(" + (a + "," + b if which == 0 else b + "," + a) + ")"
    t = s.T(tr[1])
    b = t["body"]
    if b[0] == "enum":
        items = b[1]
        return "." + items[0 if which == 0 else -1].upper() + "."
    if b[0] == "select":
        for m in b[1]:
            if m[0] == "N" and s.base_kind(m) in ("INTEGER", "REAL", "NUMBER", "STRING", "BOOLEAN", "LOGICAL"):
                return m[1].upper() + "(" + p21_literal(s, m, which) + ")"
        return None
    return p21_literal(s, b[1], which)


# ------------------------------------------------------------------ accessor test code from the model's names
def acc_inc(s, names):
    """C++ that stores a value through every generated mutator of an own explicit attribute and reads it back."""
    cls = {n: c for k, n, c in (x[:3] for x in names if x[0] == "CLASS")}
    accn = {(x[1], x[2]): x[3] for x in names if x[0] == "ACCN"}
    out = ["static void c02_accessors( Registry & reg ) {", "  (void) reg;"]

    def pretty(n):   # only used to look an entity up by name; Registry::ObjCreate folds case itself
        return n

    def instantiable(n):
        e = s.Ent(n)
        if not e["abstract"]:
            return n
        for x in s.entities:
            if n in x["supers"]:
                r = instantiable(x["name"])
                if r:
                    return r
        return None
    for e in s.entities:
        if e["abstract"]:
            continue
        en = e["name"].lower()
        C = cls[en]
        for a in e["attrs"]:
            if a["kind"] != "E":
                continue
            dn = (a["redecl"].lower() + "." if a["redecl"] else "") + a["name"].lower()
            f = accn[(en, dn)]
            bk = s.base_kind(a["type"])
            tag = f'"{en}", "{dn}"'
            pre = f'  {{ {C} * e = ( {C} * ) mk( "{pretty(en)}" ); if( !e ) accResult( {tag}, "{bk}", false, "nocreate" ); else {{ '
            post = " } }"
            if bk == "INTEGER":
                body = f'e->{f}( 7 ); accResult( {tag}, "{bk}", e->{f}() == 7 );'
            elif bk in ("REAL", "NUMBER"):
                body = f'e->{f}( 2.5 ); accResult( {tag}, "{bk}", e->{f}() == 2.5 );'
            elif bk == "BOOLEAN":
                body = f'e->{f}( BTrue ); accResult( {tag}, "{bk}", e->{f}() == BTrue );'
            elif bk == "LOGICAL":
                body = f'e->{f}( LUnknown ); accResult( {tag}, "{bk}", e->{f}() == LUnknown );'
            elif bk == "STRING":
                body = f'e->{f}( "it\'s" ); accResult( {tag}, "{bk}", !strcmp( e->{f}().c_str(), "it\'s" ) );'
            elif bk == "BINARY":
                body = f'SDAI_Binary b; b = "0A5"; e->{f}( b ); accResult( {tag}, "{bk}", !strcmp( e->{f}().c_str(), b.c_str() ) && strlen( b.c_str() ) == 3 );'
            elif bk == "ENUM":
                root = a["type"][1]
                td = s.resolve(root)
                items = td["body"][1]
                it = items[-1].lower()
                en_t = td["name"].lower()
                const = en_t[0].upper() + en_t[1:] + "__" + it
                body = f'e->{f}( {const} ); accResult( {tag}, "{bk}", ( int ) e->{f}() == ( int ) {const} );'
            elif bk == "ENTITY":
                tgt = instantiable(a["type"][1])
                if not tgt:
                    continue
                tc = cls[a["type"][1].lower()]
                body = (f'SDAI_Application_instance * r = mk( "{tgt.lower()}" ); e->{f}( ( {tc} * ) r ); '
                        f'accResult( {tag}, "{bk}", r && ( SDAI_Application_instance * ) e->{f}() == r && '
                        f'( SDAI_Application_instance * ) ( ( const {C} * ) e )->{f}() == r ); '
                        # C02_accessor_null_entity_witness put to the real code: store a null reference, read it back
                        f'e->{f}( ( {tc} * ) 0 ); bool cn = ( ( const {C} * ) e )->{f}() == 0; bool nn = e->{f}() == 0; '
                        f'accResult( {tag}, "ENTITY-NULL", cn && nn, cn ? "non-const accessor returned an instance" : "const accessor not null" );')
            elif bk == "AGGR":
                lit = p21_literal(s, a["type"])
                if lit and not a["redecl"]:
                    # fill a second instance's member through its STEPattribute, hand that aggregate to the mutator, read back
                    body = (f'{C} * e2 = ( {C} * ) mk( "{en}" ); STEPattribute * a2 = e2 ? attrOf( e2, "{en}", "{dn}" ) : 0; '
                            f'if( !a2 ) accResult( {tag}, "{bk}", false, "noattr" ); else {{ a2->StrToVal( "{cq(lit)}" ); '
                            f'std::string want = aggStr( e2->{f}() ); e->{f}( e2->{f}() ); '
                            f'accResult( {tag}, "{bk}", want == aggStr( e->{f}() ) && want == aggStr( ( ( const {C} * ) e )->{f}() ) && want.size() > 2, want ); }}')
                else:
                    body = (f'accResult( {tag}, "{bk}-agree", e->{f}() != 0 && ( ( const {C} * ) e )->{f}() == e->{f}() );')
            elif bk == "SELECT":
                lit = p21_literal(s, a["type"])
                if lit and not a["redecl"]:
                    body = (f'{C} * e2 = ( {C} * ) mk( "{en}" ); STEPattribute * a2 = e2 ? attrOf( e2, "{en}", "{dn}" ) : 0; '
                            f'if( !a2 ) accResult( {tag}, "{bk}", false, "noattr" ); else {{ a2->StrToVal( "{cq(lit)}" ); '
                            f'std::string want = selStr( e2->{f}() ); e->{f}( e2->{f}() ); '
                            f'accResult( {tag}, "{bk}", want == selStr( e->{f}() ) && want == selStr( ( ( const {C} * ) e )->{f}() ) && want.size() > 1 && want != "$", want ); }}')
                else:
                    body = f'accResult( {tag}, "{bk}-agree", e->{f}() != 0 && ( ( const {C} * ) e )->{f}() == e->{f}() );'
            else:
                continue
            out.append(pre + body + post)
    # an entity reference through an attribute of a select type: every entity the select can hold (member of a member select ...)
    for e in s.entities:
        if e["abstract"]:
            continue
        en = e["name"].lower()
        C = cls[en]
        for a in e["attrs"]:
            if a["kind"] != "E" or a["redecl"] or a["type"][0] != "N" or s.select_members(a["type"][1]) is None:
                continue
            dn = a["name"].lower()
            f = accn[(en, dn)]
            holds = sorted(x for x in s.can_be(a["type"][1], "td") if not s.Ent(next(y["name"] for y in s.entities if y["name"].lower() == x))["abstract"])
            for x in list(dict.fromkeys(holds[:3] + holds[-3:])):
                out.append(f'  {{ {C} * e = ( {C} * ) mk( "{en}" ); SDAI_Application_instance * r = mk( "{x}" ); if( e && r ) {{ r->STEPfile_id = 7; '
                           f'const TypeDescriptor * u = e->{f}()->AssignEntity( r ); std::string w; e->{f}()->STEPwrite( w ); '
                           f'selEntResult( "{en}.{dn}", "{x}", u != 0 && w.find( "#7" ) != std::string::npos, w ); }} }}')
    # the members behind the accessors are the values on the instance's attribute list: every explicit attribute of the instance,
    # own or inherited through any supertype, that nothing in the instance's ancestry redeclares
    for e in s.entities:
        if e["abstract"]:
            continue
        en = e["name"].lower()
        C = cls[en]
        closure = s.inherit_order(e["name"])
        redeclared = {a["name"].lower() for m in closure for a in s.Ent(m)["attrs"] if a["redecl"]}
        order = s.p21_order(e["name"])
        all_names = [a["name"].lower() for m in closure for a in s.Ent(m)["attrs"]]
        for o, x in order:
            if all_names.count(x) != 1:        # one accessor name, two attributes (the name is used in two lines): C++ name hiding
                continue
            a = next((a for a in s.Ent(next(m for m in closure if m.lower() == o))["attrs"]
                      if a["name"].lower() == x and a["kind"] == "E" and not a["redecl"]), None)
            if a is None or x in redeclared or (o, x) not in accn:
                continue
            bk = s.base_kind(a["type"])
            f = accn[(o, x)]
            if bk == "INTEGER":
                st, want = f"e->{f}( 7 );", "7"
            elif bk == "STRING":
                st, want = f'e->{f}( "ab" );', "ab"
            elif bk == "BOOLEAN":
                st, want = f"e->{f}( BTrue );", "T"
            else:
                continue
            out.append(f'  {{ {C} * e = ( {C} * ) mk( "{en}" ); if( e ) {{ {st} std::string got = listed( e, "{o}", "{x}" ); '
                       f'lstResult( "{en}", "{o}", "{x}", "{bk}", got == "{cq(want)}" || got == "\'{cq(want)}\'", got ); }} }}')
    out.append("}")
    return "\n".join(out) + "\n"


# ------------------------------------------------------------------ running one schema through both sides
def rule_lines(lines, spec):
    """` WR|UR <i> <hex>` lines -> normalised, printable rule text; ` TWR` lines are folded into the TYPE line (` wr=a|b`)"""
    out = []
    for l in lines:
        m = re.match(r" (WR|UR|TWR|DI|SS) (\S+) ([0-9a-f]*|NULL)$", l)
        if not m:
            out.append(l); continue
        try:
            t = bytes.fromhex(m.group(3)).decode("latin-1") if m.group(3) != "NULL" else "<null rule>"
        except ValueError:
            t = "<bad hex>"
        q = G.rule_quote(G.rule_norm(t, spec))
        if m.group(1) == "TWR":
            if out and out[-1].startswith("TYPE "):
                out[-1] += (" wr=" if " wr=" not in out[-1] else "|") + q
            else:
                out.append(l)
        else:
            out.append(f" {m.group(1)} {m.group(2)} {q}")
    return out


def canon_real(lines):
    """implementation dump -> (lines for the oracle, lines for the model comparison, flags, acc lines)"""
    o1, m1, a1 = canon_real0(rule_lines(lines, True))
    _, m2, _ = canon_real0(rule_lines(lines, False))
    return o1, m2, a1


def canon_real0(lines):
    orc, mdl, acc = [], [], []
    for l in lines:
        if l.startswith("ENTITY "):
            m = re.match(r"(ENTITY \S+)( raw=\S+)( abstract=\d super=\S*) sub=(\S*)$", l)
            if m:
                subs = ",".join(sorted(x for x in m.group(4).split(",") if x))
                orc.append(f"{m.group(1)}{m.group(3)} sub={subs}")
                mdl.append(f"{m.group(1)}{m.group(2)}{m.group(3)} sub={subs}")
                continue
        if l.startswith("TYPE "):
            orc.append(re.sub(r" raw=\S+", "", l)); mdl.append(l); continue
        if l.startswith("INST "):
            orc.append(re.sub(r"/([EDRI])[dr]*", r"/\1", l))      # the property speaks about order only
            mdl.append(l); continue                                  # the model also predicts _derive / _redefAttr
        if l.startswith(("ACC ", "LST ", "SELENT ")):
            acc.append(l); continue
        if l.startswith("SCHEMA "):
            mdl.append(l); continue
        orc.append(l); mdl.append(l)
    return orc, mdl, acc


class Result:
    pass


# ------------------------------------------------------------------ the registry API as an operation sequence
WALK = {"E": ("RE", "NE", "AE"), "T": ("RT", "NT", "AT"), "S": ("RS", "NS", "AS")}


def reg_script(s, rnd):
    """walks of the three tables interleaved with read-only queries, in fixed patterns and at random"""
    ents = [e["name"].lower() for e in s.entities]
    types = [t["name"].lower() for t in s.types]

    def q():
        c = rnd.random()
        if c < 0.3:
            return "CE"
        if c < 0.4:
            return "CF"
        if c < 0.6:
            return "FE:" + (rnd.choice(ents) if rnd.random() < 0.8 else "no_such_entity")
        if c < 0.75 and types:
            return "FT:" + (rnd.choice(types) if rnd.random() < 0.8 else "no_such_type")
        if c < 0.85:
            return "FS:" + (s.name.lower() if rnd.random() < 0.8 else "no_such_schema")
        return "OC:" + rnd.choice(ents)
    if not ents:
        return "CE RE AE RT CE AT RS CE AS RT NT CE AT".split()
    e0 = ents[0]
    ops = f"CE RE AE  RE CE AE  RE NE CE AE  RE NE NE CF FE:{e0} OC:{e0} AE  RT CE NT AT  RS CE AS  " \
          f"RE NE RT NT CE AT NE RS NS AS AE  RE AE NE CE RE AE".split()
    for k in range(len(ents) + 1):          # a query after exactly k steps of the entity walk
        ops += ["RE"] + ["NE"] * k + [q(), "AE"]
    allops = ["RE", "NE", "AE", "RT", "NT", "AT", "RS", "NS", "AS"]
    for _ in range(40):
        ops.append(q() if rnd.random() < 0.45 else rnd.choice(allops))
    ops += ["RE", q(), "AE", "RT", q(), "AT", "RS", q(), "AS"]
    return ops


def reg_oracle(s, ops, out):
    """every walk started by a Reset enumerates exactly the declarations; counts and look-ups agree with the schema"""
    want = {"E": sorted(e["name"].lower() for e in s.entities), "T": sorted(t["name"].lower() for t in s.types), "S": [s.name.lower()]}
    abstract = {e["name"].lower() for e in s.entities if e["abstract"]}
    col = {"E": None, "T": None, "S": None}
    if len(out) != len(ops):
        return f"registry script: {len(out)} answers for {len(ops)} operations ({out[-1] if out else ''!r})"
    for i, (op, r) in enumerate(zip(ops, out)):
        w = r.split()
        code = op[:2]
        for k, (rs, nx, al) in WALK.items():
            if code == rs:
                col[k] = []
            elif code in (nx, al) and col[k] is not None:
                if w[1] == "name":
                    col[k].append(w[2])
                else:
                    got = col[k] + (w[2:] if w[1] == "names" else [])
                    col[k] = None
                    if sorted(got) != want[k]:
                        ctxt = " ".join(ops[max(0, i - 8):i + 1])
                        return (f"a walk of the {dict(E='entity', T='type', S='schema')[k]} table started by Reset enumerated {got}, "
                                f"the schema declares {want[k]} (operations … {ctxt})")
        if code == "CE" and w[2] != str(len(want["E"])):
            return f"GetEntityCnt() = {w[2]}, the schema has {len(want['E'])} entities"
        if code in ("FE", "FT", "FS", "OC"):
            n = op[3:]
            exp = {"FE": n in want["E"], "FT": n in want["T"], "FS": n in want["S"], "OC": n in want["E"]}[code]   # ObjCreate does not look at abstractness
            if w[2] != ("1" if exp else "0"):
                return f"{op}: answered {w[2]}, expected {int(exp)}"
    return None


def run_one(b, model_exe, s, wd, text=None, script_seed=0, script_ops=None):
    """returns Result: status in {'invalid','gen-fail','compile-fail','run-fail','ok'} + dumps"""
    R = Result()
    R.schema, R.text, R.ast = s, (text or s.text()), s.ast()
    R.status, R.detail, R.real, R.model, R.names = "ok", "", [], [], []
    shutil.rmtree(wd, ignore_errors=True)
    os.makedirs(wd)
    exp = os.path.join(wd, "s.exp")
    open(exp, "w").write(R.text)
    r = subprocess.run([b.tool("check-express"), exp], cwd=wd, env=b.env(), capture_output=True, text=True)
    if r.returncode != 0:
        R.status, R.detail = "invalid", (r.stderr + r.stdout)[-400:]
        return R
    m = subprocess.run([model_exe], input=R.ast, capture_output=True, text=True)
    ml = m.stdout.split("\n")
    if m.returncode != 0 or "bad-op" in ml or "END" not in ml:
        R.status, R.detail = "model-fail", f"rc={m.returncode} {m.stdout[-300:]} {m.stderr[-300:]}"
        return R
    R.names = [l.split(" ") for l in ml if l.startswith(("CLASS ", "ACCN ", "ENUMC ", "TYPEC "))]
    R.model = rule_lines([l for l in ml if l and not l.startswith(("CLASS ", "ACCN ", "ENUMC ", "TYPEC ", "ORDER ", "END"))], False)
    gen = os.path.join(wd, "g")
    os.makedirs(gen)
    try:
        open(os.path.join(gen, "c02_acc.inc"), "w").write(acc_inc(s, R.names))
        exe = B.gen_schema_lib(b, exp, gen, [HARNESS], os.path.join(wd, "h_dict"), extra=["-DC02_ACC"])
    except B.BuildError as e:
        msg = str(e)
        R.status = "gen-fail" if msg.startswith("exp2cxx failed") else "compile-fail"
        errs = [l for l in msg.split("\n") if "error" in l]
        R.detail = "\n".join(errs[:6]) or msg[-600:]
        return R
    # descriptor variable numbering as emitted
    idx = {}
    for h in glob.glob(os.path.join(gen, "entity", "*.h")):
        for mm in re.finditer(r"extern (?:AttrDescriptor|Derived_attribute|Inverse_attribute) \*a_(\d+)(\w+);", open(h).read()):
            idx.setdefault(int(mm.group(1)), []).append(mm.group(2))
    R.idx = idx
    rr = subprocess.run([exe], env=b.env(), capture_output=True, text=True, timeout=120)
    R.real = [l for l in rr.stdout.split("\n") if l]
    R.real_acc = [l for l in R.real if l.startswith(("ACC ", "LST ", "SELENT "))]
    if rr.returncode != 0 or not R.real or R.real[-1] != "END":
        R.status, R.detail = "run-fail", f"harness rc={rr.returncode}; last line {R.real[-1] if R.real else ''!r}; {rr.stderr[-300:]}"
    else:
        R.real = R.real[:-1]
    # the registry API as an operation sequence
    import random
    R.script = script_ops or reg_script(s, random.Random(script_seed))
    sp = os.path.join(wd, "script.txt")
    open(sp, "w").write(" ".join(R.script) + "\n")
    try:
        rs = subprocess.run([exe, sp], env=b.env(), capture_output=True, text=True, timeout=120)
        lines = [l for l in rs.stdout.split("\n") if l]
        R.reg_rc = rs.returncode
    except subprocess.TimeoutExpired:
        lines, R.reg_rc = [], "timeout"
    R.reg_ref = {l.split()[1]: l.split()[2:] for l in lines if l.startswith("REF ")}
    R.reg_real = [l for l in lines if l.startswith("R ")]
    if R.reg_ref:
        feed = "".join(f"reg {k} " + " ".join(R.reg_ref.get(k, [])) + "\n" for k in "ETS")
        feed += "reg A " + " ".join(e["name"].lower() for e in s.entities if e["abstract"]) + "\n"
        feed += "reg run " + " ".join(R.script) + "\n"
        mm = subprocess.run([model_exe], input=feed, capture_output=True, text=True)
        R.reg_model = [l for l in mm.stdout.split("\n") if l.startswith("R ")]
    else:
        R.reg_model = []
    return R


def classify_type(s, n):
    t = s.T(n)
    b = t["body"]
    if b[0] != "alias":
        return b[0]
    tr = b[1]
    if tr[0] == "N":
        k = s.resolve(tr[1])["body"][0]
        return {"enum": "renamed-enum", "select": "renamed-select"}.get(k, "renamed")
    if tr[0] == "A":
        el = tr[6]
        x = tr
        while x[0] == "A":
            if (x[2] is not None and x[2] < 0) or (isinstance(x[3], int) and x[3] < 0):
                return "aggregate-negative-bound"
            x = x[6]
        if el[0] == "A":
            return "multidim-aggregate"
        if el[0] == "N":
            k = s.base_kind(el)
            if k in ("ENUM", "SELECT"):
                return "aggregate-of-" + k.lower()
        return "aggregate"
    return "simple"


COMPANION_SUFFIXES = ["_var", "_agg", "_agg_var", "_ptr", "_ptr_c", "_var_agg", "_agg_ptr", "_agg_ptr_c", "_var_ptr", "_var_ptr_c",
                      "_var_agg_ptr", "_var_agg_ptr_c", "__set", "__set_var"]


def companion_collision(s):
    """a declaration named x<suffix> next to a declaration x, for a suffix exp2cxx appends to Sdai<X> for companion
    classes / typedefs / macros (C02_mangle_collision_iff_enum, …_select_agg): the generated names coincide"""
    names = {e["name"].lower() for e in s.entities} | {t["name"].lower() for t in s.types}
    return sorted((n, n + suf) for n in names for suf in COMPANION_SUFFIXES if n + suf in names)


def oracle_raw(R):
    """C02's statement on the implementation's dump.  Returns list of (key, what, decl) — decl = ('type'|'entity', name)."""
    s = R.schema
    if R.status == "gen-fail" and re.search(r"characters long; \S*exp2cxx supports at most \d+", R.detail):
        return []      # exp2cxx's documented identifier-length limit, refused with a diagnostic: outside its supported subset
    if R.status == "gen-fail" and re.search(r"get the same C\+\+ class and file name \(Sdai<\w+>\w+ is generated for", R.detail):
        return []      # refused with a diagnostic (fix C02-13): a declaration named like a companion class of another one
    if R.status == "gen-fail" and re.search(r"schema name \S+ is a C\+\+ keyword; \S*exp2cxx uses the schema name as a namespace name", R.detail):
        return []      # refused with a diagnostic (fix C02-12): a schema named like a C++ keyword cannot become a namespace
    if R.status == "gen-fail":
        return [("generator-fails", "exp2cxx fails on a schema check-express accepts: " + R.detail[-300:], None)]
    if R.status == "compile-fail":
        first = re.sub(r"^.*?error: ", "", R.detail.split("\n")[0])
        texts = [w["expr"] for x in s.types + s.entities for w in x.get("wheres", [])] + \
                [a.get("init", "") for e in s.entities for a in e["attrs"] if a["kind"] == "D"]
        if any('"' in t for t in texts) and re.search(r"missing terminating|string literal operator|stray .\\. in program", R.detail):
            # EXPRESS text with a double quote copied into a C++ string literal (class decided from the input; the symptom only
            # tells it from the other compile failures such a schema may have)
            sig = "double-quote-in-express-text"
        elif R.schema.name.lower() in CXX_KEYWORDS | C_LIBRARY_NAMES:
            sig = "expected_(_before_::_token"              # finding F2: schema name used verbatim as a namespace
        elif re.search(r"Sdai\w+_var\w*\W+does not name a type|no declaration matches .const Sdai\w+_var\w*\W", R.detail):
            sig = "enum-class-used-before-its-typedef"        # names vary with the schema: classify
        elif re.search(r"type/Sdai\w+\.cc:.*has no member named .\w+_\W", R.detail.split("\n")[0]):
            sig = "select-calls-missing-accessor"          # names vary with the schema: classify
        else:
            sig = re.sub(r"[^A-Za-z0-9_:<>*()-]+", "_", first.replace("\u2018", "").replace("\u2019", ""))[:80]
        return [("compile:" + sig, "emitted code does not compile: " + R.detail[:500], ("shrink", None))]
    orc, _, acc = canon_real(R.real)
    probs = []
    spec = s.spec_lines()
    got_t = {l.split(" ")[1]: l for l in orc if l.startswith("TYPE ")}
    for l in spec:
        if l.startswith("TYPE "):
            n = l.split(" ")[1]
            if got_t.get(n) != l:
                decl = next(t["name"] for t in s.types if t["name"].lower() == n)
                probs.append(("mirror:type:" + classify_type(s, decl),
                              f"defined type {n}: dictionary has {got_t.get(n, 'no such type')!r}, schema requires {l!r}", ("type", decl)))
    for n in got_t:
        if not any(l.startswith(f"TYPE {n} ") for l in spec):
            probs.append(("mirror:type:extra", f"dictionary has a type the schema does not declare: {got_t[n]!r}", None))
    # which entities a select type can hold (CanBe by descriptor, by name, CanBeSet): the closure of select membership
    got_c = {l.split(" ")[1]: l for l in orc if l.startswith("CANBE ")}
    for l in s.canbe_lines():
        n = l.split(" ")[1]
        if got_c.get(n) != l:
            decl = next(t["name"] for t in s.types if t["name"].lower() == n)
            probs.append(("select:can-be", f"select type {n}: the dictionary answers {got_c.get(n, 'nothing')!r}, the schema requires {l!r} "
                          "(td: member entities and their subtypes through member selects of any depth; name: member entities; "
                          "set: not through renamed selects)", ("type", decl)))
    # entities with their attribute lines, as blocks
    def blocks(lines):
        d, cur = {}, None
        for l in lines:
            if l.startswith("ENTITY "):
                cur = l.split(" ")[1]; d[cur] = [l]
            elif l.startswith((" ATTR", " INV", " UR ", " WR ", " DI ", " SS ")) and cur:
                d[cur].append(l)
            else:
                cur = None
        return d
    gb, sb = blocks(orc), blocks(spec)
    for n, bl in sb.items():
        if gb.get(n) != bl:
            decl = next(e["name"] for e in s.entities if e["name"].lower() == n)
            g = gb.get(n, ["no such entity"])
            diff = next(((x, y) for x, y in zip(g + [None] * len(bl), bl) if x != y), (g[-1], None))
            cls = "entity"
            if diff[1] and diff[1].startswith(" ATTR") and diff[0] and "type=NULL" in diff[0]:
                cls = "attr-type-null"
            if [x for x in g if not x.startswith((" UR ", " WR ", " DI ", " SS "))] == [x for x in bl if not x.startswith((" UR ", " WR ", " DI ", " SS "))]:
                cls = "entity-rules"
            probs.append((f"mirror:{cls}", f"entity {n}: dictionary has {diff[0]!r}, schema requires {diff[1]!r}", ("entity", decl)))
    for n in gb:
        if n not in sb:
            probs.append(("mirror:entity:extra", f"dictionary has an entity the schema does not declare: {n}", None))
    if R.status == "run-fail":
        probs.append(("instance-crash", "creating an instance through Registry::ObjCreate or using its accessors crashes: " + R.detail, None))
    # instances: Part 21 order
    gi = {l.split(" ")[1]: l for l in orc if l.startswith("INST ")}
    for e in s.entities:
        n = e["name"].lower()
        if e["abstract"]:
            continue
        l = gi.get(n)
        if l is None:
            if R.status != "run-fail":
                probs.append(("instance-missing", f"no instance of {n} could be created", ("entity", e["name"])))
            continue
        items = l.split(" : ")[1].split() if " : " in l else []
        if " :" in l and l.endswith(" :"):
            items = []
        got = []
        for it in items:
            m = re.match(r"([^.]+)\.(.+)/([EDR])$", it)
            if m and m.group(3) != "R":
                got.append((m.group(1), m.group(2)))
        # a position is written `*` (flag d) only when a DERIVE clause of the instance's inheritance closure redeclares it
        # (ISO 10303-21 11.2.6) — the raw INST line still has the flags
        raw = next((x for x in R.real if x.startswith(f"INST {n} ")), "")
        closure = s.inherit_order(e["name"])
        for it in (raw.split(" : ")[1].split() if " : " in raw and not raw.endswith(" :") else []):
            m = re.match(r"([^.]+)\.(.+)/([EDR])([dr]*)$", it)
            if m and "r" in m.group(4) and m.group(3) == "E":
                # wired to a redefining attribute only when an explicit redeclaration SELF\sup.x means THIS attribute
                meant = any(a["kind"] == "E" and a["redecl"] and a["name"].lower() == m.group(2)
                            and m.group(1) in [d.lower() for d in s.declarers(a["redecl"], a["name"])]
                            for mm in closure for a in s.Ent(mm)["attrs"])
                if not meant:
                    probs.append(("flags:redefined-wired-to-wrong-supertype",
                                  f"fresh instance of {n}: attribute {m.group(1)}.{m.group(2)} is wired to a redefining attribute although no "
                                  f"explicit redeclaration in {closure} redeclares the {m.group(2)} of {m.group(1)}", ("entity", e["name"])))
                    break
            if m and m.group(3) == "E":
                derived_somewhere = any(a["kind"] == "D" and a["redecl"] and a["name"].lower() == m.group(2)
                                        and m.group(1) in [d.lower() for d in s.declarers(a["redecl"], a["name"])]
                                        for mm in closure for a in s.Ent(mm)["attrs"])
                if derived_somewhere and "d" not in m.group(4):
                    probs.append(("flags:derived-redeclaration-not-marked",
                                  f"fresh instance of {n}: attribute {m.group(1)}.{m.group(2)} is not flagged derived (its position is read and "
                                  f"written as a value, `*` is refused) although a DERIVE clause in {closure} redeclares it", ("entity", e["name"])))
                    break
                if "d" in m.group(4) and not derived_somewhere:
                    probs.append(("flags:explicit-redeclaration-marked-derived",
                                  f"fresh instance of {n}: attribute {m.group(1)}.{m.group(2)} is flagged derived (written `*`) although no DERIVE "
                                  f"clause in {closure} redeclares it", ("entity", e["name"])))
                    break
        want = s.p21_order(e["name"])
        if got != want:
            cls = "duplicate" if len(set(got)) != len(got) else ("missing" if set(got) < set(want) else "order")
            probs.append((f"p21-order:{cls}", f"fresh instance of {n} exposes {got}, Part 21 order is {want}", ("entity", e["name"])))
    for l in acc:
        if l.startswith("SELENT "):
            w = l.split(" ")
            if w[3] != "ok":
                probs.append(("select:entity-member-refused", f"attribute {w[1]} of a select type refuses an instance of {w[2]}, which the "
                              f"select can hold through its member selects (AssignEntity / written value: {' '.join(w[4:])})", None))
            continue
        if l.startswith("LST "):
            w = l.split(" ")
            if w[4] != "ok":
                en, (o, x) = w[1], w[2].split(".", 1)
                ent0 = next(e for e in s.entities if e["name"].lower() == en)
                line, cur = [], ent0
                while cur is not None:      # the principal line: the entity, its first supertype, that one's first supertype ...
                    line.append(cur["name"].lower())
                    cur = s.Ent(cur["supers"][0]) if cur["supers"] else None
                if o not in line:
                    probs.append(("accessor:non-principal-supertype-attribute-disconnected",
                                  f"instance of {en}: the value stored through the generated mutator of {o}.{x} (inherited through a non-first "
                                  f"supertype) is not the value on the instance's attribute list ({' '.join(w[5:])}): it is not written to a file", None))
                else:
                    probs.append(("accessor:member-not-on-instance", f"instance of {en}: the value stored through the generated mutator of "
                                  f"{o}.{x} is not the value on the instance's attribute list: {l}", ("entity", ent0["name"])))
            continue
        if not l.endswith(" ok") and " ok " not in l:
            if " ENTITY-NULL " in l:
                probs.append(("accessor:entity-null-materialised", "after storing a NULL entity reference through the mutator the non-const "
                              f"accessor returns (and stores) a newly allocated instance instead of null: {l}", None))
            else:
                probs.append(("accessor", f"accessor does not read back what the mutator stored: {l}", None))
    if getattr(R, "script", None) is not None and R.status == "ok":
        e = reg_oracle(s, R.script, [l for l in R.reg_real])
        if e:
            probs.append(("registry-walk", e, ("script", None)))
    # numbering: a_<idx> distinct and dense
    if getattr(R, "idx", None) is not None:
        n_attr = sum(len(e["attrs"]) for e in s.entities)
        dup = [i for i, v in R.idx.items() if len(v) > 1]
        if dup or sorted(R.idx) != list(range(n_attr)):
            probs.append(("numbering", f"descriptor variable numbers {sorted(R.idx)} are not a bijection onto 0..{n_attr - 1} (duplicates {dup})", None))
    return probs


def oracle(R):
    """`oracle_raw`, with everything that goes wrong in a schema containing a companion-name collision (x next to x_var, x_agg,
    x_ptr …: same generated class AND file name, the second file silently overwrites the first) reported as that one finding"""
    probs = oracle_raw(R)
    col = companion_collision(R.schema)
    if probs and col:
        return [("names:companion-collision", f"declarations {col} generate the same C++ class / file name: " + probs[0][1], None)]
    return probs


KIND_OF_BASE = {"INTEGER": "integer", "REAL": "real", "NUMBER": "real", "STRING": "strBin", "BINARY": "strBin", "BOOLEAN": "logBool",
                "LOGICAL": "logBool", "ENUM": "enumeration", "SELECT": "select", "ENTITY": "entity", "AGGR": "aggregate"}


def accessor_kinds(R):
    """the accessor template the model assigns to every attribute (`accKindOf`) against the kind whose generated test the real
    class compiles and passes (the tests of acc_inc are written per base kind of the attribute's type)"""
    s = R.schema
    model = {(x[1], x[2]): x[5] for x in R.names if x[0] == "ACCN" and len(x) > 5}
    for e in s.entities:
        en = e["name"].lower()
        for a in e["attrs"]:
            dn = (a["redecl"].lower() + "." if a["redecl"] else "") + a["name"].lower()
            if a["kind"] == "D":
                want = "-"
            elif a["kind"] == "I":
                want = "inverseAggr" if a["type"][0] == "A" else "inverseEntity"
            else:
                want = KIND_OF_BASE[s.base_kind(a["type"])]
            got = model.get((en, dn))
            if got != want:
                return f"accessor template of {en}.{dn}: model says {got!r}, the class exp2cxx emits is exercised as {want!r}"
    return None


def correspondence(R):
    if R.status != "ok":
        return None
    k = accessor_kinds(R)
    if k:
        return k
    _, mdl, _ = canon_real(R.real)
    if mdl == R.model:
        if getattr(R, "script", None) is not None and R.reg_real != R.reg_model:
            for i, (x, y) in enumerate(zip(R.reg_real + [None] * len(R.reg_model), R.reg_model + [None] * len(R.reg_real))):
                if x != y:
                    return f"registry script op #{i} {R.script[i] if i < len(R.script) else ''}: implementation {x!r} vs model {y!r}"
        return None
    for i, (x, y) in enumerate(zip(mdl + [None] * len(R.model), R.model + [None] * len(mdl))):
        if x != y:
            return f"line {i}: implementation {x!r} vs model {y!r}"
    return "length differs"


def scramble_case(text, rng):
    out, lit = [], False
    for c in text:
        if c == "'":
            lit = not lit
        out.append((c.upper() if rng.random() < 0.5 else c.lower()) if c.isalpha() and not lit else c)
    return "".join(out)


# ------------------------------------------------------------------ corpus (hand-written shapes, run first)
def corpus_schemas():
    out = []
    if os.path.isdir(CORPUS):
        for f in sorted(os.listdir(CORPUS)):
            if f.endswith(".json"):
                out.append((f[:-5], schema_from_json(json.load(open(os.path.join(CORPUS, f))))))
    return out


def size_shapes(thorough):
    """every size is a dimension: identifier length on both sides of exp2cxx's documented limit (200), many items / attributes /
    supertypes / select members, deep inheritance, deep aggregate nesting"""
    I = ("B", "INTEGER")

    def A(name, t=I):
        return dict(name=name, redecl=None, kind="E", opt=False, type=t, inv=None)
    out = []
    for L in (199, 200, 201):
        s = G.Schema("len%d" % L)
        en, tn, an, it = "e" + "x" * (L - 1), "t" + "y" * (L - 1), "a" + "z" * (L - 1), "i" + "w" * (L - 1)
        s.types = [dict(name=tn, body=("enum", [it, "other"])), dict(name="r" + "q" * (L - 1), body=("alias", ("N", tn)))]
        s.entities = [dict(name=en, abstract=False, supers=[], attrs=[A(an), A("b", ("N", tn))])]
        out.append((f"idlen{L}", s))
    n_items, n_attrs, n_sup, n_inh, n_nest, n_sel = (1500, 300, 12, 60, 8, 40) if thorough else (300, 100, 12, 30, 8, 40)
    s = G.Schema("en"); s.types = [dict(name="big", body=("enum", ["item_%04d" % i for i in range(n_items)])),
                                   dict(name="one", body=("enum", ["only"]))]
    s.entities = [dict(name="e", abstract=False, supers=[], attrs=[A("x", ("N", "big")), A("y", ("N", "one"))])]
    out.append((f"enum{n_items}", s))
    s = G.Schema("manyattr"); s.entities = [dict(name="e", abstract=False, supers=[], attrs=[A("a%d" % i) for i in range(n_attrs)]),
                                            dict(name="none", abstract=False, supers=[], attrs=[])]
    out.append((f"attrs{n_attrs}", s))
    s = G.Schema("manysup")
    s.entities = [dict(name="s%d" % i, abstract=False, supers=[], attrs=[A("x%d" % i)]) for i in range(n_sup)] + \
                 [dict(name="sub", abstract=False, supers=["s%d" % i for i in range(n_sup)], attrs=[A("own")])]
    out.append((f"supers{n_sup}", s))
    s = G.Schema("deepinh")
    s.entities = [dict(name="d%d" % i, abstract=False, supers=(["d%d" % (i - 1)] if i else []), attrs=[A("y%d" % i)]) for i in range(n_inh)]
    out.append((f"inherit{n_inh}", s))
    t = I
    for _ in range(n_nest):
        t = ("A", "LIST", 0, "?", False, False, t)
    s = G.Schema("nest"); s.types = [dict(name="nn", body=("alias", t))]
    s.entities = [dict(name="e", abstract=False, supers=[], attrs=[A("x", t), A("y", ("N", "nn"))])]
    out.append((f"nest{n_nest}", s))
    s = G.Schema("selbig")
    s.entities = [dict(name="m%d" % i, abstract=False, supers=[], attrs=[A("z%d" % i)]) for i in range(n_sel)]
    s.types = [dict(name="sel", body=("select", [("E", "m%d" % i) for i in range(n_sel)]))]
    s.entities.append(dict(name="h", abstract=False, supers=[], attrs=[A("w", ("N", "sel"))]))
    out.append((f"select{n_sel}", s))
    return out


def permuted_shapes():
    """enumeration, rename, rename of the rename, an entity with attributes of the renamed types and a SELECT over that entity
    (the order in which SCOPEPrint meets the three enumeration names and the select decides what is printed first)"""
    import itertools
    out = []
    for i, (a, b2, c) in enumerate(itertools.permutations(["status", "state", "condition"])):
        for sel in ("anything", "zz_pick"):
            s = G.Schema("perm")
            s.types = [dict(name=a, body=("enum", ["draft", "released", "withdrawn"])), dict(name=b2, body=("alias", ("N", a))),
                       dict(name=c, body=("alias", ("N", b2))), dict(name=sel, body=("select", [("E", "thing")])),
                       dict(name="lst", body=("alias", ("A", "LIST", 1, "?", False, False, ("N", c))))]
            s.entities = [dict(name="thing", abstract=False, supers=[], attrs=[
                              dict(name="cond", redecl=None, kind="E", opt=False, type=("N", c), inv=None),
                              dict(name="st", redecl=None, kind="E", opt=True, type=("N", b2), inv=None)]),
                          dict(name="holder", abstract=False, supers=[], attrs=[
                              dict(name="what", redecl=None, kind="E", opt=False, type=("N", sel), inv=None),
                              dict(name="many", redecl=None, kind="E", opt=False, type=("N", "lst"), inv=None)])]
            s.tags = {"renamed_enum", "rename_chain_enum_2", "renamed_select"}
            out.append((f"perm{i}-{sel}", s))
    return out


def tup(x):
    return tuple(tup(y) for y in x) if isinstance(x, list) else x


def untup(x):
    return [untup(y) for y in x] if isinstance(x, (list, tuple)) else x


def schema_json(s):
    return dict(name=s.name, types=[dict(name=t["name"], body=untup(t["body"]), **({"wheres": t["wheres"]} if t.get("wheres") else {}))
                                    for t in s.types],
                entities=[dict(name=e["name"], abstract=e["abstract"], supers=e["supers"],
                               attrs=[{k: untup(v) for k, v in a.items()} for a in e["attrs"]],
                               **{k: e[k] for k in ("uniques", "wheres", "superexpr") if e.get(k)}) for e in s.entities])


def schema_from_json(d):
    """corpus files and replay files (rules: wheres=[{label, expr, uses}], uniques=[{label, attrs, uses}])"""
    def rules(l, key):
        return [dict(label=w.get("label"), uses=w.get("uses", []), **{key: w[key]}) for w in l]
    s = G.Schema(d["name"])
    s.types = [dict(name=t["name"], body=tup(t["body"]), **({"wheres": rules(t["wheres"], "expr")} if t.get("wheres") else {}))
               for t in d.get("types", [])]
    s.entities = []
    for e in d.get("entities", []):
        x = dict(name=e["name"], abstract=e.get("abstract", False), supers=e.get("supers", []),
                 attrs=[dict(name=a["name"], redecl=a.get("redecl"), kind=a.get("kind", "E"), opt=a.get("opt", False),
                             type=tup(a["type"]), inv=a.get("inv"), init=a.get("init", "1")) for a in e.get("attrs", [])])
        if e.get("uniques"):
            x["uniques"] = rules(e["uniques"], "attrs")
        if e.get("wheres"):
            x["wheres"] = rules(e["wheres"], "expr")
        if e.get("superexpr"):
            x["superexpr"] = e["superexpr"]
        s.entities.append(x)
    return s


# ------------------------------------------------------------------ evaluation
def report(ctx, b, model_exe, R, label):
    probs = oracle(R)
    if probs:
        seen = set()
        for key, what, decl in probs:
            if key in seen:
                continue
            seen.add(key)
            s2, R2 = R.schema, R
            if F.lookup(ctx.pid, key) or key in [k for k, _, _ in ctx.violations]:
                decl = None            # a listed finding / already reported in this run: no need to minimise it again
            if decl and decl[0] == "script":
                decl = None
            if decl and decl[0] == "shrink":
                s2, R2 = shrink_schema(ctx, b, model_exe, R.schema, key)
                if R2 is None:
                    s2, R2 = R.schema, R
                else:
                    what = next(w for k, w, _ in oracle(R2) if k == key)
            elif decl:   # minimise: the declaration with what it mentions
                cand = R.schema.decl_closure(*decl)
                if len(cand.types) + len(cand.entities) < len(R.schema.types) + len(R.schema.entities):
                    for e in cand.entities:
                        e["attrs"] = [a for a in e["attrs"] if a["kind"] != "I" or any(x["name"] == a["type"][-1][1] if a["type"][0] == "A" else x["name"] == a["type"][1] for x in cand.entities)]
                    Rc = run_one(b, model_exe, cand, os.path.join(ctx.work, "shrink"))
                    if any(k == key for k, _, _ in oracle(Rc)):
                        s2, R2 = cand, Rc
                        what = next(w for k, w, _ in oracle(Rc) if k == key)
            ctx.violation(key, what, {"schema_exp": R2.text, "schema_json": schema_json(s2), "stream": label,
                                      "implementation_dump": R2.real[:200], "detail": R2.detail,
                                      "registry_script": " ".join(getattr(R2, "script", None) or []),
                                      "registry_answers": getattr(R2, "reg_real", [])[:400],
                                      "how": "./check C02 --replay <this file>  (exp2cxx on schema_exp, compile with harness/h_dict.cc, run)"})
        return "property"
    c = correspondence(R)
    if c:
        ctx.broken.append(("correspondence GenCxx model vs exp2cxx + clstepcore dictionary",
                           f"{c}; schema ({label}):\n{R.text[:1500]} (the oracle finds the property intact on it)"))
        return "correspondence"
    if R.status == "model-fail":
        ctx.broken.append(("model driver m_c02", R.detail))
        return "correspondence"
    return None


def without(s, kind, name):
    """schema without one declaration (and without everything that mentions it), or without one attribute"""
    import copy
    t = G.Schema(s.name)
    t.types, t.entities = copy.deepcopy(s.types), copy.deepcopy(s.entities)
    if kind == "rules":          # one declaration without its WHERE / UNIQUE rules
        for x in t.types + t.entities:
            if x["name"] == name:
                x.pop("wheres", None); x.pop("uniques", None)
        return t
    if kind == "superexpr":      # without the supertype constraint of one entity
        for x in t.entities:
            if x["name"] == name:
                x.pop("superexpr", None)
        return t
    if kind == "rule":           # without one rule
        n, k, i = name
        for x in t.types + t.entities:
            if x["name"] == n and i < len(x.get(k, [])):
                x[k] = x[k][:i] + x[k][i + 1:]
        return t
    if kind == "attr":
        en, an = name
        e = t.Ent(en)
        e["attrs"] = [a for a in e["attrs"] if a["name"] != an]
        for x in t.entities:     # rules that mention the attribute go too
            for k in ("uniques", "wheres"):
                if x.get(k):
                    x[k] = [w for w in x[k] if an not in w.get("uses", [])]
        prune_rules(t)
        # redeclarations / inverse partners of the removed attribute go too
        for x in t.entities:
            x["attrs"] = [a for a in x["attrs"] if not (a["name"] == an and a["redecl"]) and not (a.get("inv") == an and a["kind"] == "I")]
        return t
    dead_t, dead_e = set(), set()
    (dead_t if kind == "type" else dead_e).add(name)

    def mentions(tr):
        if tr[0] == "N":
            return tr[1] in dead_t
        if tr[0] == "E":
            return tr[1] in dead_e
        if tr[0] == "A":
            return mentions(tr[6])
        return False
    changed = True
    while changed:
        changed = False
        for x in t.types:
            if x["name"] in dead_t:
                continue
            b = x["body"]
            if b[0] == "alias" and mentions(b[1]):
                dead_t.add(x["name"]); changed = True
            elif b[0] == "select":
                ms = [m for m in b[1] if not mentions(m)]
                if not ms:
                    dead_t.add(x["name"]); changed = True
                elif len(ms) != len(b[1]):
                    x["body"] = ("select", ms); changed = True
        for e in t.entities:
            if e["name"] in dead_e:
                continue
            if any(sup in dead_e for sup in e["supers"]):
                dead_e.add(e["name"]); changed = True
                continue
            keep = [a for a in e["attrs"] if not mentions(a["type"]) and not (a["redecl"] and a["redecl"] in dead_e)]
            if len(keep) != len(e["attrs"]):
                e["attrs"] = keep; changed = True
    t.types = [x for x in t.types if x["name"] not in dead_t]
    t.entities = [e for e in t.entities if e["name"] not in dead_e]
    return prune_rules(t)


def prune_rules(t):
    """rules that mention an attribute which is no longer there go; so does a supertype constraint that names a subtype that left"""
    for e in t.entities:
        if e.get("superexpr"):
            subs = {x["name"] for x in t.entities if e["name"] in x["supers"]}
            toks = set(re.findall(r"[A-Za-z_][A-Za-z0-9_]*", e["superexpr"])) - {"ONEOF", "AND", "ANDOR"}
            if not toks <= subs:
                e.pop("superexpr")
    for e in t.entities:
        have = {a["name"] for m in G.Gen._anc(t, [e["name"]]) for a in t.Ent(m)["attrs"]}
        for k in ("uniques", "wheres"):
            if e.get(k):
                e[k] = [w for w in e[k] if all(u in have for u in w.get("uses", []))]
    return t


def size_of(t):
    return (len(t.entities), len(t.types), sum(len(e["attrs"]) for e in t.entities),
            sum(len(x.get("wheres", [])) + len(x.get("uniques", [])) + (1 if x.get("superexpr") else 0) for x in t.types + t.entities))


def shrink_schema(ctx, b, model_exe, s, key, rounds=12):
    """greedy one-at-a-time removal (declarations, then attributes) while the oracle still reports `key`"""
    best, bestR = s, None
    for rnd in range(rounds):
        cands = [("entity", e["name"]) for e in best.entities] + [("type", t["name"]) for t in best.types]
        cands += [("attr", (e["name"], a["name"])) for e in best.entities for a in e["attrs"] if not a["redecl"]]
        cands += [("rules", x["name"]) for x in best.types + best.entities if x.get("wheres") or x.get("uniques")]
        cands += [("superexpr", x["name"]) for x in best.entities if x.get("superexpr")]
        n_rules = size_of(best)[3]
        if n_rules <= 12:
            cands += [("rule", (x["name"], k, i)) for x in best.types + best.entities for k in ("wheres", "uniques")
                      for i in range(len(x.get(k, [])))]
        trial = []
        for c in cands:
            t = without(best, *c)
            if t.entities and size_of(t) < size_of(best) or (t.entities and len(t.types) < len(best.types)):
                trial.append(t)
        if not trial:
            break
        with cf.ThreadPoolExecutor(max_workers=14) as ex:
            rs = list(ex.map(lambda it: run_one(b, model_exe, it[1], os.path.join(ctx.work, f"shr-{rnd}-{it[0]}")), enumerate(trial)))
        ok = [(t, r) for t, r in zip(trial, rs) if r.status != "invalid" and any(k == key for k, _, _ in oracle(r))]
        for i in range(len(trial)):
            shutil.rmtree(os.path.join(ctx.work, f"shr-{rnd}-{i}"), ignore_errors=True)
        if not ok:
            break
        best, bestR = min(ok, key=lambda p: (len(p[0].entities) + len(p[0].types), sum(len(e["attrs"]) for e in p[0].entities), size_of(p[0])[3]))
    return best, bestR


def run_batch(ctx, b, model_exe, items, label):
    """items: list of (name, schema, text or None).  Parallel build+run; returns number of problems."""
    with cf.ThreadPoolExecutor(max_workers=min(14, (os.cpu_count() or 8))) as ex:
        return collect_batch(ctx, b, model_exe, submit_batch(ctx, ex, b, model_exe, items, label))


def submit_batch(ctx, ex, b, model_exe, items, label):
    """start build+run of every item on the executor (several batches may share one: no waiting for each batch's slowest item)"""
    seeds = [ctx.rng.randrange(1 << 30) for _ in items]
    futs = [ex.submit(run_one, b, model_exe, s, os.path.join(ctx.work, f"{label}-{i}"), text, seeds[i])
            for i, (nm, s, text) in enumerate(items)]
    return items, label, futs, time.time()


def collect_batch(ctx, b, model_exe, pending):
    items, label, futs, t0 = pending
    res = {i: f.result() for i, f in enumerate(futs)}
    nprob, stat = 0, {}
    for i, (nm, s, text) in enumerate(items):
        R = res[i]
        stat[R.status] = stat.get(R.status, 0) + 1
        if R.status == "invalid":
            ctx.hist("schemas", "rejected-by-check-express")
            continue
        ctx.count(1, key=R.text)
        for tg in sorted(s.tags) or ["plain"]:
            ctx.hist("schema features", tg)
        for e in s.entities:
            ctx.hist("supertypes per entity", str(len(e["supers"])))
            for a in e["attrs"]:
                ctx.hist("attribute kinds", a["kind"] + ("-redeclared" if a["redecl"] else "") + ":" + s.base_kind(a["type"]))
        for t in s.types:
            ctx.hist("type shapes", classify_type(s, t["name"]))
        for l in R.real_acc if hasattr(R, "real_acc") else []:
            w = l.split()
            if len(w) >= 4:
                ctx.hist("accessor round trips", w[2] + ":" + w[3])
        if report(ctx, b, model_exe, R, f"{label}/{nm}"):
            nprob += 1
        shutil.rmtree(os.path.join(ctx.work, f"{label}-{i}"), ignore_errors=True)
    ctx.cov["correspondence"][label] = {"schemas": len(items), "status": stat, "problems": nprob, "wall_s": round(time.time() - t0, 1)}
    return nprob


def setup(ctx):
    ctx.trusted += [
        "tools/extract.d/dictgen.py (pattern extraction of the push duplicate test, LITERAL_INFINITY, prefixes, constructor step order)",
        "hand-written model lean/StepModel/GenCxx.lean of exp2cxx's emission rules and clstepcore's registry (modelled, tied by correspondence); "
        "bodies of emitted C++ methods are not modelled",
        "harness/h_dict.cc, vlib/schema_gen_c02.py (generator and the Python rendering of Spec.Mirror / Part 21 order used as oracle), "
        "lean/Drivers/C02.lean (rendering of abstract identifiers to strings)",
        "g++ accepting the emitted code and accessor bodies are observed, not proved",
    ]
    ctx.assumptions += [
        "identifiers reach the generators lower-cased by the EXPRESS scanner (checked: raw dictionary names are compared)",
        "symbol-table iteration order is a parameter of the model (theorems quantify over it; dumps are compared sorted)",
        "single-schema inputs; aggregate bounds are integer literals or `?`; no USE/REFERENCE; the text of a rule's expression is compared "
        "up to layout (white space, parentheses): the expression printer is C07's subject",
    ]
    ok = ctx.lean("StepModel.Props.C02", exes=["m_c02"], extractors=["dictgen", "accessors", "rulegen", "registry"])
    b = ctx.build("plain")
    return ok, b, ctx.model_exe("m_c02")


def run(ctx):
    proof_ok, b, model_exe = setup(ctx)
    if not os.path.exists(model_exe):
        # the model does not build: still run the oracle on the implementation with a stub model
        stub = os.path.join(ctx.work, "stub_model")
        open(stub, "w").write("#!/bin/sh\ncat >/dev/null\necho END\n")
        os.chmod(stub, 0o755)
        model_exe = stub
    quick = ctx.tier == "quick"
    items = [(nm, s, None) for nm, s in corpus_schemas()]
    pool = cf.ThreadPoolExecutor(max_workers=min(16, (os.cpu_count() or 8)))
    p_corpus = submit_batch(ctx, pool, b, model_exe, items, "corpus")
    # hash-order dependent emission (SCOPEPrint walks the symbol table): the same small shape under every assignment of a fixed
    # set of names to its roles, so that every relative iteration order of the declarations occurs
    p_perm = submit_batch(ctx, pool, b, model_exe, [(nm, s, None) for nm, s in permuted_shapes()], "name-permutations")
    p_size = submit_batch(ctx, pool, b, model_exe, [(nm, s, None) for nm, s in size_shapes(not quick)], "size-boundaries")
    n_gen = 24 if quick else 700
    g = G.Gen(ctx.rng, n_types=(4, 11))
    core = []
    for i in range(n_gen):
        s = g.schema()
        core.append((f"gen{i}", s, scramble_case(s.text(), ctx.rng) if i % 4 == 3 else None))
    p_gen = submit_batch(ctx, pool, b, model_exe, core, "generated")
    for pnd in (p_corpus, p_perm, p_size, p_gen):      # judged in this order (corpus first), built concurrently
        collect_batch(ctx, b, model_exe, pnd)
    pool.shutdown()
    if core:
        ctx.sample({"schema": core[0][1].text()[:1200]})
        ctx.sample({"ast": core[0][1].ast()[:800]})
    ctx.cov["rule"] = ("random single-schema EXPRESS files from vlib/schema_gen_c02.py: 3-9 entities on a random DAG (chains, diamonds, up to 3 "
                       "supertypes), explicit/optional/derived/inverse/redeclared attributes of every base type, defined types, entities, "
                       "1-D and nested aggregates with literal and ? bounds, UNIQUE/OPTIONAL; enumerations, selects, renamed types; "
                       "renamed enumerations/selects/aggregates, rename chains of length 1..3 over simple, enumeration, select and aggregate types, "
                       "named aggregates of enumerations/selects and named nested aggregates; "
                       "keyword-like identifiers, doubled/trailing underscores, every 4th schema with randomly scrambled letter case; "
                       "distinct = distinct schema texts")
    if not proof_ok and not ctx.violations:
        pass   # broken proof already recorded by ctx.lean; the streams above were the violation search


def replay(ctx, path):
    d = json.load(open(path))
    r = d.get("replay", d)
    proof_ok, b, model_exe = setup(ctx)
    s = schema_from_json(r["schema_json"])
    R = run_one(b, model_exe, s, os.path.join(ctx.work, "replay"), r.get("schema_exp"),
                script_ops=(r.get("registry_script") or "").split() or None)
    ctx.count(1, key=R.text)
    report(ctx, b, model_exe, R, "replay")

"""C18 — exp2python emits an importable module that mirrors the schema.

proof:           lean/StepModel/Props/C18.lean over lean/StepModel/GenPy.lean (class names, bases after the MRO sort,
                 constructor parameters, type definitions, keyword escaping)
regenerated tie: tools/extract.d/genpy.py -> Generated/GenPyGen.lean (keyword_list[] of is_python_keyword, runtime package
                 named in the import preamble)
correspondence:  scratch exp2python on generated schemas, py_compile + import against the bundled runtime,
                 introspection (harness/h_pygen.py) vs `m_c18 model`
oracle:          the statement itself on the implementation's output: exit 0, one module, compiles, imports, one class per
                 entity with bases = declared supertypes in order and constructor = `m_c18 spec` (Part 21 order), one
                 definition per defined type with its underlying type / items / members
bodies:          vlib/c18_bodies.py — derived-attribute getters and WHERE-rule methods over a typed expression fragment:
                 the module compiles, every getter / rule method gives the value ISO 10303-11 gives the expression
                 (`m_c18 spec`, lean/StepModel/GenPyBody.lean `Spec.Body.eval`) on instances with values of the declared types;
                 correspondence: the tree Python's own parser reads in each emitted right-hand side (harness/h_pybody.py)
                 and every value = `m_c18 model` (`Body.read`, `Body.pyEval`)
functions:       vlib/c18_bodies.run_functions — translated FUNCTIONs (vlib/func_gen_py18.py) called through harness/h_pyfunc.py,
                 every result = the reference interpreter's (ISO 10303-11 clause 13); the iteration space of REPEAT is also
                 compared with `m_c18 model|spec` (`range` lines: `Body.pyRange`/`stopWritten`, `Spec.Body.repeatValues`)
"""
import json, os, re, subprocess, sys, time
from concurrent.futures import ThreadPoolExecutor
from vlib import build as B
from vlib import schema_gen_py18 as G
from vlib import c18_bodies as CB

HERE = os.path.dirname(os.path.abspath(__file__))
VERIF = os.path.dirname(HERE)
HARNESS = os.path.join(VERIF, "harness", "h_pygen.py")
EXTRACTORS = ["genpy"]
ESCAPABLE = set(G.PY_KEYWORDS + ["property"])


def unescape(n):
    return n[:-1] if n.endswith("_") and n[:-1] in ESCAPABLE else n


def match_names(declared, emitted):
    """the property's reading of an emitted top-level name: the declared identifier, or that identifier with one underscore
    appended; every emitted name stands for at most one declared identifier.  -> {emitted: declared}
    (shortest declared identifiers first, so `class`, `class_` emitted as `class_`, `class__` are told apart)"""
    back, emitted = {}, set(emitted)
    for d in sorted(set(declared), key=lambda x: (len(x), x)):
        for cand in (d, d + "_"):
            if cand in emitted and cand not in back:
                back[cand] = d
                break
    return back


def run_impl(b, workdir, s):
    """exp2python + harness on one schema -> dict(rc, stderr, files, line)"""
    d = os.path.join(workdir, s.name)
    os.makedirs(d, exist_ok=True)
    for f in os.listdir(d):
        os.unlink(os.path.join(d, f))
    with open(os.path.join(d, s.name + ".exp"), "w") as fh:
        fh.write(s.express())
    try:
        r = subprocess.run([b.tool("exp2python"), s.name + ".exp"], cwd=d, env=b.env(), capture_output=True, text=True, timeout=TOOL_TIMEOUT)
        rc, err = r.returncode, r.stderr
    except subprocess.TimeoutExpired:
        rc, err = -999, f"no return within {TOOL_TIMEOUT} s"
    files = sorted(f for f in os.listdir(d) if f.endswith(".py"))
    line = ""
    if rc == 0 and files == [s.name + ".py"]:
        env = dict(os.environ); env["VERIF_REPO"] = B.REPO
        h = subprocess.run([sys.executable, "-B", HARNESS, d, s.name], capture_output=True, text=True, env=env, timeout=60)
        line = h.stdout.strip() or ("harness-died " + h.stderr[-300:].replace("\n", " "))
    return {"rc": rc, "stderr": err[-400:], "files": files, "line": line}


def run_lean(exe, mode, schemas):
    text = "\n".join(l for s in schemas for l in s.driver_lines()) + "\n"
    r = subprocess.run([exe, mode], input=text, capture_output=True, text=True, timeout=600)
    out = r.stdout.split("\n")[:-1]
    if r.returncode != 0 or len(out) != len(schemas):
        raise RuntimeError(f"m_c18 {mode}: rc={r.returncode} lines={len(out)}/{len(schemas)} {r.stderr[-300:]}")
    return out


def parse_items(line):
    """-> (pkg, {class: (bases, ctor)}, {type: body})"""
    pkg, classes, types, props = None, {}, {}, {}
    for it in [x.strip() for x in line.split("|")]:
        if it.startswith("pkg="):
            pkg = it[4:]
        elif it.startswith("class "):
            m = re.match(r"class (\S+) bases=(\S+) ctor(?:attrs)?=(\S+)$", it)
            name, bs, ct = m.group(1), m.group(2), m.group(3)
            classes[name] = ([] if bs == "-" else bs.split(","), None if ct == "!" else ([] if ct == "-" else ct.split(",")))
        elif it.startswith("props "):
            n, body = it[6:].split("=", 1)
            props[n] = body
        elif it.startswith("type "):
            n, body = it[5:].split("=", 1)
            k = body.split(":")[0]
            if k in ("enum", "select"):
                rest = body.split(":", 1)[1]
                body = k + ":" + ",".join(sorted([] if rest == "-" else rest.split(",")))
            types[n] = body
    return pkg, classes, types, props


def oracle(s, impl, spec_line):
    """the property's statement on the implementation's output -> None | (kind, detail)"""
    if impl["rc"] != 0:
        return ("exit-status", f"exp2python exited {impl['rc']} on an accepted schema: {impl['stderr'][-200:]!r}")
    if impl["files"] != [s.name + ".py"]:
        return ("module-file", f"expected exactly one module {s.name}.py, found {impl['files']}")
    line = impl["line"]
    if not line.startswith("ok"):
        return (line.split()[0], f"Python cannot {'compile' if line.startswith('compile') else 'import'} the emitted module against the bundled runtime: {line[:300]}")
    _, classes, types, _ = parse_items(line)
    _, sclasses, stypes, _ = parse_items(spec_line)
    w = re.search(r"\| wiring=(\S+)", line)
    wiring = w.group(1) if w else "missing"
    back = match_names([e.name for e in s.entities] + [t.name for t in s.types], set(classes) | set(types))
    un = lambda n: back.get(n, unescape(n))
    by_ent = {}
    for cn in classes:
        by_ent.setdefault(un(cn), []).append(cn)
    if len(classes) != len(s.entities):
        return ("class-count", f"{len(s.entities)} entities but {len(classes)} entity classes {sorted(classes)}")
    for e in s.entities:
        if e.name not in by_ent:
            return ("class-missing", f"no class for entity {e.name} (classes: {sorted(classes)})")
        bases, ctor = classes[by_ent[e.name][0]]
        want_b, want_c = sclasses[e.name]
        # the inherited parameters come first and carry the prefix `inherited<i>__`; an own attribute may itself be called so
        # (judged BEFORE the base-class order: a kept finding about the base order of an entity must not hide a wrong
        # parameter order of the same entity - seeded C18-f1)
        n_own = len([a for a in e.attrs if a.kind in "eo"])
        n_inh = max(len(ctor or []) - n_own, 0)
        got = [unescape(re.sub(r"^inherited\d+__", "", p) if i < n_inh else p) for i, p in enumerate(ctor or [])]
        if got != want_c:
            return ("ctor-order", f"class {e.name}: constructor takes {ctor}, Part 21 order of the explicit attributes is {want_c}",
                    {"entity": e.name, "got": got, "want": want_c})
        if [un(x) for x in bases] != want_b:
            return ("bases-order", f"class {e.name}: bases {bases}, supertypes in declaration order {want_b}",
                    {"entity": e.name, "got": [un(x) for x in bases], "want": want_b})
    mo = re.search(r"\| order=(\S+)", line)
    emitted = [] if not mo or mo.group(1) == "-" else [un(x) for x in mo.group(1).split(",")]
    names = {e.name for e in s.entities}
    for e in s.entities:
        for p in e.supers:
            if p in names and e.name in emitted and p in emitted and emitted.index(p) > emitted.index(e.name):
                return ("class-order", f"class {e.name} is written before the class of its supertype {p}: {emitted}")
    if wiring != "ok":
        return ("wiring", f"a constructor parameter does not reach its attribute (instantiating with one sentinel per parameter): {wiring}")
    by_type = {}
    for tn in types:
        by_type.setdefault(un(tn), tn)
    for t in s.types:
        if t.name not in by_type:
            return ("type-missing", f"no definition for defined type {t.name} (found {sorted(types)})")
        got, want = types[by_type[t.name]], stypes[t.name]
        k, _, rest = got.partition(":")
        if k == "enum":
            got = k + ":" + ",".join(sorted(unescape(x) for x in rest.split(",") if x != "-"))
        elif k == "select":
            got = k + ":" + ",".join(sorted(un(x) for x in rest.split(",") if x != "-"))
        elif k == "defined":
            got = k + ":" + un(rest)
        elif k == "aggregate":
            if "!" in rest:
                return ("type-body", f"defined type {t.name}: the base type name of the aggregate cannot be resolved in its scope: {got}")
            got = k + ":" + re.sub(r"@?([A-Za-z_][A-Za-z_0-9]*)(\]*)$", lambda m: un(m.group(1)) + m.group(2), rest)
        if got != want:
            return ("type-body", f"defined type {t.name}: emitted {got}, declared {want}")
    return None


def correspondence(impl, model_line):
    if not impl["line"].startswith("ok"):
        return None
    a, b = parse_items(impl["line"]), parse_items(model_line)
    if a != b:
        for i, what in enumerate(("package", "classes", "types", "properties")):
            if a[i] != b[i]:
                if i == 0:
                    return f"package: module imports {a[0]}, model says {b[0]}"
                keys = sorted(set(a[i]) | set(b[i]))
                k = next(k for k in keys if a[i].get(k) != b[i].get(k))
                return f"{what} `{k}`: exp2python emitted {a[i].get(k)}, the Lean model {b[i].get(k)}"
    return None


class Runner:
    def __init__(self, ctx):
        self.ctx = ctx
        self.b = ctx.build("plain")
        self.exe = ctx.model_exe("m_c18")

    def evaluate(self, schemas):
        assert len({s.name for s in schemas}) == len(schemas), "schema names in one batch must be distinct (one work directory each)"
        with ThreadPoolExecutor(max_workers=14) as ex:
            impls = list(ex.map(lambda s: run_impl(self.b, self.ctx.work, s), schemas))
        models = run_lean(self.exe, "model", schemas)
        specs = run_lean(self.exe, "spec", schemas)
        out = []
        for s, im, mo, sp in zip(schemas, impls, models, specs):
            try:
                o = oracle(s, im, sp)
                c = None if o else correspondence(im, mo)
            except Exception as e:
                o, c = None, f"unparsable output {im['line'][:200]!r} ({type(e).__name__}: {e})"
            out.append((o, c, im))
        return out

    def fails(self, s, kind):
        o, c, im = self.evaluate([s])[0]
        if kind == "correspondence":
            return c
        return o if (o and o[0] == kind) else None


def remove_entity(s, name):
    t = s.copy()
    t.entities = [e for e in t.entities if e.name != name]
    for e in t.entities:
        e.supers = [x for x in e.supers if x != name]
        e.attrs = [a for a in e.attrs if a.typ != name and not (a.inv and a.inv[0] == name)]
    gone = set()
    for e in s.entities:
        if e.name == name:
            gone = {a.name for a in e.attrs}
    for e in t.entities:
        e.attrs = [a for a in e.attrs if not (a.inv and a.inv[1] in gone)]
    for ty in t.types:
        if ty.body[0] == "select":
            ty.body = ("select", [m for m in ty.body[1] if m != name])
    t.types = [ty for ty in t.types if not (ty.body[0] == "select" and not ty.body[1])]
    return drop_dangling_renames(t)


def remove_type(s, name):
    t = s.copy()
    if any(a.typ == name for e in t.entities for a in e.attrs):
        for e in t.entities:
            e.attrs = [a for a in e.attrs if a.typ != name]
    for e in t.entities:
        e.attrs = [a for a in e.attrs if not (isinstance(a.typ, str) and a.typ.endswith(" OF " + name))]
    t.types = [ty for ty in t.types if ty.name != name and not (ty.body[0] == "defined" and ty.body[1] == name)
               and not (ty.body[0] == "aggregate" and G.agg_levels(ty.body)[1] == name)]
    for ty in t.types:
        if ty.body[0] == "select":
            ty.body = ("select", [m for m in ty.body[1] if m != name])
    t.types = [ty for ty in t.types if not (ty.body[0] == "select" and not ty.body[1])]
    return drop_dangling_renames(t)


def drop_dangling_renames(t):
    """renames (and what uses them) whose original is gone"""
    while True:
        names = {ty.name for ty in t.types}
        gone = [ty.name for ty in t.types if ty.body[0] in ("renum", "rselect") and ty.body[1] not in names]
        if not gone:
            return t
        t.types = [ty for ty in t.types if ty.name not in gone]
        for e in t.entities:
            e.attrs = [a for a in e.attrs if a.typ not in gone and not (isinstance(a.typ, str) and any(a.typ.endswith(" OF " + g) for g in gone))]
        for ty in t.types:
            if ty.body[0] == "select":
                ty.body = ("select", [m for m in ty.body[1] if m not in gone])
        t.types = [ty for ty in t.types if not (ty.body[0] == "select" and not ty.body[1])]


def rename(s, old, new):
    text = json.dumps(to_obj(s))
    return from_obj(json.loads(re.sub(r'"%s"' % re.escape(old), '"%s"' % new, text)))


def to_obj(s):
    return {"name": s.name, "types": [[t.name, list(t.body)] for t in s.types],
            "entities": [[e.name, e.supers, [[a.name, a.kind, a.typ, a.init, list(a.inv) if a.inv else None] for a in e.attrs]] for e in s.entities]}


def from_obj(o):
    s = G.Schema(o["name"])
    s.types = [G.TypeDef(n, tuple(b)) for n, b in o["types"]]
    for n, sup, attrs in o["entities"]:
        e = G.Entity(n, sup)
        e.attrs = [G.Attr(a[0], a[1], a[2], a[3], tuple(a[4]) if a[4] else None) for a in attrs]
        s.entities.append(e)
    return s


def shrink(run, s, kind):
    cur = s.copy(); cur.name = "m"
    if not run.fails(cur, kind):
        return s
    changed = True
    while changed:
        changed = False
        cands = [remove_entity(cur, e.name) for e in reversed(cur.entities)] + [remove_type(cur, t.name) for t in reversed(cur.types)]
        for e in cur.entities:
            for a in e.attrs:
                t = cur.copy()
                for te in t.entities:
                    if te.name == e.name:
                        te.attrs = [x for x in te.attrs if x.name != a.name]
                    te.attrs = [x for x in te.attrs if not (x.inv and x.inv[1] == a.name)]
                cands.append(t)
        for e in cur.entities:
            for a in e.attrs:
                if a.kind in "eo" and a.typ != "INTEGER" and not any(x.inv and x.inv[1] == a.name for y in cur.entities for x in y.attrs):
                    t = cur.copy()
                    for te in t.entities:
                        for x in te.attrs:
                            if te.name == e.name and x.name == a.name:
                                x.typ = "INTEGER"
                    cands.append(t)
        for t in cur.types:
            if t.body[0] in ("enum", "select") and len(t.body[1]) > 1:
                for it in t.body[1]:
                    c = cur.copy()
                    for ct in c.types:
                        if ct.name == t.name:
                            ct.body = (t.body[0], [x for x in t.body[1] if x != it])
                    cands.append(c)
        for c in cands:
            if c.entities or c.types:
                if run.fails(c, kind):
                    cur = c; changed = True; break
    # canonical names where the failure does not depend on the name
    k = 0
    for old in [e.name for e in cur.entities] + [t.name for t in cur.types] + [a.name for e in cur.entities for a in e.attrs] + \
               [i for t in cur.types if t.body[0] == "enum" for i in t.body[1]]:
        new = f"n{k}"
        c = rename(cur, old, new)
        if run.fails(c, kind):
            cur = c
        k += 1
    return cur


def key_of(kind, s):
    return kind + ":" + ";".join(l.replace(" ", "_") for l in s.driver_lines()[1:-1])


# ---- defect classes: a finding is keyed on the class, decided on the minimised schema ------------------------------
def _ents(s):
    return {e.name: e for e in s.entities}


def path_counts(s, name):
    """number of supertype paths from entity `name` to each of its ancestors"""
    ents, cnt = _ents(s), {}

    def walk(n):
        for p in ents[n].supers:
            if p in ents:
                cnt[p] = cnt.get(p, 0) + 1
                walk(p)
    walk(name)
    return cnt


def chain_len(s, name):
    ents = _ents(s)
    return max([1 + chain_len(s, p) for p in ents[name].supers if p in ents] + [0])


def expected_bases(s, name):
    """the base order the property can ask for: declaration order; only where Python forbids it (a listed supertype that is
    an ancestor of another listed supertype) the ancestor comes behind that subtype.  A pure function of the schema."""
    return python_order(s, _ents(s)[name].supers)


def c3_linearisable(s):
    """do the expected base orders (see expected_bases) admit Python's C3 linearisation?  A pure function of the schema:
    when it holds, an import failure is a defect of the generator, whatever its message."""
    ents, memo = _ents(s), {}

    def lin(n):
        if n in memo:
            return memo[n]
        seqs = []
        bases = expected_bases(s, n)
        for p in bases:
            lp = lin(p)
            if lp is None:
                memo[n] = None
                return None
            seqs.append(list(lp))
        seqs.append(list(bases))
        out = [n]
        while any(seqs):
            seqs = [q for q in seqs if q]
            for q in seqs:
                h = q[0]
                if not any(h in r[1:] for r in seqs):
                    break
            else:
                memo[n] = None
                return None
            out.append(h)
            seqs = [[x for x in q if x != h] for q in seqs]
        memo[n] = out
        return out
    return all(lin(e.name) is not None for e in s.entities)


def is_ancestor(s, anc, n):
    ents = _ents(s)
    return any(p == anc or is_ancestor(s, anc, p) for p in ents[n].supers if p in ents)


def python_order(s, supers):
    """declaration order, a supertype that is an ancestor of another listed supertype moved behind it"""
    rem, out = list(supers), []
    while rem:
        r = next((r for r in rem if not any(o != r and is_ancestor(s, r, o) for o in rem)), rem[0])
        out.append(r); rem.remove(r)
    return out


def first_occurrences(l):
    out = []
    for x in l:
        if x not in out:
            out.append(x)
    return out


def classify(o, s):
    """-> class key (stable across seeds and generators) or the shape key when the failure is in no known class"""
    kind, detail = o[0], o[1]
    extra = o[2] if len(o) > 2 else {}
    if kind == "ctor-order" and extra:
        shared = any(c >= 2 for c in path_counts(s, extra["entity"]).values())
        if shared and first_occurrences(extra["got"]) == extra["want"] and len(extra["got"]) > len(extra["want"]):
            return "ctor-order:shared-ancestor-twice"
    if kind == "bases-order" and extra:
        want, got = extra["want"], extra["got"]
        if got != want and got == expected_bases(s, extra["entity"]):
            # declaration order with an ancestor moved behind its listed subtype: the declared order itself is one Python refuses
            return "bases-order:ancestor-before-descendant"
        # the stable sort by decreasing supertype-chain length
        srt = [n for _, _, n in sorted((-chain_len(s, n), i, n) for i, n in enumerate(want))]
        if sorted(got) == sorted(want) and got == srt:
            return "bases-order:not-declaration-order"
    if kind in ("class-count", "class-missing", "type-missing", "type-body"):
        top = {e.name for e in s.entities} | {t.name for t in s.types}
        if any(k in top and k + "_" in top for k in ESCAPABLE):
            # the escaped keyword `k` and a declared `k_` are written under one Python name: one of the two definitions is lost
            return "names:keyword-underscore-collision"
    if kind == "compile-error" and "duplicate argument 'inherited" in detail:
        for e in s.entities:
            if any(re.fullmatch(r"inherited\d+__\w+", a.name) for a in e.attrs if a.kind in "eo") and e.supers:
                # an own explicit attribute is called like one of the `inherited<i>__<name>` parameters of the same constructor
                return "ctor:own-attribute-named-like-inherited-parameter"
    if kind == "import-error" and "method resolution order" in detail and not c3_linearisable(s):
        return "import-error:no-c3-linearisation"
    return key_of(kind, s)


CLASSES = ("ctor-order:shared-ancestor-twice", "bases-order:not-declaration-order", "bases-order:ancestor-before-descendant",
           "import-error:no-c3-linearisation", "names:keyword-underscore-collision", "ctor:own-attribute-named-like-inherited-parameter")


def report(ctx, run, results, schemas, cap=8):
    """every failing schema is classified; one minimal replay per defect class, and up to `cap` for failures in no class"""
    done, unclassified = set(), 0
    for s, (o, c, im) in zip(schemas, results):
        if not o:
            continue
        k0 = classify(o, s)
        if k0 in CLASSES and k0 in done:
            continue
        if k0 not in CLASSES:
            if unclassified >= cap:
                continue
            unclassified += 1
        m = shrink(run, s, o[0])
        mo = run.fails(m, o[0]) or o
        k = classify(mo, m)
        if k0 in CLASSES and k != k0:
            # the minimised schema left the class: report the unminimised one under its own key
            m, mo, k = s, o, key_of(o[0], s)
        done.add(k)
        ctx.violation(k, mo[1], {"schema": m.express(), "driver_lines": m.driver_lines(), "model": to_obj(m),
                      "how": "run the scratch exp2python on the schema, then harness/h_pygen.py <dir> m with VERIF_REPO set; compare with `m_c18 spec`"})
    if not any(o for o, _, _ in results):
        for s, (o, c, im) in zip(schemas, results):
            if c:
                m = shrink(run, s, "correspondence")
                ctx.broken.append(("correspondence Gen.Py model vs exp2python", f"{run.fails(m, 'correspondence') or c}; minimal schema:\n{m.express()}"))
                return


TOOL_TIMEOUT = 30      # seconds; a tool run that does not return is a violation, never a stalled check


def run_multi(ctx, b, items):
    """multi-schema files: exp2python must return within the time bound, exit 0 and write one module per schema, each of
    which compiles (imports between the modules are outside this property: single-schema inputs)"""
    imports_written = "from %s import *" in open(os.path.join(B.REPO, "src", "exp2python", "src", "classes_wrapper_python.cc")).read()

    def one(it):
        i, (text, names) = it
        d = os.path.join(ctx.work, f"multi{i}")
        os.makedirs(d, exist_ok=True)
        open(os.path.join(d, "in.exp"), "w").write(text)
        try:
            r = subprocess.run([b.tool("exp2python"), "in.exp"], cwd=d, env=b.env(), capture_output=True, text=True, timeout=TOOL_TIMEOUT)
        except subprocess.TimeoutExpired:
            return ("tool-timeout", f"exp2python did not return within {TOOL_TIMEOUT} s on a multi-schema file")
        if r.returncode != 0:
            return ("exit-status", f"exp2python exited {r.returncode} on an accepted multi-schema file: {r.stderr[-200:]!r}")
        files = sorted(f for f in os.listdir(d) if f.endswith(".py"))
        # a schema that depends on a later one is written in several parts <schema>_1.py, <schema>_2.py (multpass_python.c):
        # by design for multi-schema input, so only require that every schema is written and nothing else is
        owner = {f: re.sub(r"(_\d+)?\.py$", "", f) for f in files}
        if set(owner.values()) != set(names):
            return ("module-file", f"schemas {sorted(names)}, modules written {files}")
        for f in files:
            c = subprocess.run([sys.executable, "-B", "-m", "py_compile", f], cwd=d, capture_output=True, text=True, timeout=60)
            if c.returncode != 0:
                return ("compile-error", f"{f} does not compile: {c.stderr[-200:]!r}")
        # when the generator writes imports between the modules (fixes/C18-12) and no schema had to be split, every module
        # must import (the classes it names from other schemas resolve)
        if imports_written and all(f == owner[f] + ".py" for f in files):
            code = ("import sys; sys.path.insert(0, %r); sys.path.insert(0, '.'); " % os.path.join(B.REPO, "src", "exp2python", "python")
                    + "; ".join("import " + n for n in names))
            c = subprocess.run([sys.executable, "-B", "-c", code], cwd=d, capture_output=True, text=True, timeout=60)
            if c.returncode != 0:
                return ("import-error", f"the modules of the file cannot be imported: {c.stderr.strip().splitlines()[-1][:200]!r}")
        return None
    with ThreadPoolExecutor(max_workers=14) as ex:
        res = list(ex.map(one, enumerate(items)))
    bad = 0
    for (text, names), r in zip(items, res):
        ctx.count(1, key=text)
        ctx.hist("verdict", "multi:" + (r[0] if r else "ok"))
        if r:
            bad += 1
            if bad <= 3:
                key = "multi-schema:" + r[0] + ":" + str(abs(hash(text)) % 10**8)
                mo = re.search(r"NameError: name '(\w+)' is not defined", r[1])
                if r[0] == "import-error" and mo and re.search(r"TYPE\s+\w+\s*=\s*" + mo.group(1) + r"\s*;", text) \
                        and re.search(r"TYPE\s+" + mo.group(1) + r"\s*=\s*\w+\s*;", text):
                    # a type renaming a type that itself renames a type of another schema is written before it
                    key = "multi-schema:rename-of-foreign-rename-order"
                ctx.violation(key, r[1],
                              {"schema": text, "how": f"run the scratch exp2python on the file (time bound {TOOL_TIMEOUT} s)"})
    ctx.cov["correspondence"]["multi-schema"] = {"files": len(items), "failures": bad}


def probe_reserved(ctx, b):
    """the generator's split of Python's lower-case hard keywords into `reserved by EXPRESS` / `legal identifier` against the
    front end under test: a schema that declares an entity named with a reserved one must be refused (the legal ones are
    declared by the fixed shapes kw<i>, which must be accepted)"""
    d = os.path.join(ctx.work, "reserved")
    os.makedirs(d, exist_ok=True)
    for k in G.EXPRESS_RESERVED_PY:
        open(os.path.join(d, "r.exp"), "w").write(f"SCHEMA r;\nENTITY {k};\nEND_ENTITY;\nEND_SCHEMA;\n")
        try:
            r = subprocess.run([b.tool("exp2python"), "r.exp"], cwd=d, env=b.env(), capture_output=True, text=True, timeout=TOOL_TIMEOUT)
        except subprocess.TimeoutExpired:
            ctx.broken.append(("keyword split", f"exp2python did not return on ENTITY {k}")); return
        ctx.count(1, key="reserved:" + k)
        if r.returncode == 0:
            ctx.broken.append(("keyword split (vlib/schema_gen_py18.EXPRESS_RESERVED_PY vs the EXPRESS front end)",
                               f"`ENTITY {k};` is accepted: `{k}` is a Python keyword the generator never uses as an identifier")); return


WIDTH_SCHEMA = """SCHEMA wd;
TYPE code = STRING(3) FIXED; END_TYPE;
ENTITY e;
  s : STRING(3);
  f : STRING(3) FIXED;
  b : BINARY(4) FIXED;
  c : code;
  l : LIST [0:?] OF STRING(2);
END_ENTITY;
END_SCHEMA;
"""
WIDTH_PROBE = """
import sys, json
sys.path.insert(0, sys.argv[1]); sys.path.insert(0, '.')
import wd
from stepcode.SimpleDataTypes import STRING, BINARY
from stepcode.AggregationDataTypes import LIST
o = wd.e(STRING('abc'), STRING('abc'), BINARY('1010'), wd.code('abc'), None)
out = {}
for name, good, bad in (('s', STRING('ab'), STRING('abcdef')), ('f', STRING('xyz'), STRING('a')), ('b', BINARY('0101'), BINARY('1')),
                        ('c', wd.code('xyz'), wd.code('toolong'))):
    row = []
    for v in (good, bad):
        try:
            setattr(o, name, v); row.append('accepted')
        except Exception as ex:
            row.append('refused ' + type(ex).__name__)
    out[name] = row
print(json.dumps(out))
"""


def probe_widths(ctx, b):
    """width specifications (`STRING(3)`, `STRING(3) FIXED`, `BINARY(4) FIXED`, a defined type over one): a value within the width
    must be accepted by the attribute's setter, a value outside it refused (ISO 10303-11 8.1.6, 8.1.7)"""
    d = os.path.join(ctx.work, "widths")
    os.makedirs(d, exist_ok=True)
    open(os.path.join(d, "wd.exp"), "w").write(WIDTH_SCHEMA)
    r = subprocess.run([b.tool("exp2python"), "wd.exp"], cwd=d, env=b.env(), capture_output=True, text=True, timeout=TOOL_TIMEOUT)
    ctx.count(1, key="widths")
    if r.returncode != 0:
        ctx.violation("type:width-spec:exit-status", f"exp2python exited {r.returncode} on width specifications: {r.stderr[-200:]!r}", {"schema": WIDTH_SCHEMA}); return
    h = subprocess.run([sys.executable, "-B", "-c", WIDTH_PROBE, os.path.join(B.REPO, "src", "exp2python", "python")], cwd=d, capture_output=True, text=True, timeout=60)
    try:
        res = json.loads(h.stdout)
    except Exception:
        ctx.violation("type:width-spec:probe", f"the module for width specifications cannot be probed: {h.stderr.strip().splitlines()[-1:]}", {"schema": WIDTH_SCHEMA}); return
    ctx.cov["correspondence"]["width-specifications"] = res
    bad_good = [n for n, (g, _) in res.items() if g != "accepted"]
    bad_bad = [n for n, (_, w) in res.items() if w == "accepted"]
    if bad_good:
        ctx.violation("type:width-spec-refuses-conforming-value", f"a value within the declared width is refused for {bad_good}: {res}", {"schema": WIDTH_SCHEMA, "probe": WIDTH_PROBE})
    elif bad_bad:
        ctx.violation("type:width-spec-dropped", f"a value outside the declared width is accepted by the setters of {bad_bad} (the emitted type is the bare STRING / BINARY): {res}",
                      {"schema": WIDTH_SCHEMA, "probe": WIDTH_PROBE, "how": "run the scratch exp2python on the schema, then the probe with the runtime directory as argument"})


def batches(ctx):
    quick = ctx.tier == "quick"
    cdir = os.path.join(VERIF, "corpus", "C18")
    cor = []
    if os.path.isdir(cdir):
        for f in sorted(os.listdir(cdir)):
            if f.endswith(".json"):
                s = from_obj(json.load(open(os.path.join(cdir, f)))["model"]); s.name = "c_" + f[:-5].replace("-", "_")
                cor.append(s)
    yield "corpus", cor
    yield "fixed-shapes", G.fixed_shapes()
    n = 120 if quick else 1500
    yield "random", [G.gen(ctx.rng, idx=i, admissible=True) for i in range(n)]
    yield "random-keyword-heavy", [G.gen(ctx.rng, idx=10000 + i, p_kw=0.6, admissible=True) for i in range(40 if quick else 400)]
    yield "random-deep-multi", [G.gen(ctx.rng, idx=20000 + i, n_ent=ctx.rng.randrange(4, 10), p_multi=0.7, p_kw=0.05, admissible=True)
                                for i in range(60 if quick else 600)]
    yield "renamed-enum-in-select", [G.gen_renamed_in_select(ctx.rng, i) for i in range(60 if quick else 600)]
    perms = 6 if quick else 24
    yield "rename-chains", [G.gen_rename_chain(ctx.rng, 10000 * d + 100 * ki + pi, kind, d)
                            for ki, kind in enumerate(sorted(G.SIMPLE) + ["BOOLEAN", "ENUM", "SELECT"])
                            for d in (1, 2, 3, 4) for pi in range(perms if d >= 3 else 2)]
    yield "nested-aggregates", [G.gen_nested_aggregates(ctx.rng, i) for i in range(60 if quick else 600)]
    yield "diamond-dags", [G.gen_diamond_dag(ctx.rng, i) for i in range(80 if quick else 800)]
    yield "ancestor-through-multiple-supertypes", [G.gen_lattice(ctx.rng, i) for i in range(60 if quick else 600)]
    yield "random-any-supertype-order", [G.gen(ctx.rng, idx=30000 + i, n_ent=ctx.rng.randrange(3, 9), p_multi=0.6, p_kw=0.05)
                                         for i in range(40 if quick else 400)]


def fallback_generated():
    """When the extractor no longer matches the tree under test (a broken tie, reported by ctx.lean) the private Lean copy
    would keep whatever Generated file it had and the drivers might not build: give it the committed one (valid for /repo) so
    that the specification driver - the oracle - is current and the violation search can still produce a replay."""
    import importlib.util, shutil
    from vlib import lean as L
    src = os.path.join(VERIF, "lean", "StepModel", "Generated", "GenPyGen.lean")
    dst = os.path.join(L.GEN_DIR, "GenPyGen.lean")
    try:
        spec = importlib.util.spec_from_file_location("x_genpy", os.path.join(VERIF, "tools", "extract.d", "genpy.py"))
        m = importlib.util.module_from_spec(spec); spec.loader.exec_module(m)
        m.extract(B.REPO)
    except Exception:
        if os.path.abspath(src) != os.path.abspath(dst):
            shutil.copyfile(src, dst)


def run(ctx):
    ctx.trusted += [
        "tools/extract.d/genpy.py (regex extraction of keyword_list[] and the import preamble)",
        "hand-written model lean/StepModel/GenPy.lean of LIBdescribe_entity / TYPEprint_descriptions (structure, names, order — not the bodies of emitted methods)",
        "harness/h_pygen.py (py_compile, import, inspect.signature/__bases__), vlib/schema_gen_py18.py (what it does not generate is not compared)",
        "CPython's compiler and import system (\"Python can compile and import the module\" is observed, not proved)",
        "hand-written model lean/StepModel/GenPyBody.lean of ATTRIBUTE_INITIALIZER*__out / WHEREPrint composed with Python's reading of the text "
        "(tied by Python's ast on every generated expression), harness/h_pybody.py, vlib/expr_gen_py18.py, vlib/c18_bodies.py",
        "vlib/func_gen_py18.py (generator and reference interpreter for FUNCTIONs: the oracle for translated statements, cross-checked "
        "against Spec.Body.repeatValues on the iteration space only), harness/h_pyfunc.py",
    ]
    ctx.assumptions += ["single-schema inputs; attribute names unique per schema; identifiers lower case (EXPRESS folds case)",
                        "bodies: derived-attribute getters and WHERE-rule methods over integer literals, TRUE/FALSE, attribute references, NOT, unary minus, "
                        "+ - *, value comparisons on INTEGER, AND OR XOR = <> on BOOLEAN are modelled; property setters, functions, global rules, "
                        "every other expression form (aggregates, function calls, queries, strings, reals, DIV MOD / **, LOGICAL UNKNOWN) are not "
                        "(string / BINARY / REAL literals and DIV are searched by the oracle only)"]
    fallback_generated()
    proof_ok = ctx.lean("StepModel.Props.C18", exes=["m_c18"], extractors=EXTRACTORS)
    if not os.path.exists(ctx.model_exe("m_c18")):
        return
    run_ = Runner(ctx)
    all_s, all_r = [], []
    for label, schemas in batches(ctx):
        if not schemas:
            continue
        t = time.time()
        res = run_.evaluate(schemas)
        for s, (o, c, im) in zip(schemas, res):
            ctx.count(1, key=s.key())
            ctx.hist("entities", min(len(s.entities), 9)); ctx.hist("types", min(len(s.types), 9))
            ctx.hist("max-supertypes", max([len(e.supers) for e in s.entities] + [0]))
            for t_ in s.types:
                ctx.hist("type-kinds", t_.body[0])
            for e in s.entities:
                for a in e.attrs:
                    ctx.hist("attribute-kinds", a.kind)
            ctx.hist("verdict", o[0] if o else ("model-differs" if c else "mirror"))
        ctx.cov["correspondence"][label] = {"schemas": len(schemas), "property_failures": sum(1 for o, _, _ in res if o),
                                            "model_differences": sum(1 for o, c, _ in res if c and not o), "wall_s": round(time.time() - t, 1)}
        all_s += schemas; all_r += res
    if any(o or c for o, c, _ in all_r):
        report(ctx, run_, all_r, all_s)
    multi = [G.gen_multi_schema(ctx.rng, i) for i in range(40 if ctx.tier == "quick" else 400)]
    hang = os.path.join(VERIF, "corpus", "C12", "exp2python-hangs-two-schemas.exp.txt")
    if os.path.exists(hang):
        multi.insert(0, (open(hang).read(), ["s_bebe", "s_ne"]))
    run_multi(ctx, run_.b, multi)
    probe_reserved(ctx, run_.b)
    probe_widths(ctx, run_.b)
    CB.run_bodies(ctx, run_.b, ctx.model_exe("m_c18"))
    CB.run_functions(ctx, run_.b, exe=ctx.model_exe("m_c18"))
    ctx.sample({"schema": all_s[-1].express(), "introspection": all_r[-1][2]["line"][:600]})
    ctx.cov["rule"] = ("generated single-schema EXPRESS files: 1-9 entities with single/multiple/diamond supertypes, explicit/optional/"
                       "derived/inverse attributes typed by simple, defined, entity and aggregate types; defined types of every body kind "
                       "(simple, BOOLEAN, renamed, ENUMERATION, SELECT, 1-D aggregate); 15-60% of identifiers drawn from Python keywords/"
                       "builtins; supertype orders Python accepts in all batches but `random-any-supertype-order`; plus fixed shapes (diamond, shallow-before-deep, every keyword as entity/attribute/enum item/type name); "
                       "bodies: one entity with 1-3 INTEGER and 0-2 BOOLEAN attributes (20% keyword names), 1-3 derived attributes and 0-2 WHERE rules "
                       "(labels partly keywords / missing) over random well-typed expressions of depth 1-4, 6 random value assignments each, plus fixed "
                       "bodies (right-nested same operators, keyword attributes and labels, DIV, string / BINARY / REAL literals, built-in constants); "
                       "functions: 1-2 INTEGER parameters, 1-3 locals (half with a LOCAL initial value, 15% keyword names), 1-4 statements of depth <= 3 "
                       "(assignment, IF, REPEAT with increment +/-1 +/-2 and optional WHILE / UNTIL, counted WHILE / UNTIL loops, SKIP / ESCAPE under IF, CASE, "
                       "BEGIN-END), RETURN; 6 argument tuples each; plus one fixed function per translation rule and six iteration-space probes")


def replay(ctx, path):
    d = json.load(open(path))
    r = d.get("replay", d)
    if "body" in r:
        ctx.lean("StepModel.Props.C18", exes=["m_c18"], extractors=EXTRACTORS)
        CB.run_bodies(ctx, Runner(ctx).b, ctx.model_exe("m_c18"), only=CB.from_obj(r["body"]), only_envs=r.get("envs"))
        return
    if "function" in r:
        CB.run_functions(ctx, ctx.build("plain"), only=CB.func_from_obj(r["function"]), only_args=r.get("args"))
        return
    s = from_obj(r["model"])
    ctx.lean("StepModel.Props.C18", exes=["m_c18"], extractors=EXTRACTORS)
    run_ = Runner(ctx)
    res = run_.evaluate([s])
    if any(o or c for o, c, _ in res):
        report(ctx, run_, res, [s])

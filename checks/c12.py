"""C12 — generators and the pretty printer are deterministic functions of their input.   (level: PARTIAL by nature)

proof:           lean/StepModel/Props/C12.lean over GenDeterm.lean / ExpressHash.lean: non-interference with an explicit
                 `Ambient` for the modelled data paths (AGGRprint_bound's union read under the rule found in the tree,
                 hash-table iteration order as a function of the key strings only, the scanner's stdout prefix)
regenerated tie: tools/extract.d/genbound.py (which bounds AGGRprint_bound prints as numbers; ALLOC_new zeroing;
                 LITERAL_INFINITY), tools/extract.d/scanner.py (shared with C17)
correspondence:  predicted SetBound lines of defined aggregate types and predicted DICTdo order (first-pass enumeration order
                 in the unity type file) vs the real exp2cxx output — lean exe m_c12
oracle:          the statement itself: every tool run under a matrix of ambient configurations on the same file must
                 produce byte-identical output trees (and the same exit status).  This differential part is TESTING; it
                 is what covers the ambient dependencies the model does not contain.
"""
import filecmp, glob, hashlib, json, os, platform, re, shutil, subprocess, time
from vlib import build as B, gentools as G, schema_gen as SG

LEVEL = "partial"
VERIF = os.path.dirname(os.path.dirname(os.path.abspath(__file__)))

MIN_BOUND = """SCHEMA bnd;
CONSTANT
  kk : INTEGER := 7;
END_CONSTANT;
TYPE t_const = LIST [1:kk] OF INTEGER;
END_TYPE;
ENTITY e1;
  n : INTEGER;
  a : ARRAY [0:n] OF REAL;
END_ENTITY;
END_SCHEMA;
"""
# every bound shape exp2cxx distinguishes (the derived-attribute case is the shipped b_spline_curve one)
ALL_BOUNDS = """SCHEMA bnds;
CONSTANT
  kk : INTEGER := 7;
END_CONSTANT;
TYPE t_lit = ARRAY [1:3] OF INTEGER; END_TYPE;
TYPE t_fun = LIST [1:ff(2)] OF INTEGER; END_TYPE;
TYPE t_expr = LIST [1:2+3] OF INTEGER; END_TYPE;
TYPE t_neg = ARRAY [-2:3] OF INTEGER; END_TYPE;
TYPE t_inf = LIST [0:?] OF INTEGER; END_TYPE;
ENTITY e0;
  n : INTEGER;
END_ENTITY;
ENTITY e1 SUBTYPE OF (e0);
  m : INTEGER;
  a_lit : ARRAY [0:4] OF REAL;
  a_self : ARRAY [1:SELF\\e0.n] OF REAL;
  a_fun : LIST [ff(1):?] OF REAL;
  a_expr : LIST [1:m+1] OF REAL;
END_ENTITY;
FUNCTION ff(x : INTEGER) : INTEGER;
  RETURN (x);
END_FUNCTION;
END_SCHEMA;
"""


def non_ascii_strings_schema():
    """string literals with multibyte UTF-8 characters whose byte length / character length straddle the pretty printer's
    line limit (exppp -l, default 130): every character count from 30 to 80 (60..160 bytes), plus mixed ASCII/non-ASCII"""
    l = ["SCHEMA non_ascii_notes;", "CONSTANT"]
    for n in range(30, 81):
        l.append(f"  note_{n} : STRING := '" + ("\u00e4\u00f6\u00fc\u00df" * 25)[:n] + "';")
    for n in range(60, 125, 4):
        l.append(f"  mixed_{n} : STRING := '" + ("Pr\u00fcfma\u00df \u00fcberschritten: \u00e4u\u00dfere Ma\u00dfe (L\u00e4nge, H\u00f6he) gem\u00e4\u00df Pr\u00fcfvorschrift f\u00fcr Zubeh\u00f6rteile " * 3)[:n].rstrip() + "';")
    l += ["END_CONSTANT;", "ENTITY inspection;", "  part_name : STRING;", "  note : OPTIONAL STRING;", "WHERE",
          "  wr1 : note <> '" + "\u00e9" * 58 + "';", "END_ENTITY;", "END_SCHEMA;", ""]
    return "\n".join(l)


def have_setarch():
    try:
        return subprocess.run(["setarch", platform.machine(), "-R", "true"], capture_output=True).returncode == 0
    except OSError:
        return False


class Config:
    def __init__(self, name, aslr=True, cwd="a", relative=False, big_env=False, locale="C", reuse=False, history=False):
        self.name, self.aslr, self.cwd, self.relative, self.big_env, self.locale, self.reuse = name, aslr, cwd, relative, big_env, locale, reuse
        # history: an earlier run on ANOTHER revision of the file (one more entity) left its output in the directory, and the
        # file then got its content back with an older modification time; only for tools that overwrite everything they
        # report (schema_scanner) — exp2cxx & co. never delete files of entities that no longer exist
        self.history = history


def configs(quick, setarch):
    base = Config("base")
    if quick:
        return [base, Config("repeat"),
                Config("all-varied", aslr=not setarch, cwd="bb/deeper/dir", relative=True, big_env=True, locale="C.UTF-8"),
                Config("over-previous-run", reuse=True), Config("after-other-revision", history=True)]
    cs = [base, Config("repeat"), Config("repeat2"), Config("cwd", cwd="bb/deeper/dir"), Config("relative-path", relative=True),
          Config("huge-env", big_env=True), Config("utf8-locale", locale="C.UTF-8"), Config("over-previous-run", reuse=True),
          Config("all-varied", cwd="cc", relative=True, big_env=True, locale="C.UTF-8"), Config("after-other-revision", history=True),
          Config("lang-utf8", locale="LANG=C.UTF-8")]
    if setarch:
        cs += [Config("no-aslr", aslr=False), Config("no-aslr-2", aslr=False)]
    return cs


TOOLS = ["exp2cxx", "exp2python", "exppp", "schema_scanner"]


def run_tool(b, tool, exp_abs, root, cfg, timeout=600):
    """-> (rc, outdir, stdout_masked).  Output tree = everything the tool leaves in its working directory."""
    if cfg.history:
        return run_history(b, tool, exp_abs, root, cfg, timeout)
    wd = os.path.join(root, tool, cfg.cwd if not cfg.reuse else "reuse")
    if cfg.reuse and not os.path.isdir(wd):
        os.makedirs(wd)
        run_tool(b, tool, exp_abs, root, Config("warmup", cwd="reuse"))   # an earlier run whose output stays in place
        wd = os.path.join(root, tool, "reuse")
    elif not cfg.reuse:
        shutil.rmtree(wd, ignore_errors=True)
        os.makedirs(wd)
    path = os.path.relpath(exp_abs, wd) if cfg.relative else exp_abs
    env = {"PATH": "/usr/bin:/bin", "LD_LIBRARY_PATH": b.lib, "HOME": "/nonexistent",
           "ASAN_OPTIONS": "detect_leaks=0", "UBSAN_OPTIONS": "print_stacktrace=1"}
    if cfg.locale.startswith("LANG="):
        env["LANG"] = cfg.locale[5:]        # LC_ALL unset: the locale comes from LANG
    else:
        env["LC_ALL"] = cfg.locale
    if cfg.big_env:
        for i in range(150):
            env[f"VERIF_FILLER_{i}"] = "x" * 800
    exe = G.build_scanner(b) if tool == "schema_scanner" else b.tool(tool)
    cmd = [exe, path]
    if not cfg.aslr:
        cmd = ["setarch", platform.machine(), "-R"] + cmd
    r = subprocess.run(cmd, cwd=wd, env=env, capture_output=True, timeout=timeout)
    out = r.stdout.decode("latin-1")
    # the working directory and the path by which the file was named legitimately appear in the scanner's stdout
    # and in SCHEMA_TARGETS("<input>") / messages: mask exactly these two strings
    out = out.replace(wd, "<CWD>").replace(path, "<INPUT>")
    return r.returncode, wd, out, path, r.stderr.decode("latin-1")[-300:]


def run_history(b, tool, exp_abs, root, cfg, timeout):
    wd = os.path.join(root, tool, "history")
    shutil.rmtree(wd, ignore_errors=True)
    os.makedirs(wd)
    if tool != "schema_scanner":
        return run_tool(b, tool, exp_abs, root, Config(cfg.name, cwd="history"), timeout)
    text = open(exp_abs, encoding="latin-1").read()
    m = re.search(r"(?im)^\s*END_SCHEMA\s*;", text)
    st = os.stat(exp_abs)
    try:
        if m:
            open(exp_abs, "w", encoding="latin-1").write(text[:m.start()] + "ENTITY zz_history_probe_entity;\n  zz_probe_attr : INTEGER;\nEND_ENTITY;\n" + text[m.start():])
            run_tool(b, tool, exp_abs, root, Config("other-revision", cwd="history-tmp"))
            shutil.rmtree(wd); shutil.move(os.path.join(root, tool, "history-tmp"), wd)
    finally:
        open(exp_abs, "w", encoding="latin-1").write(text)
        os.utime(exp_abs, (1_577_836_800, 1_577_836_800))
    env = {"PATH": "/usr/bin:/bin", "LD_LIBRARY_PATH": b.lib, "LC_ALL": "C", "HOME": "/nonexistent", "ASAN_OPTIONS": "detect_leaks=0"}
    r = subprocess.run([G.build_scanner(b), exp_abs], cwd=wd, env=env, capture_output=True, timeout=timeout)
    os.utime(exp_abs, (st.st_atime, st.st_mtime))
    out = r.stdout.decode("latin-1").replace(wd, "<CWD>").replace(exp_abs, "<INPUT>")
    return r.returncode, wd, out, exp_abs, r.stderr.decode("latin-1")[-300:]


def snapshot(wd, masks):
    """{relative file: bytes} with the two legitimate path strings masked"""
    snap = {}
    for f in G.tree_listing(wd):
        data = open(os.path.join(wd, f), "rb").read()
        for m, rep in masks:
            data = data.replace(m.encode(), rep)
        snap[f] = data
    return snap


def first_diff(a, b):
    if set(a) != set(b):
        return ("file-set", f"only in first {sorted(set(a)-set(b))[:4]} only in second {sorted(set(b)-set(a))[:4]}", None, None)
    for f in sorted(a):
        if a[f] != b[f]:
            la, lb = a[f].split(b"\n"), b[f].split(b"\n")
            i = next((i for i in range(min(len(la), len(lb))) if la[i] != lb[i]), min(len(la), len(lb)))
            return (f, f"line {i+1}", la[i:i+1], lb[i:i+1])
    return None


def classify(tool, d):
    f, where, la, lb = d
    if la and lb:
        sa, sb = la[0].decode("latin-1"), lb[0].decode("latin-1")
        if re.search(r"SetBound[12]\( -?\d+ \)", sa) and re.sub(r"-?\d+", "N", sa) == re.sub(r"-?\d+", "N", sb):
            return f"{tool}:SetBound-pointer"
        pat = re.sub(r"\d+", "N", re.sub(r"[A-Za-z_][A-Za-z0-9_]*", "w", sa))[:60]
        return f"{tool}:line:{pat}"
    return f"{tool}:{f if f == 'file-set' else 'length'}"


# ---------------------------------------------------------------- model predictions
def predictions(ctx, b, model_exe, gen_file, exp_abs, snap):
    """compare the numbers/orders the model predicts with the real exp2cxx output; -> list of disagreements"""
    dis = []
    lines, meta = ["rule"], [None]
    for s in gen_file.schemas:
        up = s.name.upper()
        init = snap.get(f"Sdai{up}.init.cc", b"").decode("latin-1")
        for t in s.types():
            if isinstance(t.body, SG.TAgg) and t.body.lo is not None:
                for nr, bd in ((1, t.body.lo), (2, t.body.hi)):
                    shape = {"lit": "lit", "inf": "inf", "neg": "neglit", "arith": "op", "const": "ident", "attr": "ident",
                             "derived": "ident", "self": "runtime", "funcall": "funcall",
                             "negconst": "op", "negattr": "op", "negderived": "op"}[bd.shape]
                    txt = str(bd.value) if shape == "lit" else ("x" if shape == "inf" else bd.text().lstrip("-") if shape == "neglit" else bd.text())
                    lines.append(f"bound {nr} {s.name}::t_{t.name} Sdai{s.name.capitalize()} {t.name} {shape} {txt.encode().hex()}")
                    meta.append((s, t, nr, bd, init))
        keys = [k for _, k, _ in s.symbol_keys()]
        lines.append("order " + " ".join(keys))
        meta.append(("order", s))
    rc, out, err = G.run_driver(model_exe, lines)
    if rc != 0 or len(out) != len(lines):
        return [f"model driver rc={rc} {len(out)}/{len(lines)} {err[-200:]}"]
    rule = out[0][2:]
    for o, m in zip(out[1:], meta[1:]):
        if m[0] == "order":
            s = m[1]
            up = s.name.upper()
            pred = [k for k in o[2:].split()]
            enum_first = [t for k in pred for t in s.types() if t.name == k and t.kind == "enumeration_" and not t.has_head]
            uni = snap.get(f"Sdai{up}_unity_types.cc", b"").decode("latin-1")
            real = re.findall(r'#include "type/(\w+)\.cc"', uni)
            want = ["Sdai" + t.name[0].upper() + t.name[1:] + "_var" for t in enum_first]
            if real[:len(want)] != want and f"Sdai{up}_unity_types.cc" in snap:
                dis.append(f"emission order of enumerations in Sdai{up}_unity_types.cc: real {real[:len(want)][:6]} vs predicted (DICTdo order) {want[:6]}")
            ctx.hist("predictions", "enum emission order")
            continue
        s, t, nr, bd, init = m
        rl = [l for l in init.split("\n") if f"{s.name}::t_{t.name}->SetBound{nr}" in l]
        if o == "bad-op":
            dis.append(f"model rejected bound request for {t.name}")
        elif o == "B AMBIENT":
            ctx.hist("predictions", f"bound:{bd.shape} -> ambient-dependent under rule {rule} (no prediction)")
        else:
            want = bytes.fromhex(o[2:]).decode()
            ctx.hist("predictions", f"bound:{bd.shape} -> predicted line")
            if not rl:
                if f"Sdai{s.name.upper()}.init.cc" in snap:
                    dis.append(f"no SetBound{nr} line for type {t.name} in the real output, model predicts {want.strip()!r}")
            elif (bd.shape in ("funcall", "arith", "const", "negconst", "negattr", "negderived") and rule != "legacy") or (bd.shape == "neg" and rule == "literalOnly") or bd.shape == "funcall":
                # the text is EXPRto_string's rendering: compare modulo blanks (the pretty printer's spacing is C07's subject)
                if re.sub(r"\s+", "", rl[0]).lower() != re.sub(r"\s+", "", want).lower():
                    dis.append(f"type {t.name} bound {nr}: real {rl[0].strip()!r} vs model {want.strip()!r}")
            elif rl[0] + "\n" != want:
                dis.append(f"type {t.name} bound {nr} ({bd.shape}): real {rl[0].strip()!r} vs model {want.strip()!r}")
    return dis


# ---------------------------------------------------------------- one input file
def examine(ctx, b, name, text, exp_src, cfgs, idx, gen_file=None, model_exe=None, tools=TOOLS):
    root = os.path.join(ctx.work, f"d{idx}")
    os.makedirs(os.path.join(root, "in", "sch"))
    exp_abs = os.path.join(root, "in", "sch", "input_schema.exp")
    if text is not None:
        open(exp_abs, "w").write(text)
    else:
        shutil.copy(exp_src, exp_abs)
    for tool in tools:
        ref = None
        for cfg in cfgs:
            rc, wd, out, path, err = run_tool(b, tool, exp_abs, root, cfg)
            snap = snapshot(wd, [(wd, b"<CWD>"), (path, b"<INPUT>")]) if rc == 0 else {}
            ctx.count(1, key=(name, tool, cfg.name))
            ctx.hist("runs", f"{tool}/{cfg.name}")
            ctx.hist("exit", f"{tool} rc={rc}")
            if ref is None:
                ref = (rc, snap, out, cfg)
                if tool == "exp2cxx" and rc == 0 and gen_file is not None and model_exe:
                    for d in predictions(ctx, b, model_exe, gen_file, exp_abs, snap):
                        ctx._disagree.append((name, d))
                continue
            what = None
            if rc != ref[0]:
                what, key = f"exit status {ref[0]} under {ref[3].name} but {rc} under {cfg.name}", f"{tool}:exit-status"
            elif rc == 0:
                d = first_diff(ref[1], snap)
                if d is None and out != ref[2]:
                    d = ("<stdout>", "stdout", [ref[2][:200].encode()], [out[:200].encode()])
                if d is not None:
                    key = classify(tool, d)
                    what = (f"output of {tool} differs between configuration {ref[3].name} and {cfg.name}: {d[0]} {d[1]}: "
                            f"{(d[2] or [b''])[0][:160]!r} vs {(d[3] or [b''])[0][:160]!r}")
            if what:
                ctx.violation(key, f"[{name}] {what}",
                              {"express": text if text is not None else f"<shipped file {exp_src}>", "tool": tool,
                               "configurations": [vars(ref[3]), vars(cfg)],
                               "how": "run the tool twice on the file in two empty directories under the two configurations and `diff -r`"})
                break
    shutil.rmtree(root, ignore_errors=True)


def run(ctx):
    quick = ctx.tier == "quick"
    ctx._disagree = []
    ctx.trusted += [
        "tools/extract.d/genbound.py (recognises the two shapes of AGGRprint_bound; anything else = broken tie)",
        "hand-written models lean/StepModel/GenDeterm.lean (AGGRprint_bound, union reads, Ambient) and ExpressHash.lean (hash.c, dict.c); "
        "modelled, tied by the predicted-line / predicted-order comparison and (for the hash order) byte comparison of the scanner output in C17",
        "the differential matrix (what it does not vary is not observed): ASLR, cwd, absolute/relative path, environment size, LC_ALL, a previous run's output in place",
    ]
    ctx.assumptions += [
        "PARTIAL: non-interference is proved for the modelled data paths only; absence of other ambient dependencies in the ~30k lines of the "
        "generators is established by differential testing, not by proof",
        "the working directory and the path naming the input are masked where they legitimately appear (scanner stdout, SCHEMA_TARGETS(\"<input>\"), tool messages)",
        "exp2python currently aborts on entities with attributes (defect handled under C18): a consistent abort (same exit status under every configuration) is tolerated and its partial output is not compared",
    ]
    ctx.cov["partial"].append({"theorem": "C12_bound_legacy_partial / C12_bound_current",
                               "excluded": "under the legacy rule: bounds that are resolved identifiers (constants, attributes, derived attributes) — there the output does depend on an address (C12_bound_legacy_witness)"})
    ctx.lean("StepModel.Props.C12", exes=["m_c12"], extractors=["genbound", "scanner", "exphash"])
    b = ctx.build("plain")
    model_exe = ctx.model_exe("m_c12")
    if not os.path.exists(model_exe):
        return
    setarch = have_setarch()
    ctx.hist("matrix", "setarch -R available" if setarch else "setarch -R NOT available (ASLR-off runs skipped)")
    cfgs = configs(quick, setarch)
    idx = 0
    # corpus / fixed inputs first: the confirmed defect (DESIGN §6 row 9) on a minimal schema
    fixed = [("min-nonliteral-bound", MIN_BOUND), ("all-bound-shapes-text", ALL_BOUNDS), ("non-ascii-strings-near-line-limit", non_ascii_strings_schema())]
    for p in sorted(glob.glob(os.path.join(VERIF, "corpus", "C12", "*.exp"))):
        fixed.append(("corpus:" + os.path.basename(p), open(p).read()))
    for name, text in fixed:
        examine(ctx, b, name, text, None, cfgs, idx, tools=TOOLS); idx += 1
    allb = SG.every_bound_shape_schema()
    examine(ctx, b, "every-bound-shape", allb.text(), None, cfgs, idx, gen_file=allb, model_exe=model_exe); idx += 1
    allk = SG.every_type_kind_schema()
    examine(ctx, b, "all-type-kinds", allk.text(), None, cfgs, idx, gen_file=allk, model_exe=model_exe); idx += 1
    n_gen = 8 if quick else 100
    for i in range(n_gen):
        r = ctx.rng
        g = SG.Gen(r, mixed_case=r.choice([0, 0.4]), p_nonliteral_bound=r.choice([0.0, 0.3, 0.6]), p_negated_ref=0.5)
        f = g.schema_file(nschemas=r.choice([1, 1, 2]))
        for ft in f.features():
            if ft.startswith(("bound:", "multi")):
                ctx.hist("features", ft)
        examine(ctx, b, f"gen-{ctx.seed}-{i}", f.text(), None, cfgs, idx, gen_file=f, model_exe=model_exe); idx += 1
        if i == 0:
            ctx.sample({"input": f"gen-{ctx.seed}-0", "express_head": f.text()[:500]})
    data = sorted(glob.glob(os.path.join(b.src, "data", "*", "*.exp")), key=os.path.getsize)
    unit = sorted(glob.glob(os.path.join(b.src, "test", "unitary_schemas", "*.exp")))
    shipped = (unit[:4] + data[:1]) if quick else (unit + data)
    for p in shipped:
        if "fail_" in os.path.basename(p):
            continue
        examine(ctx, b, "shipped:" + os.path.relpath(p, b.src), None, p, cfgs if os.path.getsize(p) < 2_000_000 else cfgs[:3], idx); idx += 1
    ctx.cov["correspondence"]["model predictions vs exp2cxx"] = {"disagreements": len(ctx._disagree)}
    ctx.cov["rule"] = (f"{len(cfgs)} configurations ({', '.join(c.name for c in cfgs)}) x {len(TOOLS)} tools per input; whole output trees byte-compared "
                       "against the base configuration; inputs: minimal non-literal-bound schema, every bound shape, every type kind, generated schemas "
                       "(1-2 schemas per file, with and without non-literal bounds), shipped schemas (quick: small ones)")
    ctx.sample({"configurations": [vars(c) for c in cfgs]})
    for name, d in ctx._disagree[:1]:
        ctx.broken.append(("correspondence GenDeterm/ExpressHash model vs exp2cxx output", f"[{name}] {d}"))


def replay(ctx, path):
    d = json.load(open(path))
    r = d.get("replay", d)
    ctx._disagree = []
    ctx.lean("StepModel.Props.C12", exes=["m_c12"], extractors=["genbound", "scanner", "exphash"])
    b = ctx.build("plain")
    cfgs = [Config(**{k: v for k, v in c.items()}) for c in r["configurations"]]
    if r["express"].startswith("<shipped file"):
        examine(ctx, b, "replay", None, r["express"][len("<shipped file "):-1], cfgs, 0, tools=[r["tool"]])
    else:
        examine(ctx, b, "replay", r["express"], None, cfgs, 0, tools=[r["tool"]])

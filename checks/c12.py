"""C12 — generators and the pretty printer are deterministic functions of their input.   (level: PARTIAL by nature)

proof:           lean/StepModel/Props/C12.lean over GenDeterm.lean / ExpressHash.lean: non-interference with an explicit
                 `Ambient` for the modelled data paths (AGGRprint_bound's union read under the rule found in the tree,
                 hash-table iteration order as a function of the key strings only, the scanner's stdout prefix)
regenerated tie: tools/extract.d/genbound.py (which bounds AGGRprint_bound prints as numbers; ALLOC_new zeroing;
                 LITERAL_INFINITY), tools/extract.d/scanner.py (shared with C17)
correspondence:  predicted SetBound lines of defined aggregate types and predicted DICTdo order (first-pass enumeration order
                 in the unity type file) vs the real exp2cxx output — lean exe m_c12
oracle:          the statement itself: every tool run under a matrix of ambient configurations on the same file must
                 produce byte-identical output trees (and the same exit status).  This differential part is TESTING; it
                 is what covers the ambient dependencies the model does not contain.
"""
import filecmp, glob, hashlib, json, os, platform, re, shutil, subprocess, time
from vlib import build as B, gentools as G, schema_gen as SG

LEVEL = "partial"
VERIF = os.path.dirname(os.path.dirname(os.path.abspath(__file__)))

MIN_BOUND = """SCHEMA bnd;
CONSTANT
  kk : INTEGER := 7;
END_CONSTANT;
TYPE t_const = LIST [1:kk] OF INTEGER;
END_TYPE;
ENTITY e1;
  n : INTEGER;
  a : ARRAY [0:n] OF REAL;
END_ENTITY;
END_SCHEMA;
"""
# every bound shape exp2cxx distinguishes (the derived-attribute case is the shipped b_spline_curve one)
ALL_BOUNDS = """SCHEMA bnds;
CONSTANT
  kk : INTEGER := 7;
END_CONSTANT;
TYPE t_lit = ARRAY [1:3] OF INTEGER; END_TYPE;
TYPE t_fun = LIST [1:ff(2)] OF INTEGER; END_TYPE;
TYPE t_expr = LIST [1:2+3] OF INTEGER; END_TYPE;
TYPE t_neg = ARRAY [-2:3] OF INTEGER; END_TYPE;
TYPE t_inf = LIST [0:?] OF INTEGER; END_TYPE;
ENTITY e0;
  n : INTEGER;
END_ENTITY;
ENTITY e1 SUBTYPE OF (e0);
  m : INTEGER;
  a_lit : ARRAY [0:4] OF REAL;
  a_self : ARRAY [1:SELF\\e0.n] OF REAL;
  a_fun : LIST [ff(1):?] OF REAL;
  a_expr : LIST [1:m+1] OF REAL;
END_ENTITY;
FUNCTION ff(x : INTEGER) : INTEGER;
  RETURN (x);
END_FUNCTION;
END_SCHEMA;
"""


COPIED_TEXT = """SCHEMA copied_text;
(* a remark before the first declaration *)
CONSTANT
  limit : INTEGER := 100;
END_CONSTANT;

TYPE percentage = REAL;
WHERE
  ( 0.0 <= SELF ) AND ( SELF <= 100.0 );
END_TYPE;

TYPE label = STRING;
WHERE
  wr_not_empty : LENGTH( SELF ) > 0;
END_TYPE;

TYPE kind = ENUMERATION OF (plain, fancy);
END_TYPE;

ENTITY tank;
  name     : label;   -- a tail remark
  capacity : REAL;
  level    : REAL;
  fill     : percentage;
DERIVE
  free     : REAL := capacity - level;
  full     : BOOLEAN := fill >= 99.5;
UNIQUE
  ur_name  : name;
  capacity, level;
WHERE
  capacity > 0.0;
  wr_level : ( 0.0 <= level ) AND ( level <= capacity );
  fill * capacity <= limit * level + 0.5;
END_ENTITY;

ENTITY pipe
  SUBTYPE OF (connector);
  from_tank : tank;
  to_tank   : tank;
WHERE
  from_tank :<>: to_tank;
END_ENTITY;

ENTITY connector
  ABSTRACT SUPERTYPE;
  style : kind;
WHERE
  (* an embedded remark inside a WHERE clause *) style IN [plain, fancy];
END_ENTITY;

FUNCTION headroom( t : tank ) : REAL;
  LOCAL
    r : REAL := 0.0;
  END_LOCAL;
  (* a remark in a function body *)
  IF t.capacity > t.level THEN
    r := t.capacity - t.level;
  END_IF;
  RETURN( r );
END_FUNCTION;

RULE tanks_have_room FOR (tank);
WHERE
  SIZEOF( QUERY( t <* tank | headroom( t ) < 0.0 ) ) = 0;
  wr_named : SIZEOF( QUERY( t <* tank | LENGTH( t.name ) = 0 ) ) = 0;
END_RULE;

END_SCHEMA;
"""

SELF_CONTAINING_SELECT = """SCHEMA recursive_values;
TYPE setting_value = SELECT (simple_value, setting_value_list);
END_TYPE;
TYPE setting_value_list = LIST [0:?] OF setting_value;
END_TYPE;
TYPE simple_value = SELECT (count_value, text_value);
END_TYPE;
TYPE count_value = INTEGER;
END_TYPE;
TYPE text_value = STRING;
END_TYPE;
ENTITY setting;
  name : STRING;
  val  : setting_value;
END_ENTITY;
END_SCHEMA;
"""


def non_ascii_strings_schema():
    """string literals with multibyte UTF-8 characters whose byte length / character length straddle the pretty printer's
    line limit (exppp -l, default 130): every character count from 30 to 80 (60..160 bytes), plus mixed ASCII/non-ASCII"""
    l = ["SCHEMA non_ascii_notes;", "CONSTANT"]
    for n in range(30, 81):
        l.append(f"  note_{n} : STRING := '" + ("\u00e4\u00f6\u00fc\u00df" * 25)[:n] + "';")
    for n in range(60, 125, 4):
        l.append(f"  mixed_{n} : STRING := '" + ("Pr\u00fcfma\u00df \u00fcberschritten: \u00e4u\u00dfere Ma\u00dfe (L\u00e4nge, H\u00f6he) gem\u00e4\u00df Pr\u00fcfvorschrift f\u00fcr Zubeh\u00f6rteile " * 3)[:n].rstrip() + "';")
    l += ["END_CONSTANT;", "ENTITY inspection;", "  part_name : STRING;", "  note : OPTIONAL STRING;", "WHERE",
          "  wr1 : note <> '" + "\u00e9" * 58 + "';", "END_ENTITY;", "END_SCHEMA;", ""]
    return "\n".join(l)


def have_setarch():
    try:
        return subprocess.run(["setarch", platform.machine(), "-R", "true"], capture_output=True).returncode == 0
    except OSError:
        return False


class Config:
    def __init__(self, name, aslr=True, cwd="a", relative=False, big_env=False, locale="C", reuse=False, history=False, path_shape=None):
        # path_shape: the same file content reached by another path: long250 / long1000 (nested directories), dotdot
        # (`.` and `..` segments), symlink (through a symlinked directory), spaces (directory names with blanks)
        self.path_shape = path_shape
        self.name, self.aslr, self.cwd, self.relative, self.big_env, self.locale, self.reuse = name, aslr, cwd, relative, big_env, locale, reuse
        # history: an earlier run on ANOTHER revision of the file (one more entity) left its output in the directory, and the
        # file then got its content back with an older modification time; only for tools that overwrite everything they
        # report (schema_scanner) — exp2cxx & co. never delete files of entities that no longer exist
        self.history = history


def configs(quick, setarch):
    base = Config("base")
    if quick:
        return [base, Config("repeat"),
                Config("all-varied", aslr=not setarch, cwd="bb/deeper/dir", relative=True, big_env=True, locale="C.UTF-8"),
                Config("over-previous-run", reuse=True), Config("after-other-revision", history=True),
                Config("long-path-250", path_shape="long250"), Config("long-path-1000-relative", path_shape="long1000", relative=True),
                Config("dotdot-symlink", path_shape="dotdot-symlink"), Config("dotdot-symlink-relative", path_shape="dotdot-symlink", relative=True),
                Config("spaces-in-path", path_shape="spaces", cwd="dir with blanks/b")]
    cs = [base, Config("repeat"), Config("repeat2"), Config("cwd", cwd="bb/deeper/dir"), Config("relative-path", relative=True),
          Config("huge-env", big_env=True), Config("utf8-locale", locale="C.UTF-8"), Config("over-previous-run", reuse=True),
          Config("all-varied", cwd="cc", relative=True, big_env=True, locale="C.UTF-8"), Config("after-other-revision", history=True),
          Config("lang-utf8", locale="LANG=C.UTF-8"),
          Config("long-path-250", path_shape="long250"), Config("long-path-1000", path_shape="long1000"),
          Config("long-path-1000-relative", path_shape="long1000", relative=True), Config("dotdot", path_shape="dotdot"),
          Config("symlink", path_shape="symlink"), Config("dotdot-symlink-relative", path_shape="dotdot-symlink", relative=True),
          Config("spaces-in-path", path_shape="spaces", cwd="dir with blanks/b")]
    if setarch:
        cs += [Config("no-aslr", aslr=False), Config("no-aslr-2", aslr=False)]
    return cs


TOOLS = ["exp2cxx", "exp2python", "exppp", "schema_scanner"]
MUST_BE_ACCEPTED = {"copied-text", "self-containing-select", "min-nonliteral-bound", "all-bound-shapes-text"}


def cfg_dict(c):
    return dict(name=c.name, aslr=c.aslr, cwd=c.cwd, relative=c.relative, big_env=c.big_env, locale=c.locale, reuse=c.reuse,
                history=c.history, path_shape=c.path_shape)


def run_tool(b, tool, exp_abs, root, cfg, timeout=600):
    """-> (rc, outdir, stdout_masked).  Output tree = everything the tool leaves in its working directory."""
    if cfg.history:
        return run_history(b, tool, exp_abs, root, cfg, timeout)
    wd = os.path.join(root, tool, cfg.cwd if not cfg.reuse else "reuse")
    if cfg.reuse and not os.path.isdir(wd):
        os.makedirs(wd)
        run_tool(b, tool, exp_abs, root, Config("warmup", cwd="reuse"))   # an earlier run whose output stays in place
        wd = os.path.join(root, tool, "reuse")
    elif not cfg.reuse:
        shutil.rmtree(wd, ignore_errors=True)
        os.makedirs(wd)
    exp_abs = shaped_path(exp_abs, root, cfg.path_shape)
    path = relative_to(exp_abs, wd) if cfg.relative else exp_abs
    env = {"PATH": "/usr/bin:/bin", "LD_LIBRARY_PATH": b.lib, "HOME": "/nonexistent",
           "ASAN_OPTIONS": "detect_leaks=0", "UBSAN_OPTIONS": "print_stacktrace=1"}
    if cfg.locale.startswith("LANG="):
        env["LANG"] = cfg.locale[5:]        # LC_ALL unset: the locale comes from LANG
    else:
        env["LC_ALL"] = cfg.locale
    if cfg.big_env:
        for i in range(150):
            env[f"VERIF_FILLER_{i}"] = ENV_MARK * 40
    exe = G.build_scanner(b) if tool == "schema_scanner" else b.tool(tool)
    cmd = [exe, path]
    if not cfg.aslr:
        cmd = ["setarch", platform.machine(), "-R"] + cmd
    # small inputs take milliseconds; a tool that needs more than the limit is recorded as non-terminating (rc "timeout")
    limit = timeout if os.path.getsize(exp_abs) > 200_000 else 20
    try:
        r = subprocess.run(cmd, cwd=wd, env=env, capture_output=True, timeout=limit)
    except subprocess.TimeoutExpired:
        return "timeout", wd, "", path, f"killed after {limit} s without terminating"
    out = r.stdout.decode("latin-1")
    # the working directory and the path by which the file was named legitimately appear in the scanner's stdout
    # and in SCHEMA_TARGETS("<input>") / messages: mask exactly these two strings
    out = out.replace(wd, "<CWD>").replace(path, "<INPUT>")
    return r.returncode, wd, out, path, r.stderr.decode("latin-1")[-300:]


def relative_to(path, wd):
    """a relative spelling of `path` as seen from `wd` that keeps its `.`/`..`/symlink segments as they are.
    os.path.relpath must not be used on the whole path: it collapses `<symlink>/..` lexically, which names a different
    (here: nonexistent) file, because the kernel resolves `..` against the link's target.  Only the leading part that
    is free of such segments is made relative; the rest is appended untouched."""
    parts = path.split("/")
    cut = next((i for i, c in enumerate(parts) if c in (".", "..") or os.path.islink("/".join(parts[:i + 1]) or "/")), len(parts))
    head, tail = "/".join(parts[:cut]) or "/", parts[cut:]
    return os.path.join(os.path.relpath(head, wd), *tail)


ENV_MARK = "VerifEnvValueMarker"
HOME_VALUE = "/nonexistent"


def shaped_path(exp_abs, root, shape):
    """another path to a file with the same content and the same base name (the scanner's short name depends on the base
    name and on a `data/` directory, neither of which is varied)"""
    if not shape:
        return exp_abs
    base = os.path.basename(exp_abs)
    src_dir = os.path.dirname(exp_abs)
    if shape in ("long250", "long1000"):
        want = 260 if shape == "long250" else 1040
        d = os.path.join(root, "p")
        i = 0
        while len(os.path.join(d, base)) < want:
            d = os.path.join(d, f"nested_directory_level_{i:03d}_" + "n" * 60)
            i += 1
        os.makedirs(d, exist_ok=True)
        dst = os.path.join(d, base)
    elif shape == "spaces":
        d = os.path.join(root, "p", "a dir with blanks", "and (parentheses) + plus")
        os.makedirs(d, exist_ok=True)
        dst = os.path.join(d, base)
    elif shape in ("dotdot", "symlink", "dotdot-symlink"):
        link = os.path.join(root, "p", "link_to_schema_dir")
        os.makedirs(os.path.dirname(link), exist_ok=True)
        if not os.path.islink(link):
            os.symlink(src_dir, link)
        d = link if "symlink" in shape else src_dir
        if "dotdot" in shape:
            # `<link>/..` is the parent of the link's *target*, so the way back down is the real directory name in both cases
            return os.path.join(d, "..", os.path.basename(src_dir), ".", base)
        return os.path.join(d, base)
    else:
        raise ValueError(shape)
    if not os.path.exists(dst):
        shutil.copy(exp_abs, dst)
    return dst


def leaks(tool, snap, path, wd, exp_abs):
    """"no generated file contains a … name that is not a function of the schema text": the path naming the input (as typed and
    absolute), the working directory, $HOME and environment values must not occur in any generated file.  (The one
    legitimate place — SCHEMA_TARGETS("<input>" …) in the scanner's CMakeLists.txt — is masked by snapshot().)"""
    needles = [("the input path as typed", path), ("the absolute input path", os.path.abspath(os.path.join(wd, path))), ("the real input path", os.path.realpath(exp_abs)),
               ("the working directory", wd), ("$HOME", HOME_VALUE), ("an environment value", ENV_MARK)]
    for f, data in snap.items():
        for what, n in needles:
            if len(n) >= 8 and n.encode() in data:
                i = data.index(n.encode())
                line = data[data.rfind(b"\n", 0, i) + 1:data.find(b"\n", i) if data.find(b"\n", i) >= 0 else len(data)]
                return f, what, line[:200]
    return None


def run_history(b, tool, exp_abs, root, cfg, timeout):
    wd = os.path.join(root, tool, "history")
    shutil.rmtree(wd, ignore_errors=True)
    os.makedirs(wd)
    if tool != "schema_scanner":
        return run_tool(b, tool, exp_abs, root, Config(cfg.name, cwd="history"), timeout)
    text = open(exp_abs, encoding="latin-1").read()
    m = re.search(r"(?im)^\s*END_SCHEMA\s*;", text)
    st = os.stat(exp_abs)
    try:
        if m:
            open(exp_abs, "w", encoding="latin-1").write(text[:m.start()] + "ENTITY zz_history_probe_entity;\n  zz_probe_attr : INTEGER;\nEND_ENTITY;\n" + text[m.start():])
            run_tool(b, tool, exp_abs, root, Config("other-revision", cwd="history-tmp"))
            shutil.rmtree(wd); shutil.move(os.path.join(root, tool, "history-tmp"), wd)
    finally:
        open(exp_abs, "w", encoding="latin-1").write(text)
        os.utime(exp_abs, (1_577_836_800, 1_577_836_800))
    env = {"PATH": "/usr/bin:/bin", "LD_LIBRARY_PATH": b.lib, "LC_ALL": "C", "HOME": "/nonexistent", "ASAN_OPTIONS": "detect_leaks=0"}
    try:
        r = subprocess.run([G.build_scanner(b), exp_abs], cwd=wd, env=env, capture_output=True, timeout=timeout)
    except subprocess.TimeoutExpired:
        os.utime(exp_abs, (st.st_atime, st.st_mtime))
        return "timeout", wd, "", exp_abs, "killed without terminating"
    os.utime(exp_abs, (st.st_atime, st.st_mtime))
    out = r.stdout.decode("latin-1").replace(wd, "<CWD>").replace(exp_abs, "<INPUT>")
    return r.returncode, wd, out, exp_abs, r.stderr.decode("latin-1")[-300:]


def snapshot(wd, masks=None):
    """{relative file: bytes}; the only thing masked is the one place the input path legitimately appears in an output
    file: the first argument of SCHEMA_TARGETS("<input>" "<schema>" in the scanner's CMakeLists.txt"""
    snap = {}
    for f in G.tree_listing(wd):
        data = open(os.path.join(wd, f), "rb").read()
        if os.path.basename(f) == "CMakeLists.txt":
            data = re.sub(rb'^SCHEMA_TARGETS\("[^"\n]*" ', b'SCHEMA_TARGETS("<INPUT>" ', data, flags=re.M)
        snap[f] = data
    return snap


def first_diff(a, b):
    if set(a) != set(b):
        return ("file-set", f"only in first {sorted(set(a)-set(b))[:4]} only in second {sorted(set(b)-set(a))[:4]}", None, None)
    for f in sorted(a):
        if a[f] != b[f]:
            la, lb = a[f].split(b"\n"), b[f].split(b"\n")
            i = next((i for i in range(min(len(la), len(lb))) if la[i] != lb[i]), min(len(la), len(lb)))
            return (f, f"line {i+1}", la[i:i+1], lb[i:i+1])
    return None


def classify(tool, d):
    f, where, la, lb = d
    if la and lb:
        sa, sb = la[0].decode("latin-1"), lb[0].decode("latin-1")
        if re.search(r"SetBound[12]\( -?\d+ \)", sa) and re.sub(r"-?\d+", "N", sa) == re.sub(r"-?\d+", "N", sb):
            return f"{tool}:SetBound-pointer"
        pat = re.sub(r"\d+", "N", re.sub(r"[A-Za-z_][A-Za-z0-9_]*", "w", sa))[:60]
        return f"{tool}:line:{pat}"
    return f"{tool}:{f if f == 'file-set' else 'length'}"


# ---------------------------------------------------------------- model predictions
def predictions(ctx, b, model_exe, gen_file, exp_abs, snap):
    """compare the numbers/orders the model predicts with the real exp2cxx output; -> list of disagreements"""
    dis = []
    lines, meta = ["rule"], [None]
    for s in gen_file.schemas:
        up = s.name.upper()
        init = snap.get(f"Sdai{up}.init.cc", b"").decode("latin-1")
        for t in s.types():
            if isinstance(t.body, SG.TAgg) and t.body.lo is not None:
                for nr, bd in ((1, t.body.lo), (2, t.body.hi)):
                    shape = {"lit": "lit", "inf": "inf", "neg": "neglit", "arith": "op", "const": "ident", "attr": "ident",
                             "derived": "ident", "self": "runtime", "funcall": "funcall",
                             "negconst": "op", "negattr": "op", "negderived": "op"}[bd.shape]
                    txt = str(bd.value) if shape == "lit" else ("x" if shape == "inf" else bd.text().lstrip("-") if shape == "neglit" else bd.text())
                    lines.append(f"bound {nr} {s.name}::t_{t.name} Sdai{s.name.capitalize()} {t.name} {shape} {txt.encode().hex()}")
                    meta.append((s, t, nr, bd, init))
        keys = [k for _, k, _ in s.symbol_keys()]
        lines.append("order " + " ".join(keys))
        meta.append(("order", s))
    rc, out, err = G.run_driver(model_exe, lines)
    if rc != 0 or len(out) != len(lines):
        return [f"model driver rc={rc} {len(out)}/{len(lines)} {err[-200:]}"]
    rule = out[0][2:]
    for o, m in zip(out[1:], meta[1:]):
        if m[0] == "order":
            s = m[1]
            up = s.name.upper()
            pred = [k for k in o[2:].split()]
            enum_first = [t for k in pred for t in s.types() if t.name == k and t.kind == "enumeration_" and not t.has_head]
            uni = snap.get(f"Sdai{up}_unity_types.cc", b"").decode("latin-1")
            real = re.findall(r'#include "type/(\w+)\.cc"', uni)
            want = ["Sdai" + t.name[0].upper() + t.name[1:] + "_var" for t in enum_first]
            if real[:len(want)] != want and f"Sdai{up}_unity_types.cc" in snap:
                dis.append(f"emission order of enumerations in Sdai{up}_unity_types.cc: real {real[:len(want)][:6]} vs predicted (DICTdo order) {want[:6]}")
            ctx.hist("predictions", "enum emission order")
            continue
        s, t, nr, bd, init = m
        rl = [l for l in init.split("\n") if f"{s.name}::t_{t.name}->SetBound{nr}" in l]
        if o == "bad-op":
            dis.append(f"model rejected bound request for {t.name}")
        elif o == "B AMBIENT":
            ctx.hist("predictions", f"bound:{bd.shape} -> ambient-dependent under rule {rule} (no prediction)")
        else:
            want = bytes.fromhex(o[2:]).decode()
            ctx.hist("predictions", f"bound:{bd.shape} -> predicted line")
            if not rl:
                if f"Sdai{s.name.upper()}.init.cc" in snap:
                    dis.append(f"no SetBound{nr} line for type {t.name} in the real output, model predicts {want.strip()!r}")
            elif (bd.shape in ("funcall", "arith", "const", "negconst", "negattr", "negderived") and rule != "legacy") or (bd.shape == "neg" and rule == "literalOnly") or bd.shape == "funcall":
                # the text is EXPRto_string's rendering: compare modulo blanks (the pretty printer's spacing is C07's subject)
                if re.sub(r"\s+", "", rl[0]).lower() != re.sub(r"\s+", "", want).lower():
                    dis.append(f"type {t.name} bound {nr}: real {rl[0].strip()!r} vs model {want.strip()!r}")
            elif rl[0] + "\n" != want:
                dis.append(f"type {t.name} bound {nr} ({bd.shape}): real {rl[0].strip()!r} vs model {want.strip()!r}")
    return dis


def section_predictions(ctx, b, model_exe, f, root):
    """the order in which exppp prints the types / entities / functions / procedures / rules of each schema vs the model
    (`sectionOrder`: DICTdo walk + SCOPEadd_inorder under the regenerated default of exppp_alphabetize)"""
    dis = []
    exp = os.path.join(root, "sections.exp")
    wd = os.path.join(root, "sections")
    os.makedirs(wd)
    open(exp, "w").write(f.text())
    r = subprocess.run([b.tool("exppp"), exp], cwd=wd, env=b.env(), capture_output=True)
    if r.returncode != 0:
        return dis
    for s in f.schemas:
        p = os.path.join(wd, s.name + ".exp")
        if not os.path.exists(p):
            continue
        txt = open(p, errors="replace").read()
        txt = re.sub(r"\(\*.*?\*\)", " ", txt, flags=re.S)
        classes = {"TYPE": [d.name for d in s.decls if isinstance(d, SG.TypeDecl)],
                   "ENTITY": [d.name for d in s.decls if isinstance(d, SG.EntityDecl)],
                   "FUNCTION": [d.name for d in s.decls if isinstance(d, SG.OtherDecl) and d.what == "FUNCTION"],
                   "PROCEDURE": [d.name for d in s.decls if isinstance(d, SG.OtherDecl) and d.what == "PROCEDURE"],
                   "RULE": [d.name for d in s.decls if isinstance(d, SG.OtherDecl) and d.what == "RULE"]}
        lines, kinds = [], []
        for k, names in classes.items():
            if len(names) >= 2:
                lines.append("section " + " ".join(names)); kinds.append(k)
        if not lines:
            continue
        rc, out, err = G.run_driver(model_exe, lines)
        if rc != 0 or len(out) != len(lines) or "bad-op" in out:
            return [f"model driver on section: rc={rc} {out[:2]}"]
        for k, o in zip(kinds, out):
            real = [m.group(1).lower() for m in re.finditer(r"(?m)^\s*" + k + r"\s+(\w+)", txt)]
            pred = o[2:].split()
            ctx.hist("predictions", f"exppp order of {k} declarations")
            if real != pred:
                dis.append(f"schema {s.name}: order of {k} declarations in exppp's output {real[:8]} vs model {pred[:8]}")
    return dis


def refout_predictions(ctx, b, model_exe, f, root):
    """exppp's interface blocks (REFout): supplier groups, their order, and the items inside each group vs the model
    (`refoutGroups`: DICTdo order of usedict/refdict, grouped through a dictionary keyed by the supplier's name)"""
    dis = []
    exp = os.path.join(root, "refout.exp")
    wd = os.path.join(root, "refout")
    os.makedirs(wd)
    open(exp, "w").write(f.text())
    r = subprocess.run([b.tool("exppp"), exp], cwd=wd, env=b.env(), capture_output=True)
    if r.returncode != 0:
        return dis
    for c in f.schemas:
        if not (c.uses or c.references):
            continue
        p = os.path.join(wd, c.name + ".exp")
        if not os.path.exists(p):
            continue
        txt = open(p, errors="replace").read()
        use, ref = [], []
        for o, ds in c.uses.items():
            for d, a in ds:
                use.append((a or d.name, o.name, d.name + (f" AS {a}" if a else "")))
        for o, ds in c.references.items():
            for d in ds:
                a = c.ref_alias.get((o, d.name))
                ref.append((a or d.name, o.name, d.name + (f" AS {a}" if a else "")))
        lines = [("refout " + " ".join(f"{k}:{sn}:{t.encode().hex()}" for k, sn, t in L_)).strip() for L_ in (use, ref)]
        rc, out, err = G.run_driver(model_exe, lines)
        if rc != 0 or len(out) != 2 or "bad-op" in out:
            return [f"model driver on refout: rc={rc} {out[:2]}"]
        for kind, o, decl in (("USE", out[0], use), ("REFERENCE", out[1], ref)):
            pred = [(g.split(": ")[0], g.split(": ")[1].split(", ")) for g in o[2:].split(" | ") if ": " in g]
            real = [(m.group(1), [re.sub(r"\s+", " ", x.strip()) for x in m.group(2).split(",")])
                    for m in re.finditer(kind + r" FROM (\w+)\s*\(\s*(.*?)\);", txt, re.S)]
            ctx.hist("predictions", f"exppp {kind} groups and items")
            if pred != real:
                dis.append(f"schema {c.name}: {kind} FROM blocks of exppp {real} vs model {pred}")
            textual = [t for _, _, t in decl]
            if [x for _, its in real for x in its] != textual:
                ctx.hist("predictions", f"exppp {kind} items come in hash order, not in the order of the source text")
    return dis


# ---------------------------------------------------------------- one input file
def examine(ctx, b, name, text, exp_src, cfgs, idx, gen_file=None, model_exe=None, tools=TOOLS):
    root = os.path.join(ctx.work, f"d{idx}")
    os.makedirs(os.path.join(root, "in", "sch"))
    exp_abs = os.path.join(root, "in", "sch", "input_schema.exp")
    if text is not None:
        open(exp_abs, "w").write(text)
    else:
        shutil.copy(exp_src, exp_abs)
    for tool in tools:
        ref = None
        agreed = True
        for cfg in cfgs:
            rc, wd, out, path, err = run_tool(b, tool, exp_abs, root, cfg)
            snap = snapshot(wd) if rc == 0 else {}
            if rc == 0 and len(ctx.violations) < 3:
                lk = leaks(tool, snap, path, wd, exp_abs)
                if lk:
                    agreed = False
                    ctx.violation(f"{tool}:leak:{lk[1]}", f"[{name}] a file generated by {tool} contains {lk[1]}: {lk[0]}: {lk[2]!r} (configuration {cfg.name})",
                                  {"express": text if text is not None else f"<shipped file {exp_src}>", "tool": tool, "configurations": [cfg_dict(cfg), cfg_dict(cfg)],
                                   "how": "run the tool on the file and grep its output tree for the path naming the input, the working directory, $HOME and environment values"})
                    break
            ctx.count(1, key=(name, tool, cfg.name))
            ctx.hist("runs", f"{tool}/{cfg.name}")
            ctx.hist("exit", f"{tool} rc={rc}")
            if ref is None and rc == "timeout":
                # the tool does not terminate on this input under the base configuration: that is a termination defect (C06 /
                # C18 / C17 findings), not a determinism one; it is recorded and the remaining configurations are skipped
                ctx.hist("non-terminating", f"{tool} (base configuration)")
                ctx._nonterm.append({"tool": tool, "input": name, "express_head": (text or f"<shipped {exp_src}>")[:1200]})
                break
            if ref is None:
                ref = (rc, snap, out, cfg)
                if rc != 0 and name in MUST_BE_ACCEPTED and tool != "schema_scanner":
                    ctx.broken.append(("fixed input rejected", f"[{name}] {tool} rc={rc}: {err[-300:] if isinstance(err, str) else err}"))
                if tool == "exp2python" and rc == 0 and model_exe and len(ctx._disagree) < 3:
                    for d in pymodule_predictions(ctx, b, model_exe, exp_abs, snap):
                        ctx._disagree.append((name, d))
                if tool == "exp2cxx" and rc == 0 and gen_file is not None and model_exe:
                    for d in predictions(ctx, b, model_exe, gen_file, exp_abs, snap):
                        ctx._disagree.append((name, d))
                    sroot = os.path.join(root, "secpred")
                    os.makedirs(sroot, exist_ok=True)
                    for d in section_predictions(ctx, b, model_exe, gen_file, sroot):
                        ctx._disagree.append((name, d))
                continue
            what = None
            if rc != ref[0]:
                what, key = f"exit status {ref[0]} under {ref[3].name} but {rc} under {cfg.name}", f"{tool}:exit-status"
            elif rc == 0:
                d = first_diff(ref[1], snap)
                if d is None and out != ref[2]:
                    d = ("<stdout>", "stdout", [ref[2][:200].encode()], [out[:200].encode()])
                if d is not None:
                    key = classify(tool, d)
                    what = (f"output of {tool} differs between configuration {ref[3].name} and {cfg.name}: {d[0]} {d[1]}: "
                            f"{(d[2] or [b''])[0][:160]!r} vs {(d[3] or [b''])[0][:160]!r}")
            if what:
                agreed = False
                ctx.violation(key, f"[{name}] {what}",
                              {"express": text if text is not None else f"<shipped file {exp_src}>", "tool": tool,
                               "configurations": [cfg_dict(ref[3]), cfg_dict(cfg)],
                               "how": "run the tool twice on the file in two empty directories under the two configurations and `diff -r`"})
                break
        # only when the runs in empty directories agreed with each other: otherwise a difference here says nothing about the directory
        if ref is not None and ref[0] == 0 and agreed and len(ctx.violations) < 3 and os.path.getsize(exp_abs) < 200_000:
            pv = prior_state_clause(ctx, b, tool, name, text, exp_abs, root, ref[1])
            if pv:
                sname, f, detail, info = pv
                ctx.violation(f"{tool}:output-depends-on-files-left-in-the-directory",
                              f"[{name}] {tool} run in a directory prepared by [{sname}] writes {f} differently from a run in an empty directory: {detail}",
                              dict({"express": text if text is not None else f"<shipped file {exp_src}>", "tool": tool, "scenario": sname,
                                    "configurations": [cfg_dict(Config("base")), cfg_dict(Config("base"))],
                                    "how": "in ONE directory: do the first run described under first_run, then run the tool on the file (no -o); compare each file it writes with the "
                                           "same file after a run in an empty directory"}, **info))
    shutil.rmtree(root, ignore_errors=True)


def run_in(b, tool, path, wd, extra=(), limit=20):
    """run a tool in an EXISTING directory (nothing is cleaned); -> rc"""
    env = {"PATH": "/usr/bin:/bin", "LD_LIBRARY_PATH": b.lib, "LC_ALL": "C", "HOME": HOME_VALUE, "ASAN_OPTIONS": "detect_leaks=0"}
    exe = G.build_scanner(b) if tool == "schema_scanner" else b.tool(tool)
    try:
        return subprocess.run([exe] + list(extra) + [path], cwd=wd, env=env, capture_output=True, timeout=limit).returncode
    except subprocess.TimeoutExpired:
        return "timeout"


LONGER_REVISION = ("ENTITY zz_earlier_revision_entity;\n" + "".join(f"  zz_attr_{i:02d} : OPTIONAL LIST [0:?] OF STRING;\n" for i in range(24)) + "END_ENTITY;\n")
PRIOR_OPTIONS = {"exppp": [["-l", "40"], ["-t"]],      # a first run with other options (shorter lines / tail comments = longer output)
                 "exp2cxx": [["-L"], ["-a"]], "exp2python": [["-S"]]}


def prior_state_clause(ctx, b, tool, name, text, exp_abs, root, ref_snap):
    """"independent of … the order of earlier runs": whatever an earlier run (or anything else) left in the working
    directory under the names the tool writes, every file the tool writes must have exactly the bytes it has after a
    run in an empty directory.  Scenarios: an earlier run on a LONGER revision of the same schema(s); an earlier run with
    other options; pre-existing files with the output names that are longer / shorter / read-only.  (Files of
    declarations that only the earlier revision had are left over by design — the generators do not clean — and are not
    compared.)  -> None or (scenario, file, detail, extra replay info)"""
    src = open(exp_abs, encoding="latin-1").read()
    m = re.search(r"(?im)^\s*END_SCHEMA\s*;", src)
    st = os.stat(exp_abs)
    scenarios = []
    if m:
        scenarios.append(("after-a-longer-revision", "revision", None))
    for opts in PRIOR_OPTIONS.get(tool, []):
        scenarios.append(("after-a-run-with-" + "".join(opts), "options", opts))
    scenarios += [("over-longer-files", "garbage", "longer"), ("over-shorter-files", "garbage", "shorter"), ("over-read-only-longer-files", "garbage", "readonly")]
    for sname, kind, arg in scenarios:
        wd = os.path.join(root, tool, "prior-" + sname)
        shutil.rmtree(wd, ignore_errors=True)
        os.makedirs(wd)
        extra_info = {}
        if kind == "revision":
            longer = src[:m.start()] + LONGER_REVISION + src[m.start():]
            try:
                open(exp_abs, "w", encoding="latin-1").write(longer)
                rc1 = run_in(b, tool, exp_abs, wd)
            finally:
                open(exp_abs, "w", encoding="latin-1").write(src)
                os.utime(exp_abs, (st.st_atime, st.st_mtime))
            if rc1 != 0:
                continue
            extra_info = {"first_run": "the same file with this inserted before the first END_SCHEMA", "inserted": LONGER_REVISION}
        elif kind == "options":
            if run_in(b, tool, exp_abs, wd, extra=arg) != 0:
                continue
            extra_info = {"first_run": f"{tool} {' '.join(arg)} <file>"}
        else:
            for f, data in ref_snap.items():
                p = os.path.join(wd, f)
                os.makedirs(os.path.dirname(p), exist_ok=True)
                first = data.split(b"\n", 1)[0] + b"\n"       # looks like an earlier output of the tool itself
                body = first if arg == "shorter" else first + b"-- left over by an earlier run --\n" * (len(data) // 30 + 40)
                open(p, "wb").write(body)
                if arg == "readonly":
                    os.chmod(p, 0o444)
            extra_info = {"first_run": f"files with the names the tool writes, {arg} than its output, starting with the output's first line"}
        rc = run_in(b, tool, exp_abs, wd)
        ctx.count(1, key=(name, tool, "prior", sname))
        ctx.hist("runs", f"{tool}/prior-state:{sname}")
        if rc != 0:
            # refusing to overwrite (e.g. a read-only file) with a non-zero status is not a wrong output
            ctx.hist("prior-state", f"{tool}: exit {rc} {sname}")
            continue
        now = snapshot(wd)
        for f, data in ref_snap.items():
            if now.get(f) != data:
                got = now.get(f)
                if got is None:
                    detail = "file not written"
                else:
                    a, g = data.split(b"\n"), got.split(b"\n")
                    i = next((i for i in range(min(len(a), len(g))) if a[i] != g[i]), min(len(a), len(g)))
                    detail = f"{len(got)} bytes instead of {len(data)}; first difference at line {i+1}: {g[i:i+1]} vs {a[i:i+1]}"
                return sname, f, detail, extra_info
        ctx.hist("prior-state", f"{tool}: identical {sname}")
    return None


def alone_clause(ctx, b, name, gen_file, root_idx):
    """call-history independence: the files exp2cxx creates for a declaration are a function of that declaration alone —
    the names it gives an enumeration (`type/Sdai<T>_var.{h,cc}`) must be the same when the type stands alone in a schema
    as when it is generated among the others (static name buffers must not carry one call's result into the next)."""
    root = os.path.join(ctx.work, f"alone{root_idx}")
    cfg = Config("alone")
    s0 = gen_file.schemas[0]
    full_exp = os.path.join(root, "in", "full.exp")
    os.makedirs(os.path.dirname(full_exp))
    open(full_exp, "w").write(gen_file.text())
    rc, wd, out, path, err = run_tool(b, "exp2cxx", full_exp, os.path.join(root, "full"), cfg)
    if rc != 0:
        shutil.rmtree(root, ignore_errors=True)
        return
    full_files = set(G.tree_listing(wd))
    enums = [t for t in s0.types() if t.body == "enum"][:3]
    for i, t in enumerate(enums):
        alone = SG.Schema(s0.name)
        alone.add(SG.TypeDecl(t.name, "enum", t.spelled, items=list(t.items)))
        exp = os.path.join(root, "in", f"alone{i}.exp")
        open(exp, "w").write(SG.SchemaFile([alone]).text())
        rc, wd2, out, path, err = run_tool(b, "exp2cxx", exp, os.path.join(root, f"a{i}"), cfg)
        ctx.count(1, key=(name, "alone", t.name))
        ctx.hist("runs", "exp2cxx/alone-vs-among-others")
        if rc != 0:
            continue
        mine = {f for f in G.tree_listing(wd2) if f.startswith("type/")}
        if not mine <= full_files and len(ctx.violations) < 3:
            ctx.violation("exp2cxx:file-name-depends-on-other-declarations",
                          f"[{name}] alone in a schema, enumeration {t.name[:40]}… gets the files {sorted(mine)}; generated among the other declarations these do not exist "
                          f"(type/ files there: {sorted(f for f in full_files if f.startswith('type/'))[:6]})",
                          {"express": gen_file.text(), "tool": "exp2cxx", "configurations": [cfg_dict(cfg), cfg_dict(cfg)], "alone": SG.SchemaFile([alone]).text(),
                           "how": "run exp2cxx on `express` and on `alone` (the same enumeration as the only declaration) in empty directories and compare the names under type/"})
    shutil.rmtree(root, ignore_errors=True)


def pymodule_predictions(ctx, b, model_exe, exp_abs, snap):
    """the ORDER of the definitions in each Python module exp2python wrote (classes of defined types and entities, ENUMERATION /
    SELECT / aggregate assignments, aliases) vs `PyModule.order` on the schema's symbol table as the real parser built it
    (definition order + names in, dictionary walks computed by the model); for files printed in one pass"""
    tabs = G.symbol_tables_from_dump(b, exp_abs)
    if not tabs:
        return []
    lines, names = [], []
    for sn, toks in tabs:
        if f"{sn}.py" in snap:
            lines.append("pymodule " + " ".join(toks)); names.append(sn)
    if not lines:
        return []
    rc, out, err = G.run_driver(model_exe, lines + [l.replace("pymodule", "pymodule-late", 1) for l in lines])
    if rc != 0 or len(out) != 2 * len(lines):
        return [f"pymodule: driver rc={rc} {err[-200:]}"]
    dis = []
    for sn, o, o_late, ln in zip(names, out[:len(lines)], out[len(lines):], lines):
        txt = snap[f"{sn}.py"].decode("latin-1")
        real = [m.group(1) or m.group(2) or m.group(3) for m in re.finditer(r"(?m)^class (\w+)\(|^(\w+) = |^def (\w+)\(", txt)]
        real = [x for x in real if x not in ("schema_name", "schema_scope")]
        want = o[2:].split() if o.startswith("M ") else None
        ctx.hist("predictions", "definition order of the Python module" + (" (10+ definitions)" if len(real) >= 10 else ""))
        same = lambda w: w is not None and [x.rstrip("_") for x in w] == [x.rstrip("_") for x in real]
        if not same(want) and ":^" in ln and same(o_late[2:].split() if o_late.startswith("M ") else None):
            # a type renames a type of ANOTHER schema that is printed later: it waits in the first loop in vain and is written by the second
            ctx.hist("predictions", "definition order of the Python module: an original in a schema printed later")
            continue
        if want is None or [w.rstrip("_") for w in want] != [x.rstrip("_") for x in real]:
            w = want or []
            i = next((i for i in range(min(len(w), len(real))) if w[i].rstrip("_") != real[i].rstrip("_")), min(len(w), len(real)))
            dis.append(f"definition order in {sn}.py differs from PyModule.order at position {i}: exp2python {real[i:i+4]} vs model {w[i:i+4]} ({len(real)} vs {len(w)} definitions)")
    return dis


def fresh_memory_clauses(ctx, b, name, text, quick):
    """a value read from memory the program never wrote changes with the heap layout, i.e. from run to run: (1) the SAME command in
    the SAME configuration (ASLR on, as installed) repeated N times - every run byte-equal to the first; (2) the tools under
    valgrind: an `uninitialised value` report is the read itself, found without having to hit a differing heap"""
    root = os.path.join(ctx.work, "fresh-" + re.sub(r"\W+", "_", name))
    os.makedirs(os.path.join(root, "in"), exist_ok=True)
    exp = os.path.join(root, "in", "input_schema.exp")
    open(exp, "w").write(text)
    n = 10 if quick else 24
    for tool in ("exp2cxx", "exp2python", "exppp"):
        if len(ctx.violations) >= 3:
            break
        first = None
        for i in range(n):
            wd = os.path.join(root, f"{tool}-{i}")
            os.makedirs(wd)
            rc = run_in(b, tool, exp, wd)
            snap = snapshot(wd) if rc == 0 else {}
            ctx.count(1, key=(name, tool, "repeat", i))
            shutil.rmtree(wd, ignore_errors=True)
            if first is None:
                first = (rc, snap)
                continue
            d = None if rc != first[0] else first_diff(first[1], snap)
            if rc != first[0] or d is not None:
                what = (f"exit status {first[0]} in run 1 but {rc} in run {i + 1}" if rc != first[0] else
                        f"{d[0]} {d[1]}: {(d[2] or [b''])[0][:160]!r} in run 1 vs {(d[3] or [b''])[0][:160]!r} in run {i + 1}")
                ctx.violation(f"{tool}:differs-between-identical-runs",
                              f"[{name}] {tool} run {n} times on the same file in the same configuration (ASLR as installed) does not always give the same output: {what}",
                              {"express": text, "tool": tool, "configurations": [cfg_dict(Config("base")), cfg_dict(Config("base"))], "repetitions": n,
                               "how": f"run the tool {n} times on the file, each time in an empty directory, nothing else changed; compare every run with the first (`diff -r`)"})
                break
        ctx.hist("runs", f"{tool}/identical-repeats x{n}")
        if shutil.which("valgrind") and len(ctx.violations) < 3:
            wd = os.path.join(root, f"{tool}-vg")
            os.makedirs(wd)
            env = {"PATH": "/usr/bin:/bin", "LD_LIBRARY_PATH": b.lib, "LC_ALL": "C", "HOME": HOME_VALUE}
            try:
                r = subprocess.run(["valgrind", "--error-exitcode=99", "-q", b.tool(tool), exp], cwd=wd, env=env, capture_output=True, text=True, errors="replace", timeout=300)
                rc, err = r.returncode, r.stderr
            except subprocess.TimeoutExpired:
                rc, err = "timeout", ""
            ctx.count(1, key=(name, tool, "valgrind"))
            ctx.hist("runs", f"{tool}/valgrind")
            if rc == 99:
                m = re.search(r"==\d+== (Conditional jump or move depends on uninitialised value|Use of uninitialised value|Invalid read|Invalid write|Syscall param [^\n]*uninitialised)[^\n]*(?:\n==\d+==    (?:at|by) [^\n]*){1,4}", err)
                ctx.violation(f"{tool}:reads-memory-it-never-wrote",
                              f"[{name}] valgrind reports for {tool}: {(m.group(0) if m else err[:400]).replace(chr(10), ' ')[:600]}",
                              {"express": text, "tool": tool, "configurations": [cfg_dict(Config("base")), cfg_dict(Config("base"))],
                               "how": "valgrind --error-exitcode=99 -q <tool> <file> in an empty directory: exit status 99 and the report on stderr"})
            shutil.rmtree(wd, ignore_errors=True)
    shutil.rmtree(root, ignore_errors=True)


def iteration_clause(ctx, b, model_exe, quick):
    """"DICTdo visits every entry exactly once, in the order the model computes" put to the real libexpress across the
    expansion points of the hash table (first split at 1535 entries, then every 1536; the 256th at 393216 entries): a schema of
    N entities is parsed and resolved by the real library (harness h_exprdump) and its dictionary walked; the names must be a
    permutation of the declared ones and, up to 20000, come in exactly the order `ExpressHash.dictOrder` gives."""
    sizes = [1, 255, 1534, 1535, 1536, 1537, 3071, 3072, 4700] + ([] if quick else [20000, 393215, 393216, 400000])
    exe = G.build_exprdump(b)
    root = os.path.join(ctx.work, "iter")
    os.makedirs(root, exist_ok=True)
    for n in sizes:
        if len(ctx.violations) >= 3:
            break
        names = [f"e{i}" for i in range(n)] if n > 4700 else [f"ent_{(i * 7919) % 100003}_{i % 13}" for i in range(n)]
        p = os.path.join(root, f"n{n}.exp")
        with open(p, "w") as fh:
            fh.write("SCHEMA iter_probe;\n" + "".join(f"ENTITY {x}; END_ENTITY;\n" for x in names) + "END_SCHEMA;\n")
        try:
            r = subprocess.run([exe, p], capture_output=True, text=True, errors="replace", env=b.env(), timeout=600)
            rc, out = r.returncode, r.stdout
        except subprocess.TimeoutExpired:
            rc, out = "timeout", ""
        ctx.count(1, key=("iter", n))
        ctx.hist("iteration", f"dictionary of {n} entries walked by the real DICTdo")
        got = [l.split()[1] for l in out.splitlines() if l.startswith("ent ")]
        what = None
        if rc != 0:
            what, key = f"the parser/resolver ends with status {rc} on a schema of {n} entities (a smaller one is accepted): the walk over the dictionary does not survive", ("dictionary-of-393216-or-more-entries" if n >= 393216 else "libexpress:dictionary-walk-fails")
        elif sorted(got) != sorted(names):
            miss, dup = sorted(set(names) - set(got))[:5], sorted({x for x in got if got.count(x) > 1})[:5] if n <= 5000 else []
            what, key = f"DICTdo over a dictionary of {n} entries delivers {len(got)} ({len(set(got))} distinct): missing {miss}, twice {dup}", "libexpress:dictionary-walk-incomplete"
        elif n <= 20000:
            rc2, mo, _ = G.run_driver(model_exe, ["order " + " ".join(names)])
            if rc2 != 0 or not mo or mo[0] != "O " + " ".join(got):
                want = mo[0][2:].split() if mo else []
                i = next((i for i in range(min(len(want), len(got))) if want[i] != got[i]), min(len(want), len(got)))
                ctx._disagree.append((f"iteration-{n}", f"DICTdo order of {n} entries differs from ExpressHash.dictOrder at position {i}: real {got[i:i+3]} vs model {want[i:i+3]}"))
            else:
                ctx.hist("iteration", "order equals ExpressHash.dictOrder" + (" (expanded table)" if n >= 1535 else ""))
        if what:
            ctx.violation(key, f"[iteration-{n}] {what}",
                          {"express": f"SCHEMA iter_probe; ENTITY {names[0]}; END_ENTITY; ... ENTITY {names[-1]}; END_ENTITY; END_SCHEMA;   -- {n} entities named " +
                                      ("e0 .. e%d" % (n - 1) if n > 4700 else "ent_<(i*7919) mod 100003>_<i mod 13> for i in 0..%d" % (n - 1)),
                           "tool": "any libexpress tool (check-express, exp2cxx, exppp, exp2python); here harness/h_exprdump.c = EXPRESSparse + EXPRESSresolve + DICTdo",
                           "how": "write the schema with the stated number of one-line entities, run the tool: exit status / list the entities the dictionary walk delivers"})
        os.remove(p)


def run(ctx):
    quick = ctx.tier == "quick"
    ctx._disagree = []
    ctx._nonterm = []
    ctx.trusted += [
        "tools/extract.d/genbound.py (recognises the two shapes of AGGRprint_bound; anything else = broken tie)",
        "hand-written models lean/StepModel/GenDeterm.lean (AGGRprint_bound, union reads, Ambient) and ExpressHash.lean (hash.c, dict.c); "
        "modelled, tied by the predicted-line / predicted-order comparison and (for the hash order) byte comparison of the scanner output in C17",
        "the differential matrix (what it does not vary is not observed): ASLR, cwd, absolute/relative path, environment size, LC_ALL, a previous run's output in place",
    ]
    ctx.assumptions += [
        "PARTIAL: non-interference is proved for the modelled data paths only; absence of other ambient dependencies in the ~30k lines of the "
        "generators is established by differential testing, not by proof",
        "the working directory and the path naming the input are masked where they legitimately appear (scanner stdout, SCHEMA_TARGETS(\"<input>\"), tool messages)",
        "a tool that fails or does not terminate (20 s limit for inputs < 200 kB) in the SAME way under every configuration is tolerated: that is a termination/robustness "
        "defect (C06/C18/C17), not a determinism one; such inputs are listed under coverage.non_terminating_inputs and their output is not compared. Known case: exp2python on "
        "corpus/C12/exp2python-hangs-two-schemas.exp.txt (two schemas, REFERENCE FROM, a renamed simple type); a failure under only SOME configurations is a violation",
    ]
    ctx.cov["partial"].append({"theorem": "C12_bound_legacy_partial / C12_bound_current",
                               "excluded": "under the legacy rule: bounds that are resolved identifiers (constants, attributes, derived attributes) — there the output does depend on an address (C12_bound_legacy_witness)"})
    ctx.lean("StepModel.Props.C12", exes=["m_c12"], extractors=["genbound", "scanner", "exphash", "refout", "outopen", "cxxcollect", "geninit"])
    b = ctx.build("plain")
    model_exe = ctx.model_exe("m_c12")
    if not os.path.exists(model_exe):
        return
    setarch = have_setarch()
    ctx.hist("matrix", "setarch -R available" if setarch else "setarch -R NOT available (ASLR-off runs skipped)")
    cfgs = configs(quick, setarch)
    idx = 0
    iteration_clause(ctx, b, model_exe, quick)
    # corpus / fixed inputs first: the confirmed defect (DESIGN §6 row 9) on a minimal schema
    fixed = [("min-nonliteral-bound", MIN_BOUND), ("all-bound-shapes-text", ALL_BOUNDS), ("non-ascii-strings-near-line-limit", non_ascii_strings_schema()),
             # every construct whose TEXT is copied into generated code: (un)labelled WHERE rules on types and entities, UNIQUE, DERIVE, function and rule bodies, remarks
             ("copied-text", COPIED_TEXT)]
    # selects that contain themselves / each other through aggregate types: TYPEselect_print meets a select that is still being printed
    cyc = [("self-containing-select", SELF_CONTAINING_SELECT)] + [(f"select-cycle-through-aggregates-{k}", SG.select_cycle_through_aggregates_schema(k).text()) for k in ((2, 3) if quick else (2, 3, 4, 6))]
    for name, text in cyc + [("copied-text", COPIED_TEXT)]:
        fresh_memory_clauses(ctx, b, name, text, quick)
    fixed += cyc
    for p in sorted(glob.glob(os.path.join(VERIF, "corpus", "C12", "*.exp"))):
        fixed.append(("corpus:" + os.path.basename(p), open(p).read()))
    for name, text in fixed:
        examine(ctx, b, name, text, None, cfgs, idx, model_exe=model_exe, tools=TOOLS); idx += 1
    allb = SG.every_bound_shape_schema()
    examine(ctx, b, "every-bound-shape", allb.text(), None, cfgs, idx, gen_file=allb, model_exe=model_exe); idx += 1
    allk = SG.every_type_kind_schema()
    examine(ctx, b, "all-type-kinds", allk.text(), None, cfgs, idx, gen_file=allk, model_exe=model_exe); idx += 1
    # long-but-legal identifiers (≤ 200 characters): names must not depend on the call history of the name functions
    for j, (ls, fill) in enumerate([((100, 115), "q"), ((110, 120), "z"), ((120,), "q"), ((115, 116), "z"), ((60, 70), "x")]):
        lf = SG.long_identifier_schema("enum", ls, filler=fill)
        alone_clause(ctx, b, f"long-enum-names-{'+'.join(map(str, ls))}-{fill}", lf, j)
    alone_clause(ctx, b, "all-type-kinds", allk, 90)
    # files with several schemas and REFERENCE FROM between them (every tool, every configuration)
    for j in range(2 if quick else 12):
        g = SG.Gen(ctx.rng, cross_refs=1.0, mutual=0.3, n_types=(3, 7), n_entities=(1, 4))
        mf = g.schema_file(nschemas=2 + j % 2)
        ctx.hist("features", "multi-schema (fixed share)")
        examine(ctx, b, f"multi-schema-{ctx.seed}-{j}", mf.text(), None, cfgs, idx, gen_file=mf, model_exe=model_exe); idx += 1
    # item-wise USE FROM s (…) / REFERENCE FROM s (…) from 2–5 supplier schemas, with and without AS renames: exppp groups the
    # clauses by supplier in a temporary dictionary — the group order must be a function of the schema names only.  Every
    # configuration with ASLR on is another heap layout (quick: 10 such runs + 1 under setarch -R per tool).
    shapes = [(3, 4, True), (2, 2, False)] if quick else [(3, 4, True), (2, 2, False), (5, 0, True), (0, 5, True), (2, 3, True), (4, 4, False)]
    for j, (nu, nr, ren) in enumerate(shapes):
        itf = SG.item_interfaces_file(nu, nr, ren)
        ctx.hist("features", "item-wise USE/REFERENCE from several suppliers")
        examine(ctx, b, f"item-wise-interfaces-{nu}use-{nr}ref{'-renamed' if ren else ''}", itf.text(), None, cfgs, idx, model_exe=model_exe); idx += 1
        rroot = os.path.join(ctx.work, f"ro{j}")
        os.makedirs(rroot)
        for d in refout_predictions(ctx, b, model_exe, itf, rroot):
            ctx._disagree.append((f"item-wise-interfaces-{nu}-{nr}", d))
        shutil.rmtree(rroot, ignore_errors=True)
    if not quick:
        for j in range(6):
            r = ctx.rng
            nm = r.sample(["alpha", "beta", "gamma", "delta", "kappa", "omega", "sigma", "theta", "zeta", "lambda_s"], 6)
            itf = SG.item_interfaces_file(r.randint(2, 3), r.randint(2, 3), r.random() < 0.5, names=[f"{x}_supplier" for x in nm])
            examine(ctx, b, f"item-wise-interfaces-random-{j}", itf.text(), None, cfgs, idx, model_exe=model_exe); idx += 1
            rroot = os.path.join(ctx.work, f"ror{j}")
            os.makedirs(rroot)
            for d in refout_predictions(ctx, b, model_exe, itf, rroot):
                ctx._disagree.append((f"item-wise-interfaces-random-{j}", d))
            shutil.rmtree(rroot, ignore_errors=True)
    n_gen = 8 if quick else 100
    for i in range(n_gen):
        r = ctx.rng
        g = SG.Gen(r, mixed_case=r.choice([0, 0.4]), p_nonliteral_bound=r.choice([0.0, 0.3, 0.6]), p_negated_ref=0.5)
        f = g.schema_file(nschemas=r.choice([1, 1, 2, 3]))
        for ft in f.features():
            if ft.startswith(("bound:", "multi")):
                ctx.hist("features", ft)
        examine(ctx, b, f"gen-{ctx.seed}-{i}", f.text(), None, cfgs, idx, gen_file=f, model_exe=model_exe); idx += 1
        if i == 0:
            ctx.sample({"input": f"gen-{ctx.seed}-0", "express_head": f.text()[:500]})
    data = sorted(glob.glob(os.path.join(b.src, "data", "*", "*.exp")), key=os.path.getsize)
    unit = sorted(glob.glob(os.path.join(b.src, "test", "unitary_schemas", "*.exp")))
    shipped = (unit[:4] + data[:1]) if quick else (unit + data)
    for p in shipped:
        if "fail_" in os.path.basename(p):
            continue
        examine(ctx, b, "shipped:" + os.path.relpath(p, b.src), None, p, cfgs if os.path.getsize(p) < 2_000_000 else cfgs[:3], idx, model_exe=model_exe); idx += 1
    ctx.cov["correspondence"]["model predictions vs exp2cxx"] = {"disagreements": len(ctx._disagree)}
    ctx.cov["rule"] = (f"{len(cfgs)} configurations ({', '.join(c.name for c in cfgs)}) x {len(TOOLS)} tools per input; whole output trees byte-compared "
                       "against the base configuration; inputs: minimal non-literal-bound schema, every bound shape, every type kind, generated schemas "
                       "(1-2 schemas per file, with and without non-literal bounds), shipped schemas (quick: small ones)")
    ctx.sample({"configurations": [cfg_dict(c) for c in cfgs]})
    ctx.cov["non_terminating_inputs"] = ctx._nonterm[:10]
    for name, d in ctx._disagree[:1]:
        ctx.broken.append(("correspondence GenDeterm/ExpressHash model vs exp2cxx output", f"[{name}] {d}"))


def replay(ctx, path):
    d = json.load(open(path))
    r = d.get("replay", d)
    ctx._disagree = []
    ctx._nonterm = []
    ctx.lean("StepModel.Props.C12", exes=["m_c12"], extractors=["genbound", "scanner", "exphash", "refout", "outopen", "cxxcollect", "geninit"])
    b = ctx.build("plain")
    if "alone" in r:
        root = os.path.join(ctx.work, "alone-replay")
        names = {}
        for k in ("express", "alone"):
            exp = os.path.join(root, "in", k + ".exp")
            os.makedirs(os.path.dirname(exp), exist_ok=True)
            open(exp, "w").write(r[k])
            rc, wd, out, path, err = run_tool(b, "exp2cxx", exp, os.path.join(root, k), Config("alone"))
            names[k] = {f for f in G.tree_listing(wd) if f.startswith("type/")} if rc == 0 else None
        if names["express"] is not None and names["alone"] is not None and not names["alone"] <= names["express"]:
            ctx.violation("exp2cxx:file-name-depends-on-other-declarations",
                          f"[replay] alone: {sorted(names['alone'])}; among the others: {sorted(names['express'])[:6]}", r)
        return
    cfgs = [Config(**{k: v for k, v in c.items()}) for c in r["configurations"]]
    if r["express"].startswith("<shipped file"):
        examine(ctx, b, "replay", None, r["express"][len("<shipped file "):-1], cfgs, 0, tools=[r["tool"]])
    else:
        examine(ctx, b, "replay", r["express"], None, cfgs, 0, tools=[r["tool"]])

"""C06 — EXPRESS tools are memory-safe and terminate on any input.            level: PARTIAL (by nature)

proof:           lean/StepModel/Props/C06.lean — for ALL inputs, on the modelled fixed-capacity sites only
                 (last_comment_[], scopes[], error heap/message buffer, ERRORset_warning, exppp wrap/raw/line buffers,
                 EXPRlength buffer, exit status; StrToLower/Upper/Constant as _partial)
regenerated tie: tools/extract.d/c06_buffers.py -> Generated/C06Buffers.lean (capacities, copy bounds, guards, flush rule,
                 warning classes, exit statuses, EXPRstring fixed texts) — a changed size / removed guard breaks a theorem
correspondence:  ASan+UBSan builds of check-express, exppp, exp2cxx, exp2python on boundary inputs around every modelled
                 capacity, compared with the outcome the model (lean exe m_c06) predicts (ok / reject / overflow)  [testing]
oracle:          the property itself on every run of every tool on every input (generated valid schemas, token/byte mutants,
                 pathological shapes, shipped schemas in thorough tier): exit 0, or small positive status with a diagnostic;
                 a sanitizer report, a fatal signal, a timeout or an odd status IS the failing input.           [testing]
"""
import glob, json, os, re, shutil, subprocess, sys, time

HERE = os.path.dirname(os.path.abspath(__file__))
VERIF = os.path.dirname(HERE)
sys.path.insert(0, os.path.join(VERIF, "tools"))
import c06_gen as G      # noqa: E402
import c06_run as R      # noqa: E402
from vlib import build as B, lean as L   # noqa: E402

LEVEL = "partial"
PROPS = "StepModel.Props.C06"
MAX_REPORTED = 40


# ------------------------------------------------------------------ model driver
class Model:
    def __init__(self, exe):
        self.exe = exe
        self.cache = {}

    def ask(self, *lines):
        need = [l for l in lines if l not in self.cache]
        if need:
            r = subprocess.run([self.exe], input="\n".join(need) + "\n", capture_output=True, text=True, timeout=120)
            out = r.stdout.split("\n")
            if r.returncode != 0 or len(out) < len(need):
                raise RuntimeError(f"model driver failed rc={r.returncode}: {r.stderr[-300:]}")
            for l, o in zip(need, out):
                self.cache[l] = o.strip()
        return [self.cache[l] for l in lines]

    def one(self, line):
        return self.ask(line)[0]


def mclass(reply):
    w = reply.split()
    return w[0] if w else "bad-op"


# ------------------------------------------------------------------ modelled sites: shape family -> model query
# (family, tools that reach the site, n -> model request, substring(s) identifying the site in a sanitizer signature)
ALL = R.TOOLS
SITES = [
    ("tail_remark", ALL, lambda n: f"remark s{n}", ("last_comment_", "SCANprocess_semicolon")),
    ("tail_remark_spaced", ALL, lambda n: f"remark s{n}", ("last_comment_", "SCANprocess_semicolon")),
    ("line_remark", ALL, lambda n: f"remark v{n}", ("last_comment_", "SCANsave_comment")),
    ("nested_functions", ALL, lambda n: f"pushes {n + 1}", ("scopes",)),
    ("nested_procedures", ALL, lambda n: f"pushes {n + 1}", ("scopes",)),
    ("nested_queries", ALL, lambda n: f"pushes {n + 2}", ("scopes",)),
    ("nested_repeats", ALL, lambda n: f"pushes {n + 2}", ("scopes",)),
    ("nested_aliases", ALL, lambda n: f"pushes {n + 2}", ("scopes",)),
    ("string_literal", ["exppp"], lambda n: f"fmt raw {n}", ("raw", "wrap", "vsprintf", "exppp.c")),
    ("string_in_where", ["exppp"], lambda n: f"fmt raw {n}", ("raw", "wrap", "vsprintf", "exppp.c")),
    ("encoded_string", ["exppp"], lambda n: f"fmt wrap {max(8, n - n % 8) + 2}", ("raw", "wrap", "vsprintf", "exppp.c")),
    ("ident_entity", ["exppp"], lambda n: f"fmt wrap {n}", ("raw", "wrap", "vsprintf", "exppp.c")),
    ("ident_constant", ["exppp"], lambda n: f"fmt wrap {n}", ("raw", "wrap", "vsprintf", "exppp.c")),
    ("ident_attribute", ["exppp"], lambda n: f"exprlen {n}", ("EXPRlength", "EXPRstring")),
    ("string_case_label", ["exppp"], lambda n: f"exprlen {n}", ("EXPRlength", "EXPRstring", "raw", "wrap")),
    ("ident_schema", ["exppp"], lambda n: f"filename {n}", ("exppp_filename_buffer", "SCHEMAout")),
    ("many_enum_items", ["exp2cxx"], lambda n: f"desc {n} {len('item_') + len(str(n - 1)) + 2}", ("TypeBody_Description", "TypeDescription", "strcat_bounds")),
]
# nesting depth: the resolver's counters (expression height = operators + leaf + the enclosing EXISTS() call of the shape)
for _fam in ("deep_left_sum", "deep_right_sum", "deep_unary_not", "deep_funcall", "deep_and_chain"):
    SITES.append((_fam, ALL, lambda n: f"nesting expression {n + 2}", ("EXP_resolve", "EXPresolve_op", "EXPR__out", "EXPRop")))
for _fam in ("stmt_if", "stmt_begin", "stmt_repeat_while", "stmt_case"):
    SITES.append((_fam, ALL, lambda n: f"nesting statement {n + 1}", ("STMTresolve", "STMTlist_resolve", "STMT_out", "python_indent")))
SITES.append(("nested_aggr_type", ["check-express", "exppp", "exp2python"], lambda n: f"nesting type {n + 1}", ("TYPE_resolve",)))   # exp2cxx is quadratic in the nesting of aggregate types
SITES.append(("stmt_if_else", ["exp2python"], lambda n: f"indent {n + 2}", ("python_indent", "tabs")))
# identifiers by role through the generators: gate (reject above the limit), then the case-conversion loops
for _tool in ("exp2cxx", "exp2python"):
    for _role, _fn in (("enum_item", "StrToLower"), ("attribute", "StrToLower"), ("select_type", "StrToLower"),
                       ("schema", "StrToUpper"), ("enum_type", "StrToConstant"), ("entity", "StrToLower"), ("type", "StrToLower"),
                       ("subtype", "StrToLower"), ("aggr_type", "StrToLower")):
        SITES.append((f"ident_{_role}", [_tool], (lambda t, f: (lambda n: f"gatedfn {t} {f} {n}"))(_tool, _fn),
                      ("StrToLower", "StrToUpper", "StrToConstant", "newword")))


def caps_from_model(model):
    cfg = dict(kv.split("=", 1) for kv in model.one("config").split() if "=" in kv)
    return cfg


def boundary_ns(model, query, tier):
    """sizes around the first n where the model's outcome class changes, plus far-out sizes"""
    probe = sorted(set([1, 2, 5, 10, 15, 17, 18, 19, 20, 21, 25, 50, 100, 198, 199, 200, 201, 202, 239, 240, 241, 242, 250, 254, 255, 256, 257, 258,
                        300, 400, 998, 999, 1000, 1001, 2000, 4996, 4997, 4998, 4999, 5000, 5001, 5002, 6000, 9990, 9996, 9997, 9998, 9999, 10000, 10001, 10002,
                        10010, 12000, 20000] + ([100000] if tier == "thorough" else [30000])))
    reps = model.ask(*[query(n) for n in probe])
    cls = [mclass(r) for r in reps]
    chosen = set()
    for i in range(1, len(probe)):
        if cls[i] != cls[i - 1]:
            chosen.update(probe[max(0, i - 2):i + 2])
    if not chosen:          # model predicts the same outcome everywhere: still test around the historic capacities and far out
        chosen.update([255, 256, 257] if "remark" in query(1) else [])
        chosen.update([17, 18, 19, 20, 25, 100] if "pushes" in query(1) else [])
        chosen.update([9998, 9999, 10000, 10001, 12000] if ("fmt" in query(1) or "exprlen" in query(1)) else [])
        chosen.update([239, 240, 241, 242] if ("casefn" in query(1) or "gatedfn" in query(1)) else [])
        chosen.update([995, 996, 1000] if "filename" in query(1) else [])
        chosen.update([500, 610, 700] if "desc" in query(1) else [])
    if query(1).startswith("nesting") or query(1).startswith("indent"):
        chosen.update([33, 34, 100] if query(1).startswith("indent") else [20000])
        chosen.discard(probe[-1])
        return sorted(x for x in chosen if x <= 20000)
    chosen.update([1000 if "pushes" in query(1) else 3000 if query(1).startswith("desc") else probe[-1]])
    return sorted(chosen)


# ------------------------------------------------------------------ input streams
def shape_inputs(tier):
    quick = tier == "quick"
    big = [12000] if quick else [10 ** 4, 3 * 10 ** 4, 10 ** 5]
    out = []
    deep = [100] if quick else [100, 1000]
    for fam in G.FAMILIES:
        if fam.startswith("nested_"):
            ns = [5, 19, 25] + deep
        elif fam in ("subtype_chain", "subtype_cycle"):
            ns = [1, 2, 3, 40, 300] if quick else [1, 2, 3, 40, 300, 1000]      # exp2cxx is quadratic in the chain length
        elif fam == "use_cycle":
            ns = [1, 2, 3, 50] if quick else [1, 2, 3, 50, 2000]
        elif fam.startswith("deep_"):
            ns = [100, 20000] if quick else [100, 3000, 20000, 150000]
        elif fam.startswith("bound_"):
            ns = [100, 99999, 120000] if quick else [100, 4000, 60000, 99999, 100000, 120000, 250000]
        elif fam.startswith("stmt_"):
            ns = [10, 33, 40, 100] if quick else [10, 31, 32, 33, 34, 40, 100, 200]
        elif fam == "use_from_long":
            ns = [200, 255, 256, 257, 300, 5000]
        elif fam.startswith("escape_"):
            ns = [100, 8191, 8192, 9000] if quick else [100, 4095, 4096, 8190, 8191, 8192, 8193, 9000, 20000, 100000]
        elif fam.startswith("longexpr_") or fam.startswith("ladder_"):
            continue        # run separately: the generators' string path (long_expr_inputs) / the lattice stream (polynomial, not linear, in the size)
        elif fam == "many_supertypes":
            ns = [100, 150] if quick else [50, 100, 300]      # exp2python is super-linear (about cubic) in the number of supertypes of one entity
        elif fam.startswith("many_"):
            ns = [100, 101, 150] if quick else [99, 100, 101, 500, 3000]
        elif fam in ("non_ascii", "nul_bytes"):
            ns = [1, 100] if quick else [1, 100, 5000, 10 ** 5]
        elif fam in ("unclosed_comments",):
            ns = [1, 20, 21] + deep
        else:
            ns = [300] + big
        for n in ns:
            out.append((f"shape:{fam}:{n}", G.shape(fam, n), fam, n))
    for k, f in G.CONTRADICTIONS.items():
        out.append((f"contradiction:{k}", f(), None, None))
    for tag, data in G.wide_selects():
        out.append((tag, data, None, None))
    for tag, data in G.contradictions_with_uses():
        out.append((tag, data, None, None))
    for tag, data in G.alias_statements():
        out.append((tag, data, None, None))
    for tag, data in G.bound_kinds():
        out.append((tag, data, None, None))
    for tag, data in G.import_graphs():
        out.append((tag, data, None, None))
    for tag, data in G.builtin_arity():
        out.append((tag, data, None, None))
    for n in ([1, 5, 6, 7] if quick else [1, 2, 5, 6, 7, 8, 20, 100]):
        for nested in (False, True):
            out.append((f"include:{n}:{'nested' if nested else 'flat'}", G.include_chain(n, nested), None, None))
    for k in G.TRIVIAL_KINDS:
        out.append((f"trivial:{k}", G.trivial(k), None, None))
    for k in G.NO_NL_KINDS:
        out.append((f"nonl:{k}", G.no_final_newline(k), None, None))
    return out


def long_expr_inputs(tier):
    """one expression whose printed text exceeds exppp's string buffer (BIGBUFSIZ), through exp2cxx / exp2python"""
    out = []
    if tier == "quick":
        cases = [("where", 120000), ("derive", 120000), ("where", 99990), ("constant", 100010)]
    else:
        cases = [(k, n) for k in G.LONG_EXPR_KINDS for n in (99990, 100010, 110000, 200000) if not (k == "subtype_expr" and n > 50000)]
        cases += [("subtype_expr", 30000), ("subtype_expr", 50000)]
    for k, n in cases:
        out.append((f"longexpr:{k}:{n}", G.long_expr(k, n), None, None))
        if k in ("where", "derive"):
            out.append((f"longexpr:{k}:{n}:undotted", G.long_expr(k, n, dotted=False), None, None))
    return out


def shipped_schemas():
    d = os.path.join(B.REPO, "data")
    fs = sorted(glob.glob(os.path.join(d, "**", "*.exp"), recursive=True))
    return fs


# ------------------------------------------------------------------ oracle + search
class Runner:
    def __init__(self, ctx, b):
        self.ctx, self.b = ctx, b
        self.work = ctx.work
        self.results = []       # (tag, tool, cls)
        self.bad = []           # (tag, data, fam, n, res)

    def run(self, items, tools_of=lambda tag, fam: R.TOOLS, timeout=20, args=()):
        """items: (tag, data, fam, n).  Runs the tools, evaluates the oracle, returns {(tag, tool): result}"""
        jobs = []
        for tag, data, fam, n in items:
            for t in tools_of(tag, fam):
                jobs.append(((tag, fam, n, data), t, data, timeout, args))
        out = {}
        for (tag, fam, n, data), r in R.run_matrix(self.b, jobs, self.work):
            out[(tag, r["tool"])] = r
            self.ctx.count(1, key=(tag, r["tool"], tuple(args)))
            self.ctx.hist("outcome", r["cls"])
            self.ctx.hist("tool", r["tool"])
            self.ctx.hist("stream", tag.split(":")[0])
            if r["cls"] in R.BAD:
                self.bad.append((tag, data, fam, n, r))
        return out

    def still_bad(self, tool, data, args, timeout, sig=None):
        """the same misbehaviour (same class of outcome, same signature) on a smaller input"""
        r = R.run_tool(self.b, tool, data, self.work, timeout=timeout, args=args)
        self.ctx.count(1)
        if r["cls"] not in R.BAD:
            return None
        if sig is not None and r["sig"] != sig and not ("?" in sig and "?" in r["sig"]):
            return None
        return r


def minimise_n(run, fam, n, tool, args, timeout, sig=None):
    """smallest n of the family on which the tool still misbehaves (bisection; assumes monotone in n)"""
    lo, hi = 0, n           # lo good (or untested 0), hi bad
    best = None
    steps = 0
    while hi - lo > 1 and steps < 24:
        mid = (lo + hi) // 2
        try:
            data = G.shape(fam, mid)
        except Exception:
            lo = mid
            continue
        r = run.still_bad(tool, data, args, timeout, sig)
        if r:
            hi, best = mid, r
        else:
            lo = mid
        steps += 1
    return hi, best


def minimise_lines(run, data, tool, args, timeout, budget=40, sig=None):
    """ddmin over lines, then over 64-byte blocks; keeps any misbehaviour of the tool"""
    def parts_of(d, by):
        return d.split(b"\n") if by == "line" else [d[i:i + 64] for i in range(0, len(d), 64)]

    def join(ps, by):
        return b"\n".join(ps) if by == "line" else b"".join(ps)
    cur, last = data, None
    used = 0
    for by in ("line", "block"):
        ps = parts_of(cur, by)
        chunk = max(1, len(ps) // 2)
        while chunk >= 1 and used < budget and len(ps) > 1:
            i, progressed = 0, False
            while i < len(ps) and used < budget:
                cand = ps[:i] + ps[i + chunk:]
                if not cand:
                    i += chunk
                    continue
                used += 1
                r = run.still_bad(tool, join(cand, by), args, timeout, sig)
                if r:
                    ps, last, progressed = cand, r, True
                else:
                    i += chunk
            if not progressed or chunk == 1:
                chunk //= 2
        cur = join(ps, by)
    return cur, last


def make_key(tool, r, fam):
    """stable key of a misbehaviour: the sanitizer signature (kind, object, first two stepcode frames); when the stack
    could not be symbolised (smashed stack, plain SIGSEGV) the tool and the input family stand in for it"""
    if "?" in r["sig"]:
        key = f"{tool}:unsymbolised-crash|{fam or 'input'}"
    else:
        key = r["sig"]
        if fam is not None and r["cls"] in ("timeout", "badexit"):
            key = f"{tool}:{key}|{fam}"
    return re.sub(r"\s+", "_", key)


EXTRA_MARKS = [("exit_discipline", ("exit-discipline", "could not be created", "in the way")), ("lattice", ("ladder_", "MultList::copyList", "ENTITYhas_ancestor", "non_unique_types_vector", "ENTITY_get_all_attributes", "LISTadd_attributes_once")), ("scan_buffers", ("SCANpush_buffer", "SCAN_buffers")), ("open_comment", ("open_comment",)), ("schema_file", ("EXPRESSfind_schema",)),
               ("schema_path", ("EXPRESS_PATHinit", "exppath")), ("escape_buffer", ("format_for_stringout",)), ("exprto_python", ("EXPRto_python",)),
               ("quoted", ("EXPRstring", "EXPRlength", "boundary:quoted", "boundary:repeat")), ("use_cycle", ("SCOPEfind_for_rename", "SCOPE_find_for_rename", "RENAMEresolve", "use_cycle", "imports:", "SCHEMA_get_entities_use", "SCOPE_find", "SCOPE_dfs", "TYPE_resolve")), ("errbuf", ("ERROR_nexterror", "ERROR_vprintf", "ERRORvreport_with_symbol", "errbuf")), ("longexpr", ("exp_output", "format_for_std_stringout")), ("selectsearch", ("EXP_resolve_op_dot_fuzzy", "EXP_resolve_op_group_fuzzy", "EXPresolve_op_dot", "EXPresolve_op_group")),
               ("subtype_cycle", ("ENTITYcalculate_inheritance", "ENTITYget_named_attribute", "subtype_cycle")),
               ("wide", ("non_unique_types_string",))]


def site_of(sig):
    for fam, marks in EXTRA_MARKS:
        if any(m in sig for m in marks):
            return fam
    for fam, tools, q, marks in SITES:
        if any(m in sig for m in marks):
            return fam
    return None


DIAG_RE = re.compile(r"(WARNING PW\d+|ERROR PE\d+)")


def judge_exit(r, expect):
    """problems of one run against the model's prediction `expect` = {status, pending, messages (or None), usage}"""
    err = r.get("stderr_full")
    if err is None:
        err = r["err"]
    if r["cls"] in ("signal", "sanitizer", "timeout"):
        return [("crash", f"{r['cls']} [{r['sig']}] rc={r['rc']}")]
    out = []
    if r["rc"] != expect["status"]:
        out.append(("status", f"exit status {r['rc']}, the model says {expect['status']}"))
    found = len(DIAG_RE.findall(err))
    if expect.get("pending"):
        out.append(("lost-diagnostics", f"{expect['pending']} message(s) are still in the -B buffer when the tool exits ({found} printed)"))
    elif expect.get("messages") is not None and found != expect["messages"]:
        out.append(("lost-diagnostics" if found < expect["messages"] else "extra-diagnostics", f"{found} diagnostics on stderr, {expect['messages']} were reported"))
    if r["rc"] not in (0, None) and not err.strip():
        out.append(("no-diagnostic", f"exit status {r['rc']} and nothing on stderr"))
    if expect.get("usage") and "usage" not in err.lower():
        out.append(("no-diagnostic", "no usage text on stderr"))
    if expect["status"] == 1 and r["rc"] == 1 and "Errors in input" not in err:
        out.append(("no-trailer", "status 1 without the `Errors in input' line"))
    for line in err.split("\n"):
        if len(DIAG_RE.findall(line)) > 1 or (DIAG_RE.search(line) and "rrors in input" in line):
            out.append(("run-together", f"diagnostics share a line: {line[:160]!r}"))
            break
    return out


def exit_discipline_stream(ctx, b, model, tmo, disagreements):
    n = 0
    seen = set()

    def report(tool, tag, args, data, r, probs, expect, no_input):
        for kind, text in probs:
            key = f"exit-discipline:{tool}:{kind}" if kind in ("crash", "status", "no-diagnostic") else f"exit-discipline:{kind}"     # the reporting code is shared by the tools
            if (key in seen):
                continue
            seen.add(key)
            rep = {"tool": tool, "args": list(args), "no_input": no_input, "class": r["cls"], "exit": r["rc"], "expect": expect,
                   "input_latin1": data.decode("latin-1"), "stderr": (r.get("stderr_full") or r["err"])[:2500],
                   "how": "write input to in.exp; run the ASan+UBSan build of <tool> <args>" + ("" if no_input else " in.exp") +
                          " (ASAN_OPTIONS=detect_leaks=0; {in} in the arguments stands for in.exp)"}
            ctx.violation(key, f"{tool} {' '.join(args)} on {tag}: {text}", rep)
    for tag, data, opts, phases, msgs in G.diag_runs():
        for buffered in (False, True):
            reply = model.one(f"exitdisc {int(buffered)} {phases[0]} {phases[1]} {phases[2]}")
            w = reply.split()
            if not w or w[0] != "exit":
                disagreements.append(("exit_discipline", tag, "model", reply, "no exit status predicted"))
                continue
            expect = {"status": int(w[1]), "pending": int(w[5]), "messages": msgs}
            args = (["-B"] if buffered else []) + list(opts)
            for t in R.TOOLS:
                r = R.run_tool(b, t, data, ctx.work, timeout=tmo, args=tuple(args))
                ctx.count(1, key=("exitdisc", tag, buffered, t))
                n += 1
                probs = judge_exit(r, expect)
                if probs:
                    report(t, f"diag:{tag}", args, data, r, probs, expect, False)
    for tag, argv, verdict in G.command_lines():
        tag, _, only = tag.partition(":")
        for t in (only.split(",") if only else R.TOOLS):
            pred = model.one(f"exit {t} {verdict}")
            if not pred.startswith("status "):
                continue
            expect = {"status": int(pred.split()[1]), "pending": 0, "messages": None, "usage": verdict == "usage"}
            r = R.run_tool(b, t, G.trivial("schema_only"), ctx.work, timeout=tmo, args=tuple(argv), no_input=True)
            ctx.count(1, key=("cmdline", tag, t))
            n += 1
            probs = judge_exit(r, expect)
            if probs:
                report(t, f"cmdline:{tag}", argv, G.trivial("schema_only"), r, probs, expect, True)
    return n


UNWRITABLE_INPUT = (b"SCHEMA s;\nTYPE t = SELECT (a);\nEND_TYPE;\nTYPE en = ENUMERATION OF (p, q);\nEND_TYPE;\nENTITY a;\n  x : INTEGER;\nEND_ENTITY;\n"
                    b"ENTITY b SUBTYPE OF (a);\n  y : en;\nEND_ENTITY;\nEND_SCHEMA;\n")


def unwritable_stream(ctx, b, run_, tmo, quick):
    n = 0
    for tool in ("exp2cxx", "exp2python", "exppp"):
        ref = R.run_tool(b, tool, UNWRITABLE_INPUT, ctx.work, timeout=tmo, keep=True)
        ctx.count(1, key=("unwritable", tool, "reference"))
        outs = []
        if ref.get("dir"):
            od = os.path.join(ref["dir"], "out")
            for root, ds, fs in os.walk(od):
                for d_ in ds:
                    outs.append(("file", os.path.relpath(os.path.join(root, d_), od)))
                for f_ in fs:
                    outs.append(("dir", os.path.relpath(os.path.join(root, f_), od)))
            shutil.rmtree(ref["dir"], ignore_errors=True)
        if ref["cls"] != "accept" or not outs:
            ctx.broken.append((f"unwritable-output stream: {tool}", f"reference run {ref['cls']} rc={ref['rc']}, {len(outs)} outputs"))
            continue
        outs.sort()
        if quick and len(outs) > 8:
            outs = outs[::max(1, len(outs) // 8)]
        for kind, name in outs:
            r = R.run_tool(b, tool, UNWRITABLE_INPUT, ctx.work, timeout=tmo, obstacles=((kind, name),))
            ctx.count(1, key=("unwritable", tool, name))
            n += 1
            if r["cls"] in R.BAD:
                run_.bad.append((f"unwritable:{kind}:{name}", UNWRITABLE_INPUT, None, None, dict(r, obstacles=[[kind, name]], sig=r["sig"] + f" (a {kind} named {name} in the way)")))
            elif r["cls"] == "accept" and tool != "exppp":
                # the file could not be written and nobody noticed
                run_.bad.append((f"unwritable:{kind}:{name}", UNWRITABLE_INPUT, None, None,
                                 dict(r, cls="badexit", sig=f"status 0 although {name} could not be created", obstacles=[[kind, name]])))
    return n


def report_bad(ctx, run, timeout):
    """shrink and report every distinct misbehaviour (distinct by signature), at most MAX_REPORTED"""
    seen = {}
    for tag, data, fam, n, r in run.bad:
        pre = (r["tool"] if "?" in r["sig"] else "") + "|" + r["sig"]
        if pre in seen:
            seen[pre]["also"].append(f"{tag}/{r['tool']}")
            continue
        seen[pre] = {"tag": tag, "data": data, "fam": fam, "n": n, "r": r, "also": []}
    reported = 0
    for pre, e in seen.items():
        if reported >= MAX_REPORTED:
            break
        r, data, fam, n = e["r"], e["data"], e["fam"], e["n"]
        tool, args = r["tool"], tuple(r.get("args", ()))
        tmo = max(timeout, 2 * r["wall"] + 5) if r["cls"] != "timeout" else timeout
        mn, mr = None, None
        if fam is not None and n is not None and r["cls"] != "timeout":
            mn, mr = minimise_n(run, fam, n, tool, args, tmo, r["sig"])
            if mr:
                data, r = G.shape(fam, mn), mr
            else:
                mn = n
        elif isinstance(data, dict) or e["r"].get("env") or e["r"].get("obstacles") or e["r"].get("valgrind"):
            pass            # several files (INCLUDE chains) / environment-dependent: reported as generated
        elif r["cls"] != "timeout" and 256 <= len(data) < 400000:
            d2, r2 = minimise_lines(run, data, tool, args, tmo, sig=r["sig"])
            if r2:
                data, r = d2, r2
        key = make_key(tool, r, fam)
        what = (f"{tool} {' '.join(args)} on {e['tag']}" + (f" (minimal n={mn})" if mn is not None else "") +
                f": {r['cls']} [{r['sig']}] rc={r['rc']}" + (f"; also {', '.join(e['also'][:6])}" if e["also"] else ""))
        if e["r"].get("env"):
            what += " with " + ", ".join(f"{k}=<{len(v)} characters>" for k, v in e["r"]["env"].items())
        rep = {"tool": tool, "args": list(args), "env": e["r"].get("env"), "obstacles": e["r"].get("obstacles"), "valgrind": bool(e["r"].get("valgrind")), "class": r["cls"], "signature": r["sig"], "exit": r["rc"],
               "family": fam, "n": mn,
               "input_latin1": None if isinstance(data, dict) else (data.decode("latin-1") if len(data) <= 300000 else None),
               "files_latin1": {k: v.decode("latin-1") for k, v in data.items()} if isinstance(data, dict) else None,
               "input_len": sum(len(v) for v in data.values()) if isinstance(data, dict) else len(data), "regenerate": f"tools/c06_gen.py shape({fam!r}, {mn})" if fam else None,
               "stderr": r["err"][:2500],
               "how": "write input to in.exp; run the ASan+UBSan build of <tool> <args> in.exp (ASAN_OPTIONS=detect_leaks=0)"}
        if ctx.violation(key, what, rep):
            reported += 1
    return len(seen)


# ------------------------------------------------------------------ proof side
def failing_theorems(ctx):
    """names of C06_ theorems mentioned by position in the lake error output"""
    src = open(L.module_file(PROPS)).read().split("\n")
    starts = [(i + 1, m.group(1)) for i, l in enumerate(src) for m in [re.match(r"\s*theorem\s+(C06_\S+)", l)] if m]
    bad = set()
    for name, detail in ctx.broken:
        for m in re.finditer(r"Props/C06\.lean:(\d+):\d+", detail):
            ln = int(m.group(1))
            owner = None
            for s, nm in starts:
                if s <= ln:
                    owner = nm
            if owner:
                bad.add(owner)
    return sorted(bad)


THEOREM_SITE = {
    "C06_no_overflow_remark": ["tail_remark", "line_remark"],
    "C06_scope_depth": ["nested_functions", "nested_queries"], "C06_scope_depth_tokens": ["nested_functions"],
    "C06_scope_index_in_range": ["nested_functions"],
    "C06_no_overflow_wrap": ["ident_entity", "encoded_string"], "C06_no_overflow_raw": ["string_literal"],
    "C06_no_overflow_wrap_line": [], "C06_no_overflow_exprlength": ["ident_attribute", "quoted"], "C06_exprlength_children_agree": ["quoted"],
    "C06_no_overflow_case_fns": ["ident_enum_item", "ident_attribute", "ident_schema"], "C06_ident_gate": ["ident_enum_item", "ident_schema"],
    "C06_ident_gate_present": ["ident_enum_item", "ident_schema"], "C06_no_overflow_type_description": ["many_enum_items"],
    "C06_no_overflow_exppp_filename": ["ident_schema"],
    "C06_inheritance_terminates": ["subtype_cycle"], "C06_named_attribute_terminates": ["subtype_cycle"],
    "C06_no_overflow_non_unique_types": ["wide"], "C06_string_buffer_terminated": ["longexpr"],
    "C06_error_heap_bounded": ["errbuf"], "C06_error_heap_index": ["errbuf"],
    "C06_nonzero_exit_has_diagnostic": ["exit_discipline"], "C06_zero_exit_no_error_nothing_buffered": ["exit_discipline"],
    "C06_run_ends_and_abort_after_diagnostic": ["exit_discipline"], "C06_exit_status_independent_of_buffering": ["exit_discipline"], "C06_every_exit_site_prints": ["exit_discipline"],
    "C06_dag_walks_linear": ["lattice"], "C06_complex_support_nodes_bounded": ["lattice"],
    "C06_rename_search_terminates": ["use_cycle"], "C06_rename_resolution_terminates": ["use_cycle"], "C06_rename_guard_kind_is_path": ["use_cycle"], "C06_import_graph_walks_terminate": ["use_cycle"], "C06_no_overflow_scan_buffers": ["scan_buffers"], "C06_no_overflow_open_comment": ["open_comment"],
    "C06_no_overflow_schema_file_name": ["schema_file", "schema_path"], "C06_schema_path_leaf_in_range": ["schema_path"],
    "C06_no_overflow_escape_buffer": ["escape_buffer"], "C06_no_overflow_exprto_python": ["exprto_python"],
    "C06_select_qualifier_terminates": ["selectsearch"], "C06_nesting_bounded": ["deep_left_sum", "stmt_if", "nested_aggr_type"],
    "C06_nesting_limits_present": ["deep_left_sum", "stmt_if", "nested_aggr_type"], "C06_no_overread_python_indent": ["stmt_if_else"],
}


# ------------------------------------------------------------------ main
def run(ctx):
    quick = ctx.tier == "quick"
    ctx.trusted += [
        "tools/extract.d/c06_buffers.py (regex extraction of capacities, copy bounds, guards, flush rule, warning classes, exit statuses)",
        "hand-written bounded-buffer models lean/StepModel/BuffersCore.lean (modelled, not verified; tied by the boundary correspondence)",
        "AddressSanitizer + UndefinedBehaviorSanitizer (gcc) as the observer of memory behaviour; tools/c06_gen.py, tools/c06_run.py",
        "everything outside the modelled sites (heap lifetime, other buffers, resolver dereferences, real time) is observed by sanitizer runs only = testing",
    ]
    ctx.assumptions += [
        "memory safety of C is not proved: theorems cover only the modelled sites; the remainder is sanitizer-instrumented testing",
        "termination of the re2c scanner and the lemon parser is not modelled (finite token stream); only a wall-clock bound per run is observed",
        "wrap(): indent2 >= 0; exppp -l option values are not part of the input space",
        "EXPRstring: per-node fixed text and separators are bounded by the regenerated maxima (sum of literals per case, %d <= 11, real2exp < PP_SMALL_BUF_SZ)",
        "scope pushes/pops of the LR parser are well nested (no pop without a push)",
    ]
    ctx.cov["partial"] = [
        {"scope": "whole property", "excluded": "all memory behaviour outside the modelled sites; observed by ASan/UBSan runs only"},
    ]
    proof_ok = ctx.lean(PROPS, exes=["m_c06"], extractors=["c06_buffers"])
    failing = failing_theorems(ctx) if not proof_ok else []
    if not proof_ok:
        print(f"[C06] proof obligations that no longer check: {failing or '(see replay)'}", flush=True)
        L.lake_build(["m_c06"])      # the driver does not depend on the proofs
    exe = ctx.model_exe("m_c06")
    if not os.path.exists(exe):
        return
    model = Model(exe)
    b = ctx.build("asan")
    run_ = Runner(ctx, b)
    tmo = 20 if quick else 60
    t0 = time.time()

    # 0. corpus (minimised past failures) first
    items = []
    for f in sorted(glob.glob(os.path.join(VERIF, "corpus", "C06", "*.exp"))):
        items.append((f"corpus:{os.path.basename(f)}", open(f, "rb").read(), None, None))
    if items:
        run_.run(items, timeout=tmo)

    # 1. boundary correspondence: model prediction vs sanitizer observation around every modelled capacity
    disagreements = []
    ncomp = 0
    for fam, tools, query, marks in SITES:
        ns = boundary_ns(model, query, ctx.tier)
        its = [(f"boundary:{fam}:{n}", G.shape(fam, n), fam, n) for n in ns]
        res = run_.run(its, tools_of=lambda tag, f, tools=tools: tools, timeout=tmo)
        preds = model.ask(*[query(n) for n in ns])
        for n, pred in zip(ns, preds):
            pc = mclass(pred)
            for t in tools:
                r = res[(f"boundary:{fam}:{n}", t)]
                ncomp += 1
                hit = r["cls"] == "sanitizer" and any(m in r["sig"] or m in r["err"][:1500] for m in marks)
                ctx.hist("model_prediction", f"{fam.split('_')[0]}:{pc}")
                if pc == "overflow" and not hit and r["cls"] not in ("signal", "sanitizer"):
                    disagreements.append((fam, n, t, pred, f"{r['cls']} {r['sig']}"))
                elif pc != "overflow" and hit:
                    disagreements.append((fam, n, t, pred, f"{r['cls']} {r['sig']}"))
                elif pc == "reject" and r["cls"] not in ("reject",) + R.BAD:
                    disagreements.append((fam, n, t, pred, f"{r['cls']} rc={r['rc']}"))
                elif pc == "reject" and r["cls"] == "reject" and pred == "reject" and query(1).startswith("nesting") and "levels of nesting" not in r["err"] + r["diag"]:
                    disagreements.append((fam, n, t, pred, f"rejected without the nesting diagnostic: {r['diag'][:120]}"))
                elif pc == "ok" and query(1).startswith("nesting") and r["cls"] == "reject":
                    disagreements.append((fam, n, t, pred, f"rejected although the model accepts this depth: {r['diag'][:120]}"))
                elif pc == "reject" and r["cls"] == "reject" and "nested" in fam and not query(1).startswith("nesting") and "nested scopes" not in r["err"]:
                    disagreements.append((fam, n, t, pred, f"rejected without the depth diagnostic: {r['diag'][:120]}"))
                elif pc == "reject" and r["cls"] == "reject" and fam.startswith("ident_") and t != "exppp" and "characters long" not in r["err"]:
                    disagreements.append((fam, n, t, pred, f"rejected without the identifier-length diagnostic: {r['diag'][:120]}"))
                elif pc == "ok" and fam.startswith("ident_") and t != "exppp" and r["cls"] == "reject" and "characters long" in r["err"]:
                    disagreements.append((fam, n, t, pred, "identifier refused although the model's gate accepts it"))
    # recursion over the supertype relation: the model's verdict (returns / never returns) vs the tools on SUBTYPE OF cycles
    for n in (1, 2, 3, 40):
        preds = model.ask(f"recursion inheritance cycle {n}", f"recursion named-attribute cycle {n + 1}")
        its = [(f"boundary:subtype_cycle:{n}", G.shape("subtype_cycle", n), "subtype_cycle", n)]
        res = run_.run(its, timeout=tmo)
        for t in R.TOOLS:
            r = res[(f"boundary:subtype_cycle:{n}", t)]
            ncomp += 1
            if all(p.startswith("returns") for p in preds):
                if r["cls"] == "reject" and not any(x in r["err"] + r["diag"] for x in ("subtype of itself", "via supertype entity")):
                    disagreements.append(("subtype_cycle", n, t, preds, f"rejected without the cycle diagnostic: {r['diag'][:100]}"))
                elif r["cls"] == "accept":
                    disagreements.append(("subtype_cycle", n, t, preds, "cyclic SUBTYPE OF accepted"))
            elif r["cls"] not in R.BAD:
                disagreements.append(("subtype_cycle", n, t, preds, f"{r['cls']} rc={r['rc']}"))
    # the five small sites of the inventory: model prediction vs the tools at the sizes around each constant
    def site_check(tag, pred, res_list, marks, what):
        nonlocal ncomp
        for r in res_list:
            ncomp += 1
            hit = r["cls"] in R.BAD and any(x in r["sig"] + r["err"][:2500] for x in marks)
            if (mclass(pred) == "overflow") != hit and not (mclass(pred) == "overflow" and r["cls"] in R.BAD):
                disagreements.append((what, tag, r["tool"], pred, f"{r['cls']} {r['sig']}"))
    for n in (1, 4, 5, 6, 7, 8, 30):            # SCAN_buffers[6]
        res = run_.run([(f"boundary:include:{n}", G.include_chain(n, False), None, None)], timeout=tmo)
        site_check(f"include:{n}", model.one(f"scan {n}"), [res[(f"boundary:include:{n}", t)] for t in R.TOOLS], ("SCANpush_buffer", "SCAN_buffers", "SCANinclude_file"), "scan_buffers")
    for n in (1, 19, 20, 21, 22, 40, 400):      # open_comment[20]
        res = run_.run([(f"boundary:nested_comments:{n}", G.nested_comments(n), "nested_comments", n)], timeout=tmo)
        site_check(f"comments:{n}", model.one(f"comments {n}"), [res[(f"boundary:nested_comments:{n}", t)] for t in R.TOOLS], ("open_comment", "PERPLEX_LEXER_private"), "open_comment")
    for n in (100, 254, 255, 256, 257, 300, 5000):          # lower[256] / full[256] through USE FROM <long name>
        res = run_.run([(f"boundary:use_from_long:{n}", G.use_from_long(n), "use_from_long", n)], timeout=tmo)
        site_check(f"use_from_long:{n}", model.one(f"findschema 0 {n}"), [res[(f"boundary:use_from_long:{n}", t)] for t in R.TOOLS], ("EXPRESSfind_schema", "lower"), "schema_file")
    for n in (100, 253, 254, 255, 256, 300, 5000):          # Dir.full[256] through EXPRESS_PATH (environment, not file bytes)
        pred = model.one(f"pathentry {n}")
        rs = []
        for t in ("check-express", "exp2cxx"):
            r = R.run_tool(b, t, G.trivial("use_missing"), ctx.work, timeout=tmo, env_extra={"EXPRESS_PATH": "/" + "d" * (n - 1)})
            ctx.count(1, key=("exppath", n, t))
            if r["cls"] in R.BAD:
                run_.bad.append((f"exppath:{n}", G.trivial("use_missing"), None, None, dict(r, env={"EXPRESS_PATH": "/" + "d" * (n - 1)})))
            rs.append(r)
        site_check(f"exppath:{n}", pred, rs, ("EXPRESS_PATHinit", "EXPRESSinitialize"), "schema_path")
    for n in (100, 4096, 8190, 8191, 8192, 8193, 20000):    # format_for_stringout buffer
        res = run_.run([(f"boundary:escape_backslash:{n}", G.escape_heavy("backslash", n), "escape_backslash", n)], tools_of=lambda tg, f: ["exp2cxx"], timeout=tmo)
        site_check(f"escape:{n}", model.one(f"escape {n + 2} {n}"), [res[(f"boundary:escape_backslash:{n}", "exp2cxx")]], ("format_for_stringout", "ENTITYincode_print"), "escape_buffer")
    for n in (100, 99990, 99996, 99999, 100000, 100010, 120000):   # EXPRto_python
        res = run_.run([(f"boundary:bound_string_arg:{n}", G.bound_expr("string_arg", n), "bound_string_arg", n)], tools_of=lambda tg, f: ["exp2python"], timeout=tmo)
        site_check(f"pycall:{n}", model.one(f"pycall 2 {n + 2},2"), [res[(f"boundary:bound_string_arg:{n}", "exp2python")]], ("EXPRto_python", "process_aggregate"), "exprto_python")
    # string literals with apostrophes wherever the printers measure or print an expression: EXPRstring vs EXPRstring_bound
    sizes = [(100, 1.0), (5000, 0.5), (6000, 1.0), (9900, 0.05), (9900, 1.0), (12000, 0.5)] if quick else \
            [(n, d) for n in (100, 127, 5000, 6000, 9871, 9900, 12000, 60000) for d in (0.0, 0.02, 0.5, 1.0)]
    for pos in G.QUOTED_POSITIONS:
        for n, dens in sizes:
            q = int(round(n * dens))
            pred = model.one(f"exprlit {n} {q}")
            tag = f"boundary:quoted:{pos}:{n}:{q}"
            res = run_.run([(tag, G.quoted_literal(pos, n, dens), None, None)], tools_of=lambda tg, f: ["exppp", "exp2cxx", "check-express"], timeout=tmo)
            for t in ("exppp", "exp2cxx"):
                r = res[(tag, t)]
                ncomp += 1
                hit = r["cls"] in R.BAD and any(x in r["sig"] + r["err"][:2500] for x in ("EXPRstring", "EXPRlength", "CASEout"))
                if pos.startswith("case_label") and (mclass(pred) == "overflow") != hit:
                    disagreements.append(("quoted", f"{pos}:{n}:{q}", t, pred, f"{r['cls']} {r['sig']}"))
                elif not pos.startswith("case_label") and hit:
                    disagreements.append(("quoted", f"{pos}:{n}:{q}", t, pred, f"{r['cls']} {r['sig']}"))
    # aggregate initialisers with a repetition count `[ x : count ]` (audit C06-1): bound and writer look at different nodes
    rsizes = [(100, "ident"), (9000, "ident"), (9990, "ident"), (10100, "ident"), (20000, "ident"), (12000, "sum"), (20000, "call")] if quick else \
             [(n, k) for n in (100, 5000, 9800, 9850, 9870, 9990, 10000, 10100, 20000, 60000) for k in ("ident", "sum", "call")]
    for pos in G.REPEAT_POSITIONS:
        for n, kind in rsizes:
            if kind == "sum" and n > 16000:
                continue            # deeper than the resolver's nesting limit: refused, nothing printed
            pred = model.one(f"exprrep {n}")
            tag = f"boundary:repeat:{pos}:{kind}:{n}"
            res = run_.run([(tag, G.repeat_count(pos, n, kind), None, None)], tools_of=lambda tg, f: ["exppp", "exp2cxx", "check-express"], timeout=tmo)
            for t in ("exppp", "exp2cxx"):
                r = res[(tag, t)]
                ncomp += 1
                hit = r["cls"] in R.BAD and any(x in r["sig"] + r["err"][:2500] for x in ("EXPRstring", "EXPRlength", "CASEout"))
                if pos.startswith("case_label") and t == "exppp" and kind != "sum" and (mclass(pred) == "overflow") != hit and not (mclass(pred) == "overflow" and r["cls"] == "reject"):
                    disagreements.append(("quoted", f"repeat:{pos}:{kind}:{n}", t, pred, f"{r['cls']} {r['sig']}"))
                elif mclass(pred) != "overflow" and hit:
                    disagreements.append(("quoted", f"repeat:{pos}:{kind}:{n}", t, pred, f"{r['cls']} {r['sig']}"))
    # interface resolution: a missing item imported from a schema on a ring of whole-schema USE clauses
    for n in (1, 2, 3, 7):
        pred = model.one(f"renamesearch {n}")
        res = run_.run([(f"boundary:use_cycle:{n}", G.use_cycle(n), "use_cycle", n)], timeout=tmo)
        for t in R.TOOLS:
            r = res[(f"boundary:use_cycle:{n}", t)]
            ncomp += 1
            if pred == "returns" and not (r["cls"] == "reject" and "non-existent object" in r["err"] + r["diag"]):
                if r["cls"] not in R.BAD:
                    disagreements.append(("use_cycle", n, t, pred, f"{r['cls']} rc={r['rc']}: {r['diag'][:100]}"))
            elif pred == "never-returns" and r["cls"] not in R.BAD:
                disagreements.append(("use_cycle", n, t, pred, f"{r['cls']} rc={r['rc']}"))
    # non_unique_types_string: which kinds are reached twice -> fits / overflows the malloc'ed block
    for omit in ((), (1,), (6,), (0,), (4, 5), tuple(range(8))):
        bits = "".join("0" if i in omit else "1" for i in range(8))
        for t, tool in (("exp2cxx", "exp2cxx"), ("exp2python", "exp2python")):
            pred = model.one(f"nonunique {tool} {bits}")
            its = [(f"boundary:wide:{bits}", G.wide_select(2, omit, 1) if len(omit) < 8 else G.wide_select(1, (), 0), "wide", None)]
            r = run_.run(its, tools_of=lambda tag, f, t=t: [t], timeout=tmo)[(f"boundary:wide:{bits}", t)]
            ncomp += 1
            hit = r["cls"] == "sanitizer" and "non_unique_types_string" in (r["sig"] + r["err"][:2000])
            if (mclass(pred) == "overflow") != hit and not (mclass(pred) == "overflow" and r["cls"] in R.BAD):
                disagreements.append(("wide", bits, t, pred, f"{r['cls']} {r['sig']}"))
    # error heap: number of buffered diagnostics printed before the tool stops itself
    for fam, body in (("many_lex_errors", len("character ($) is not a valid lexical element by itself")),):
        for n in ([40, 99, 100, 101, 150] if quick else [1, 40, 74, 75, 76, 99, 100, 101, 150, 1000]):
            data = G.shape(fam, n)
            d = os.path.join(ctx.work, f"eh{n}")
            os.makedirs(d, exist_ok=True)
            open(os.path.join(d, "e.exp"), "wb").write(data)
            p = subprocess.run([b.tool("check-express"), "-B", "e.exp"], cwd=d, env=R.tool_env(b), capture_output=True, timeout=tmo)
            err = p.stderr.decode("latin-1")
            got = len(re.findall(r"--ERROR PE\d+", err))
            pre = len("e.exp:10: --ERROR PE042: ")       # line numbers have 1-3 digits: bound from both sides
            lo = model.one(f"errheap {n} {pre - 1} {body}")
            hi = model.one(f"errheap {n} {pre + 1} {body}")
            ctx.count(1, key=("errheap", n))
            ncomp += 1

            def reports(rep):
                m = re.search(r"at-report (\d+)|reports=(\d+)", rep)
                return int(m.group(1) or m.group(2)) if m else -1
            exp = sorted({reports(lo), reports(hi)})
            if "AddressSanitizer" in err or "runtime error" in err or p.returncode not in (0, 1):
                run_.bad.append((f"errheap:{n}", data, fam, n, {"tool": "check-express", "cls": "sanitizer", "sig": R._signature(err),
                                                                 "rc": p.returncode, "err": err[:3000], "wall": 0, "args": ["-B"]}))
            elif not (exp[0] <= got <= exp[-1]) or p.returncode != 1:
                disagreements.append((fam, n, "check-express -B", f"{lo} .. {hi}", f"{got} diagnostics printed, rc={p.returncode}"))
    # buffered diagnostics (-B) through all four tools: messages around the room that is left in the 4000-byte buffer
    body0 = len("Reference to undefined type .")
    cases = [(1, 5000, 0, 0), (1, 100000, 0, 0), (0, 0, 30, 300), (1, 5000, 8, 400), (3, 1500, 0, 0), (1, 3000, 12, 300), (0, 0, 45, 90)]
    cases += [(1, ll, 0, 0) for ll in ((3700, 3800, 3850, 3900, 3950, 4000, 4100) if quick else range(3600, 4200, 25))]
    for nl, ll, nm, ml in cases:
        data = G.diag_fill(nl, ll, nm, ml)
        tag = f"errbuf:{nl}x{ll}+{nm}x{ml}"
        bodies = ",".join([str(body0 + ml)] * nm + [str(body0 + ll)] * nl)
        preds = model.ask(f"errseq 60 {bodies}", f"errseq 110 {bodies}")     # prefix "<path>:<line>: --ERROR PEnnn: " is 60..110 here
        res = run_.run([(tag, data, None, None)], timeout=tmo, args=("-B",))
        for t in R.TOOLS:
            r = res[(tag, t)]
            ncomp += 1
            hit = r["cls"] in R.BAD and any(x in r["sig"] + r["err"][:2500] for x in ("ERROR_nexterror", "ERROR_vprintf", "ERRORvreport_with_symbol", "ERRORreport_with_symbol", "ERROR_flush_message_buffer"))
            pov = [mclass(p) == "overflow" for p in preds]
            if all(pov) and not hit:
                disagreements.append(("errbuf", tag, t + " -B", preds, f"{r['cls']} {r['sig']}"))
            elif not any(pov) and hit:
                disagreements.append(("errbuf", tag, t + " -B", preds, f"{r['cls']} {r['sig']}"))
            elif not any(pov) and r["cls"] != "reject":
                disagreements.append(("errbuf", tag, t + " -B", preds, f"{r['cls']} rc={r['rc']} (expected exit 1 with the buffered diagnostics)"))
    # -w / -i option (ERRORset_warning)
    for name in ("downcast", "unknown_subtype", "no_such_class", "none", "all"):
        pred = model.one(f"setwarning {name}")
        for opt in ("-w", "-i"):
            r = R.run_tool(b, "check-express", G.trivial("schema_only"), ctx.work, timeout=tmo, args=(opt, name))
            ctx.count(1, key=("setwarning", opt, name))
            ncomp += 1
            if r["cls"] in R.BAD:
                run_.bad.append((f"option:{opt} {name}", G.trivial("schema_only"), None, None, r))
                if not pred.startswith("null-deref"):
                    disagreements.append(("setwarning", name, opt, pred, f"{r['cls']} {r['sig']}"))
            elif pred.startswith("null-deref"):
                disagreements.append(("setwarning", name, opt, pred, f"{r['cls']} rc={r['rc']}"))
            elif pred == "done found=false" and r["cls"] != "reject" and name not in ("none", "all"):
                disagreements.append(("setwarning", name, opt, pred, f"{r['cls']} rc={r['rc']}"))
    # exit statuses
    for t in R.TOOLS:
        ok = R.run_tool(b, t, G.valid_schema(__import__("random").Random(7), 0, size=2), ctx.work, timeout=tmo)
        ko = R.run_tool(b, t, G.long_ident("undefined_ref", 8), ctx.work, timeout=tmo)
        for verdict, r in (("accepted", ok), ("errors", ko)):
            pred = model.one(f"exit {t} {verdict}")
            ncomp += 1
            if r["cls"] in R.BAD:
                run_.bad.append((f"exit:{verdict}", b"", None, None, r))
            elif pred != f"status {r['rc']}":
                disagreements.append(("exit", verdict, t, pred, f"rc={r['rc']} ({r['cls']})"))
    # a ring of whole-schema USE clauses that is reachable from, but does not contain, the interfaced schema (seed C06-e1)
    for tag, data, tl, rg, item in G.tail_rings():
        pred = model.one(f"renametail {tl} {rg}")
        res = run_.run([(f"boundary:{tag}", data, None, None)], timeout=tmo)
        for t in R.TOOLS:
            r = res[(f"boundary:{tag}", t)]
            ncomp += 1
            if pred == "returns":
                if r["cls"] in R.BAD:
                    disagreements.append(("use_cycle", tag, t, pred, f"{r['cls']} {r['sig']}"))
                elif item == "missing" and not (r["cls"] == "reject" and "non-existent object" in r["err"] + r["diag"]):
                    disagreements.append(("use_cycle", tag, t, pred, f"{r['cls']} rc={r['rc']}: {r['diag'][:100]}"))
                elif item != "missing" and t == "check-express" and r["cls"] != "accept":
                    disagreements.append(("use_cycle", tag, t, pred, f"{r['cls']} rc={r['rc']}: {r['diag'][:100]}"))
            elif item in ("missing", "late") and r["cls"] not in R.BAD:
                # the model's walk visits every successor; the C code returns early when the name is found first ("early", "tail")
                disagreements.append(("use_cycle", tag, t, pred, f"{r['cls']} rc={r['rc']}"))
    # item-wise interface resolution as a whole: rings and chains of `USE FROM next (x)`
    for n in (1, 2, 3, 10, 60):
        for kind in ("closed", "missing", "declared"):
            pred = model.one(f"renamering {n} {int(kind == 'closed')}")
            tag = f"boundary:rename_ring:{kind}:{n}"
            res = run_.run([(tag, G.rename_ring(n, kind), None, None)], timeout=tmo)
            for t in R.TOOLS:
                r = res[(tag, t)]
                ncomp += 1
                if pred.startswith("returns"):
                    if r["cls"] in R.BAD:
                        disagreements.append(("use_cycle", f"{kind}:{n}", t, pred, f"{r['cls']} {r['sig']}"))
                    elif kind != "declared" and r["cls"] != "reject":
                        disagreements.append(("use_cycle", f"{kind}:{n}", t, pred, f"{r['cls']} rc={r['rc']} (an item nobody declares was accepted)"))
                    elif kind == "declared" and t == "check-express" and r["cls"] != "accept":
                        disagreements.append(("use_cycle", f"{kind}:{n}", t, pred, f"{r['cls']} rc={r['rc']}: {r['diag'][:100]}"))
                elif r["cls"] not in R.BAD:
                    disagreements.append(("use_cycle", f"{kind}:{n}", t, pred, f"{r['cls']} rc={r['rc']}"))
    # lattices: 2n declarations, 2^n paths.  Model: calls of each walk on a ladder; tools: must finish (exp2cxx may refuse a
    # ladder with the node-budget diagnostic, nothing else may)
    lat_tmo = max(tmo, 90)
    # exp2cxx needs about 20 s under ASan for a million nodes (16 levels, or any refused ladder): one such size in the quick tier
    lat = ((("ladder_plain", (4, 12, 32, 40, 100)), ("ladder_super", (4, 30)), ("ladder_rules", (4, 30)), ("ladder_select", (4, 30, 200)), ("ladder_type", (4, 30, 200)))
           if quick else
           (("ladder_plain", (4, 12, 16, 17, 26, 32, 40, 200)), ("ladder_super", (4, 12, 17, 30)), ("ladder_rules", (4, 12, 17, 30)),
            ("ladder_select", (4, 12, 30, 31, 32, 200)), ("ladder_type", (4, 12, 30, 200))))
    for fam, sizes in lat:
        for n in sizes:
            tag = f"boundary:{fam}:{n}"
            heavy = quick and fam in ("ladder_plain", "ladder_super", "ladder_rules") and n > 12 and not (fam == "ladder_plain" and n == 40)
            res = run_.run([(tag, G.shape(fam, n), fam, n)], timeout=lat_tmo,
                           tools_of=(lambda tg, f: [t for t in R.TOOLS if t != "exp2cxx"]) if heavy else (lambda tg, f: R.TOOLS))
            preds = {w: model.one(f"dagwalk {w} {n}") for w in ("ENTITY_get_all_attributes", "ENTITYhas_ancestor", "non_unique_types_vector")}
            budget = model.one("nodebudget")
            for t in R.TOOLS:
                if (tag, t) not in res:
                    continue
                r = res[(tag, t)]
                ncomp += 1
                slow = [w for w, pr in preds.items() if pr.startswith("calls 2^") or (pr.startswith("calls ") and pr.split()[1].isdigit() and int(pr.split()[1]) > 10 ** 8)]
                refused = r["cls"] == "reject" and "complex entity support" in r["err"]
                if r["cls"] == "timeout":
                    if not slow and not (t == "exp2cxx" and "none" in budget):
                        disagreements.append((fam, n, t, f"{preds} {budget}", f"timeout after {lat_tmo} s"))
                elif refused:
                    if t != "exp2cxx" or "none" in budget or not fam.startswith("ladder_") or fam in ("ladder_select", "ladder_type") or n < 14:
                        disagreements.append((fam, n, t, budget, f"refused: {r['diag'][:80]}"))
                elif r["cls"] != "accept" and r["cls"] not in R.BAD:
                    disagreements.append((fam, n, t, f"{preds}", f"{r['cls']} rc={r['rc']}: {r['diag'][:100]}"))
    # outputs that cannot be created: every file or directory a generator writes, with a directory (a file) of that name in the
    # way.  Oracle as everywhere: no crash, a line saying "error" => non-zero status, non-zero status => a diagnostic.
    ncomp += unwritable_stream(ctx, b, run_, tmo, quick)
    # exit-status discipline: inputs with a known sequence of reports, with and without -B; invocations without an input file
    ncomp += exit_discipline_stream(ctx, b, model, tmo, disagreements)
    ctx.cov["correspondence"]["boundary"] = {"comparisons": ncomp, "disagreements": len(disagreements),
                                             "wall_s": round(time.time() - t0, 1)}

    # 2. pathological shapes
    t1 = time.time()
    shapes = shape_inputs(ctx.tier)
    run_.run(shapes, timeout=tmo)
    ctx.cov["correspondence"]["shapes"] = {"inputs": len(shapes), "wall_s": round(time.time() - t1, 1)}
    t1b = time.time()
    longs = long_expr_inputs(ctx.tier)
    resl = run_.run(longs, tools_of=lambda tag, fam: ["exp2cxx", "exp2python", "check-express"], timeout=max(tmo, 120))
    # model: the string exp2cxx gets back is terminated inside the block whatever the chunk lengths
    for tag, data, _, _ in longs:
        n = int(tag.split(":")[2])
        pred = model.one(f"strbuf 20,{n},5")
        r = resl[(tag, "exp2cxx")]
        ncomp += 1
        hit = r["cls"] in R.BAD and any(x in r["sig"] + r["err"][:2500] for x in ("exp_output", "format_for_std_stringout", "finish_string", "exppp"))
        if ("terminated=false" in pred or mclass(pred) == "overflow") != hit:
            disagreements.append(("longexpr", n, "exp2cxx", pred, f"{r['cls']} {r['sig']}"))
    # selects that reach themselves through named aggregates (legal), renamed selects
    run_.run([(f"recursive_select:{tg}", d, None, None) for tg, d in G.recursive_selects()], timeout=tmo)
    # exppp options that change where output goes: several schemas to stdout, to one named file
    outs = [(f"stdout:{n}", G.multi_schema(n), None, None) for n in (1, 2, 3)]
    run_.run(outs, tools_of=lambda tag, fam: ["exppp"], timeout=tmo, args=("-o", "--"))
    run_.run(outs, tools_of=lambda tag, fam: ["exppp"], timeout=tmo, args=("-o", "one_file.exp"))
    # exppp -l: every line length the option accepts (2 to 5 characters, atoi), incl. negative, zero and non-numeric; the model's
    # continuation-line theorem assumes indent2 >= 0 and says nothing about -l, so this is observation only
    lrng = __import__("random").Random(11)
    lins = [(f"linelength:valid{i}", G.valid_schema(lrng, i, size=3), None, None) for i in range(2 if quick else 6)] + \
           [("linelength:long_ident", G.long_ident("attribute", 180), None, None), ("linelength:nested_if", G.nested_statements("if", 30), None, None)]
    for l in ("-9999", "-100", "-1", "00", "01", "02", "03", "05", "09", "10", "11", "15", "20", "99999", "ab", "+1"):
        run_.run([(f"{tg}:{l}", d, f, n) for tg, d, f, n in lins], tools_of=lambda tag, fam: ["exppp"], timeout=tmo, args=("-l", l))
    # select cycles used as the left operand of `.` / `\`: model verdict vs the tools
    for ln in (1, 2, 3):
        pred = model.one(f"selectsearch {ln}")
        for tag, data in G.contradictions_with_uses():
            if tag.startswith(f"uses:selcycle{ln}_entfirst:") and tag.split(":")[2] in ("dot", "group_dot"):
                res = run_.run([(f"boundary:{tag}", data, None, None)], timeout=tmo)
                for t in R.TOOLS:
                    r = res[(f"boundary:{tag}", t)]
                    ncomp += 1
                    if pred.startswith("returns") and r["cls"] == "accept":
                        disagreements.append(("selectsearch", ln, t, pred, "circular select accepted"))
                    elif pred == "never-returns" and r["cls"] not in R.BAD:
                        disagreements.append(("selectsearch", ln, t, pred, f"{r['cls']} rc={r['rc']}"))
    ctx.cov["correspondence"]["long_expressions_and_options"] = {"inputs": len(longs) + 6, "wall_s": round(time.time() - t1b, 1)}

    # 3. generated valid schemas, then token- and byte-level mutants of them
    t2 = time.time()
    nvalid, nmut = (40, 260) if quick else (300, 5000)
    valids = [(f"valid:{i}", G.valid_schema(ctx.rng, i), None, None) for i in range(nvalid)]
    res = run_.run(valids, timeout=tmo)
    rejected = [tag for (tag, t), r in res.items() if t == "check-express" and r["cls"] == "reject"]
    ctx.cov["correspondence"]["valid"] = {"inputs": nvalid, "rejected_by_checker": len(rejected), "wall_s": round(time.time() - t2, 1)}
    if len(rejected) > nvalid // 2:
        ctx.broken.append(("generator tools/c06_gen.py valid_schema", f"{len(rejected)}/{nvalid} generated schemas are rejected by check-express; "
                           f"first: {res[(rejected[0], 'check-express')]['diag']}"))
    t3 = time.time()
    muts = []
    bases = [v[1] for v in valids]
    if not quick:
        for f in shipped_schemas()[:6]:
            d = open(f, "rb").read()
            if len(d) < 300000:
                bases.append(d)
    for i in range(nmut):
        base = ctx.rng.choice(bases)
        m = G.token_mutant(ctx.rng, base) if i % 2 == 0 else G.byte_mutant(ctx.rng, base)
        muts.append((f"{'tokmut' if i % 2 == 0 else 'bytemut'}:{i}", m, None, None))
    first = run_.run(muts, tools_of=lambda tag, fam: ["check-express"], timeout=tmo)
    acc = [it for it in muts if first[(it[0], "check-express")]["cls"] == "accept"]
    rej = [it for it in muts if first[(it[0], "check-express")]["cls"] != "accept"]
    rest = acc + rej[:max(20, len(rej) // (8 if quick else 4))]
    run_.run(rest, tools_of=lambda tag, fam: ["exppp", "exp2cxx", "exp2python"], timeout=tmo)
    ctx.cov["correspondence"]["mutants"] = {"inputs": nmut, "accepted_by_checker": len(acc), "run_through_backends": len(rest),
                                            "wall_s": round(time.time() - t3, 1)}

    # 3b. semantically contradictory but syntactically valid schemas (one injected fault each) from the shared generator
    t3b = time.time()
    faults = []
    try:
        from vlib import schema_gen_express as X
        per = 2 if quick else 12
        for name in sorted(X.MUTATORS) + sorted(X.FILE_MUTATORS):
            made = 0
            for attempt in range(per * 4):
                if made >= per:
                    break
                try:
                    if name in X.FILE_MUTATORS or attempt % 2:
                        flt = X.mutate_file(X.gen_file(ctx.rng), name, ctx.rng)
                    else:
                        flt = X.mutate(X.gen_schema(ctx.rng, size=ctx.rng.randint(3, 7)), name, ctx.rng)
                except Exception:
                    flt = None
                if flt is None:
                    continue
                text, _ = X.render(flt.schema)
                faults.append((f"fault:{name}:{made}", text.encode(), None, None))
                made += 1
            ctx.hist("fault_class", name, made)
    except ImportError as ex:
        ctx.broken.append(("fault stream", f"vlib/schema_gen_express.py not importable: {ex}"))
    if faults:
        run_.run(faults, timeout=tmo)
    ctx.cov["correspondence"]["faults"] = {"inputs": len(faults), "wall_s": round(time.time() - t3b, 1)}

    # 4. shipped schemas (thorough tier: exp2cxx on the big AP schemas is slow)
    if not quick:
        t4 = time.time()
        ships = [(f"shipped:{os.path.relpath(f, B.REPO)}", open(f, "rb").read(), None, None) for f in shipped_schemas()]
        run_.run(ships, timeout=600)
        ctx.cov["correspondence"]["shipped"] = {"inputs": len(ships), "wall_s": round(time.time() - t4, 1)}
        # chains over DECLARATIONS (not nesting in the text): the recursions over supertypes are as deep as the chain is long
        run_.run([("deepdecl:subtype_chain:150000", G.subtype_chain(150000), None, None)],
                 tools_of=lambda tag, fam: ["check-express"], timeout=300)

    # 4b. thorough: uninitialised reads (valgrind memcheck on the plain build; ASan does not see them, and without ASLR luck
    #     neither does a plain run): generated valid schemas incl. wide selects, contradictions, one shipped schema, per tool
    if not quick and shutil.which("valgrind"):
        t4 = time.time()
        bp = ctx.build("plain")
        vin = [(f"valgrind:valid{i}", G.valid_schema(__import__("random").Random(900 + i), i, size=3)) for i in range(3)]
        vin += [(f"valgrind:{tg}", d) for tg, d in G.wide_selects()[:4]]
        vin += [(f"valgrind:{k}", f()) for k, f in list(G.CONTRADICTIONS.items())[::9]]
        vin += [(f"valgrind:{tg}", d) for tg, d in G.recursive_selects()]
        vin += [("valgrind:ladder_select6", G.shape("ladder_select", 6)), ("valgrind:ladder_plain6", G.shape("ladder_plain", 6)), ("valgrind:unwritable_input", UNWRITABLE_INPUT)]
        pdm = glob.glob(os.path.join(B.REPO, "data", "pdm*", "*.exp"))
        if pdm:
            vin.append(("valgrind:shipped_pdm", open(pdm[0], "rb").read()))
        from concurrent.futures import ThreadPoolExecutor
        jobs = [(tg, d, t) for tg, d in vin for t in R.TOOLS]
        with ThreadPoolExecutor(max_workers=12) as ex:
            results = list(ex.map(lambda j: (j, R.run_valgrind(bp, j[2], j[1], ctx.work, timeout=600)), jobs))
        for (tg, d, t), r in results:
            ctx.count(1, key=(tg, t, "valgrind"))
            if r["cls"] in ("valgrind", "signal", "timeout"):
                run_.bad.append((tg, d, None, None, dict(r, cls="sanitizer" if r["cls"] == "valgrind" else r["cls"], valgrind=True)))
        ctx.cov["correspondence"]["valgrind"] = {"runs": len(jobs), "wall_s": round(time.time() - t4, 1)}

    # 5. verdict: the oracle first (every misbehaviour is a failing input), then model/implementation disagreements
    distinct = report_bad(ctx, run_, tmo)
    ctx.cov["correspondence"]["misbehaviours_distinct"] = distinct
    ctx.cov["rule"] = ("inputs: corpus; boundary sizes around each modelled capacity (from the model's own threshold); "
                       "31+14 shape families x sizes; trivial and no-final-newline files; generated valid schemas; "
                       "token mutants (delete/dup/swap/replace/truncate/stretch) and byte mutants (flip/insert NUL,0x80,0xff,quotes/delete/truncate/stretch); "
                       "thorough: every data/**/*.exp.  distinct = distinct (input, tool, args).")
    ctx.sample({"boundary": [(f, t, q(256)) for f, t, q, _ in SITES[:4]]})
    ctx.sample({"valid_schema_0": valids[0][1].decode()[:600]})
    if muts:
        ctx.sample({"mutant_1": muts[1][1].decode("latin-1")[:300]})
    if disagreements:
        explained = {site_of(r["sig"]) for _, _, _, _, r in run_.bad}
        for fam, n, t, pred, obs in disagreements[:6]:
            if fam in explained and ctx.violations:
                continue        # the disagreeing input is itself reported as a violation above
            ctx.broken.append((f"correspondence model vs {t} at {fam}({n})", f"model predicts {pred!r}, observed {obs}"))
    if not proof_ok and (ctx.violations or ctx.known):
        # the failing theorems have their concrete failing inputs above; keep the broken entries only when no
        # input was found for a theorem's site
        covered = {site_of(k) for k, _, _ in ctx.violations} | {site_of(k) for k, _ in ctx.known}
        keep = []
        for name, detail in ctx.broken:
            if name.startswith("lake build"):
                unexplained = [th for th in failing if not (set(THEOREM_SITE.get(th, ["?"])) & {c for c in covered if c}) and
                               not (th == "C06_setwarning_total" and any("ERRORset_warning" in k or "option" in w for k, w, _ in ctx.violations))]
                if unexplained:
                    keep.append((f"theorems {unexplained}", detail))
            else:
                keep.append((name, detail))
        ctx.broken[:] = keep


def replay(ctx, path):
    d = json.load(open(path))
    r = d.get("replay", d)
    ctx.lean(PROPS, exes=["m_c06"], extractors=["c06_buffers"])
    if "tool" not in r:
        return
    b = ctx.build("asan")
    if r.get("files_latin1"):
        data = {k: v.encode("latin-1") for k, v in r["files_latin1"].items()}
    elif r.get("input_latin1") is not None:
        data = r["input_latin1"].encode("latin-1")
    else:
        data = G.shape(r["family"], r["n"])
    if r.get("valgrind"):
        res = R.run_valgrind(ctx.build("plain"), r["tool"], data, ctx.work, timeout=600, args=tuple(r.get("args", ())))
        print(f"[C06] replay (valgrind): {r['tool']} -> {res['cls']} {res['sig']}", flush=True)
        if res["cls"] in ("valgrind", "signal", "timeout"):
            ctx.violation(res["sig"], f"{r['tool']}: {res['sig']}", r)
        return
    res = R.run_tool(b, r["tool"], data, ctx.work, timeout=120, args=tuple(r.get("args", ())), env_extra=r.get("env"), no_input=bool(r.get("no_input")),
                     obstacles=tuple(tuple(x) for x in (r.get("obstacles") or ())))
    ctx.count(1, key=("replay", r["tool"]))
    if r.get("obstacles") and res["cls"] == "accept" and r.get("class") == "badexit":
        res.update(cls="badexit", sig=r.get("signature", "status 0 although an output could not be created"))
    if r.get("expect"):
        probs = judge_exit(res, r["expect"])
        print(f"[C06] replay: {r['tool']} {' '.join(r.get('args', []))} -> rc={res['rc']} {probs}", flush=True)
        for kind, text in probs:
            ctx.violation(f"exit-discipline:{r['tool']}:{kind}" if kind in ("crash", "status", "no-diagnostic") else f"exit-discipline:{kind}", f"{r['tool']}: {text}", r)
        return
    print(f"[C06] replay: {r['tool']} -> {res['cls']} rc={res['rc']} {res['sig']}", flush=True)
    if res["cls"] in R.BAD:
        ctx.violation(make_key(r["tool"], res, r.get("family")), f"{r['tool']}: {res['cls']} [{res['sig']}] rc={res['rc']}", r)

"""C15 - strict and lenient handling of missing required attributes is as documented.

proof:           lean/StepModel/Props/C15.lean - the decision table for every attribute position of every instance
                 shape at every position of a population (model: lean/StepModel/AttrNull.lean)
regenerated tie: tools/extract.d/attrnull.py (pre-check of STEPattribute::STEPread: null characters, filler strings and
                 readers, severities, `strict` defaults and forwarding, the read loop incl. its pre-TC branch, how
                 STEPcomplex::STEPread merges the parts' errors, p21read exit rule) and tools/extract.d/stepfile.py
                 (AppendEntityErrorMsg, ReadInstance, ReadData2, AppendFile) -> Generated/{AttrNullGen,StepFileGen}.lean
correspondence:  harness/h_p21.cc linked with generated schema libraries (and the real p21read built against the same
                 library) vs lean exe m_c15 on populations with exactly one attribute replaced by `$` / nothing; the
                 pre-technical-corrigendum encoding (harness `readpre` = ReadExchangeFile( f, false )) on instances of
                 entities with redeclared attributes: `*` / `$` / nothing / a literal at each redefining entry, each
                 plain position unset, every truncation of the parameter list
oracle:          the decision table of the statement applied to (kind, optional, strict) on what the implementation did
"""
import concurrent.futures as cf
import json, os, re, subprocess, time, glob
from vlib import build as B, p21_gen as G

HERE = os.path.dirname(os.path.abspath(__file__))
VERIF = os.path.dirname(HERE)
HARNESS = os.path.join(VERIF, "harness", "h_p21.cc")
SEV_RANK = {"MAX": -5, "DUMP": -4, "EXIT": -3, "BUG": -2, "INPUT_ERROR": -1, "WARNING": 0, "INCOMPLETE": 1,
            "USERMSG": 2, "NULL": 3}
SUBST = {"INTEGER": "0", "REAL": "0.0", "NUMBER": "0", "STRING": "''"}
EXTRACTORS = ["attrnull", "stepfile", "enums"]


def baseline_generated(files):
    """A run against another tree (VERIF_REPO) works in a private copy of the Lean project whose Generated/ files are only
    rewritten by extractors that succeed.  Start every run from the tables of /repo HEAD (the ones in /verif/lean), so that
    an extractor that no longer recognises the changed source leaves a CURRENT table of the unchanged source behind, not a
    stale one of an earlier run - the model then still builds and the oracle sweep runs."""
    from vlib import lean as L
    import shutil
    if os.path.realpath(L.LEAN_DIR) == os.path.realpath(L.LEAN_SRC):
        return
    for f in files:
        src = os.path.join(L.LEAN_SRC, "StepModel", "Generated", f)
        if os.path.exists(src):
            dst = os.path.join(L.GEN_DIR, f)
            if not os.path.exists(dst) or open(src).read() != open(dst).read():
                shutil.copyfile(src, dst)


GENERATED_FILES = ["AttrNullGen.lean", "StepFileGen.lean", "ThreadingGen.lean", "Enums.lean", "InstMgrGen.lean", "P21RWGen.lean", "HeaderIdsGen.lean"]


# ------------------------------------------------------------------ building
def build_schema(b, schema, workdir, with_p21read=True):
    os.makedirs(workdir, exist_ok=True)
    exp = os.path.join(workdir, schema.name + ".exp")
    open(exp, "w").write(schema.express())
    exe = os.path.join(workdir, "h_p21")
    B.gen_schema_lib(b, exp, os.path.join(workdir, "gen"), [HARNESS], exe)
    p21 = None
    if with_p21read:
        bm = glob.glob(os.path.join(b.src, "src/test/p21read/sc_benchmark.cc"))
        p21 = os.path.join(workdir, "p21read")
        B.gen_schema_lib(b, exp, os.path.join(workdir, "genp"), [os.path.join(b.src, "src/test/p21read/p21read.cc")] + bm,
                         p21, extra=["-I" + os.path.join(b.src, "src/base"), "-I" + os.path.join(b.bld, "include")])
    return exe, p21


class Harness:
    def __init__(self, exe, env):
        self.p = subprocess.Popen([exe], stdin=subprocess.PIPE, stdout=subprocess.PIPE, text=True, env=env)

    def cmd(self, line):
        self.p.stdin.write(line + "\n")
        self.p.stdin.flush()
        r = self.p.stdout.readline()
        if not r:
            raise RuntimeError(f"harness died on {line!r} (rc={self.p.poll()})")
        return r.rstrip("\n")

    def close(self):
        try:
            self.p.stdin.write("quit\n"); self.p.stdin.flush()
            self.p.wait(timeout=10)
        except Exception:
            self.p.kill()


def kv(reply):
    return dict(w.split("=", 1) for w in reply.split()[1:] if "=" in w)


def parse_dump(reply):
    body = reply.split("|", 1)[1].split()
    return [tuple(w.split("/")) for w in body]          # (id, TYPE, state)


def check_schema_table(h, schema):
    """the generator's idea of every entity's attribute list must be what the generated library registers"""
    for ent, rows in schema.kind_table().items():
        r = h.cmd(f"attrs {ent.capitalize()}")
        got = [tuple(w.split("/")) for w in r.split()[1:]]
        attrs = schema.all_attrs(ent.lower())
        e_ = schema.by_name[ent.lower()]
        n_own = len(e_.attrs)
        inherited, own = attrs[:len(attrs) - n_own], attrs[len(attrs) - n_own:]
        row = lambda a, nm, der, red: (nm, a.base, "1" if a.optional else "0", der, red, "REF" if a.type_ref else a.base)
        # positions (a redeclared one is flagged derived: the writer prints `*` there), then the redefining attributes the
        # class carries for its redeclarations, then the entity's own attributes
        # (whether a redeclared position is flagged derived depends on the version of the class generator: taken from the registry)
        flagged = {g_[0] for g_ in got if g_[3] == "1"}
        exp = ([row(a, a.name, "1" if (a.derived or (a.redef_name and a.name in flagged)) else "0", "0") for a in inherited] +
               [row(a, a.redef_name, "0", "1") for a in inherited if a.redef_name and a.redef_name.split(".")[0] == e_.supertype
                or a.redef_name and any(a.name == na.name for _, na in e_.redecl)] +
               [row(a, a.name, "0", "0") for a in own])
        if got != exp:
            raise RuntimeError(f"generator/registry disagree on {ent}: generator {exp} registry {got}")


# ------------------------------------------------------------------ inputs
def slots(schema, inst):
    """[(part index, attr index, Attr)] of an instance"""
    out = []
    for pi in range(len(inst.parts)):
        for ai, a in enumerate(G.part_attrs(schema, inst, pi)):
            out.append((pi, ai, a))
    return out


def model_inst(schema, inst, miss=None):
    """words of one instance for m_c15; miss = (pi, ai, dollar) or None"""
    parts = []
    for pi in range(len(inst.parts)):
        ws = []
        for ai, a in enumerate(G.part_attrs(schema, inst, pi)):
            v = inst.parts[pi][1][ai]
            if miss and miss[0] == pi and miss[1] == ai:
                t = "M1" if miss[2] else "M0"
            elif v[0] == "derived":
                t = "ST"
            elif v[0] == "null":
                t = "M1"
            elif v[0] == "empty":
                t = "M0"
            else:
                t = "LNULL"
            ws.append(f"{a.base}:{1 if a.optional else 0}:{1 if a.derived else 0}:{1 if a.type_ref else 0}:{1 if a.redef_name else 0}:{t}")
        if not inst.is_complex:
            # the C++ attribute list: inherited positions, one redefining attribute per redeclaration, the entity's own attributes
            ent = schema.by_name[inst.parts[pi][0].lower()]
            n_red = sum(1 for a in G.part_attrs(schema, inst, pi) if a.redef_name)
            if n_red:
                k = len(ws) - len(ent.attrs)
                ws = ws[:k] + ["RD"] * n_red + ws[k:]
        parts.append(" ".join(ws))
    return ("X " + " ; ".join(parts)) if inst.is_complex else ("S " + parts[0])


def mutate(inst, pi, ai, dollar):
    m = inst.copy()
    m.parts[pi][1][ai] = ("null",) if dollar else ("empty",)
    return m


def closure(pop, idx):
    """the instance and everything it (transitively) references, in file order"""
    by_id = {i.id: i for i in pop}
    keep, todo = set(), [pop[idx].id]
    while todo:
        x = todo.pop()
        if x in keep or x not in by_id:
            continue
        keep.add(x)
        todo += G.inst_refs(by_id[x])
    return [i for i in pop if i.id in keep]


# ------------------------------------------------------------------ observation + oracle
def observe(h, path, strict, n_expected, idx):
    h.cmd(f"reset {1 if strict else 0}")
    r = kv(h.cmd(f"read {path}"))
    d = parse_dump(h.cmd("dump"))
    txt = None
    if idx is not None and idx < len(d):
        t = h.cmd(f"inst {idx}")
        if t.startswith("T "):
            txt = bytes.fromhex(t[2:]).decode("latin-1") if t[2:] != "-" else ""
    # what p21read does next when the read was accepted: WriteExchangeFile with validation
    wret, wtext = None, None
    if idx is not None and SEV_RANK[r["sev"]] > SEV_RANK["INCOMPLETE"]:
        outp = path + ".out"
        for f in (outp, outp + ".bak"):
            if os.path.exists(f):
                os.unlink(f)
        w = kv(h.cmd(f"write {outp} 1"))
        wret = w["ret"]
        if os.path.exists(outp):
            wtext = open(outp).read()
            os.unlink(outp)
    return {"sev": r["sev"], "ret": r["ret"], "n": int(r["n"]), "states": [x[2] for x in d], "ids": [int(x[0]) for x in d],
            "inst_text": txt, "errs": int(r["errs"]), "write_ret": wret, "write_text": wtext}


def file_value(obs, inst, pi, ai):
    """value at (part, attr) of the instance in the file WriteExchangeFile(validate) produced, None when nothing was written"""
    if not obs.get("write_text") or (obs.get("write_ret") and SEV_RANK[obs["write_ret"]] <= SEV_RANK["INCOMPLETE"]):
        return None
    try:
        _, _, parsed = G.parse_p21(obs["write_text"])
    except Exception:
        return None
    for _, i in parsed:
        if i.id == inst.id:
            for n, vs in i.parts:
                if n == inst.parts[pi][0] and ai < len(vs):
                    return vs[ai]
    return None


def written_value(obs, inst, pi, ai):
    """value at (part, attr) in the text the implementation writes for the instance"""
    if obs["inst_text"] is None:
        return None
    try:
        _, _, parsed = G.parse_p21("DATA;\n" + obs["inst_text"].replace(";", ";\n") + "\nENDSEC;\n")
    except Exception:
        return None
    if not parsed:
        return None
    got = parsed[0][1]
    want_name = inst.parts[pi][0]
    for n, vs in got.parts:
        if n == want_name and ai < len(vs):
            return vs[ai]
    return None


def memory_value(h, idx, attr_name):
    """asStr() of attribute `attr_name` of instance idx as the session holds it (harness `vals`), as a value tuple"""
    r = h.cmd(f"vals {idx}")
    for w in r.split()[2:]:
        if w == "|" or w.count("/") < 2:
            continue
        nm, _, hx_ = w.rsplit("/", 2)
        if nm == attr_name:
            t = "" if hx_ == "-" else bytes.fromhex(hx_).decode("latin-1").strip()
            return ("null",) if t in ("", "$") else ("tok", t)
    return None


def oracle(base, optional, strict, obs, idx, exit_thr, value, dollar=True):
    """C15's statement on one observation; returns None or what is wrong.
    dollar=True: the value is `$` (the statement's quantifier); dollar=False: no value at all before the delimiter -
    accepted for an OPTIONAL attribute, a malformed parameter list (incomplete, read fails) for a required one in
    both modes (test_multiple_inheritance_derived_16 of the shipped suite fixes that reading)."""
    exit1 = SEV_RANK[obs["sev"]] <= SEV_RANK[exit_thr]
    st = obs["states"][idx] if idx < len(obs["states"]) else "absent"
    tok = "`$`" if dollar else "absent value"
    if optional:
        if exit1:
            return f"{tok} for OPTIONAL {base} attribute: read not accepted (file severity {obs['sev']})"
        if st != "completeSE":
            return f"{tok} for OPTIONAL {base} attribute: instance state {st}"
        if obs.get("write_ret") is not None and SEV_RANK[obs["write_ret"]] <= SEV_RANK[exit_thr]:
            return f"{tok} for OPTIONAL {base} attribute: read accepted but WriteExchangeFile refuses to write it back ({obs['write_ret']})"
        return None
    if strict or not dollar:
        mode = "strict mode" if strict else "lenient mode"
        if not exit1:
            return f"{mode}, {tok} for required {base}: read does not fail (file severity {obs['sev']})"
        if st != "incompleteSE":
            return f"{mode}, {tok} for required {base}: instance not reported incomplete (state {st})"
        return None
    if base in SUBST:
        if exit1:
            return f"lenient mode, `$` for required {base}: file rejected (file severity {obs['sev']}) instead of accepted with a user message"
        if obs["sev"] != "USERMSG":
            return f"lenient mode, `$` for required {base}: accepted without a user message (file severity {obs['sev']})"
        if obs.get("write_ret") is not None and SEV_RANK[obs["write_ret"]] <= SEV_RANK[exit_thr]:
            return (f"lenient mode, `$` for required {base}: read accepted with a user message but WriteExchangeFile (with validation, as "
                    f"p21read calls it) refuses to write the file back ({obs['write_ret']}, instance state {st})")
        if value is None or value[0] != "tok" or not G.tok_equal(value[1], SUBST[base]):
            return f"lenient mode, `$` for required {base}: value written back is {value!r}, expected {SUBST[base]}"
        return None
    if not exit1:
        return f"lenient mode, `$` for required {base}: read does not fail (file severity {obs['sev']})"
    if st != "incompleteSE":
        return f"lenient mode, `$` for required {base}: instance not reported incomplete (state {st})"
    return None


# classes recorded in KNOWN_FINDINGS.txt (repairs C15-3 / C15-4 were rejected by the shipped 258-test suite)
K_NONHEAD = "complex:nonhead-part-error-dropped"
K_ESCALATED = "complex:usermsg-escalated"


def known_class(info, obs, idx, value):
    """the stable key of a recorded defect when the observation has exactly its signature, else None"""
    if info["optional"]:
        return None
    st = obs["states"][idx] if idx < len(obs["states"]) else "absent"
    if info["shape"] == "complex-part" and obs["sev"] == "NULL" and st == "completeSE":
        # STEPcomplex::STEPread drops what every part but the first reports: the instance reads clean
        return K_NONHEAD
    if (info["shape"] == "complex-head" and not info["strict"] and info["dollar"] and info["kind"] in SUBST
            and obs["sev"] == "WARNING" and st == "completeSE"
            and value is not None and value[0] == "tok" and G.tok_equal(value[1], SUBST[info["kind"]])):
        # the part substituted with a user message; ReadData2/AppendFile escalate the complex instance's USERMSG
        return K_ESCALATED
    return None


# ------------------------------------------------------------------ the mode the caller asks for: p21read's command line
def flag_spellings():
    """every spelling of p21read's mode flags: none, single flags, every 2- and 3-letter cluster in every order, separate flags, `--`"""
    import itertools
    out = [[], ["--"]]
    for n in (1, 2, 3):
        for perm in itertools.permutations("its", n):
            out.append(["-" + "".join(perm)])
    out += [["-t", "-s"], ["-s", "-t"], ["-i", "-s"], ["-s", "-i"], ["-i", "-t"], ["-s", "--"], ["-t", "--"], ["-it", "-s"]]
    return out


def spelling_requests_strict(flags):
    """the documented meaning: strict iff `s` occurs among the flag letters before `--` (every letter of a cluster counts)"""
    for a in flags:
        if a == "--":
            return False
        if "s" in a[1:]:
            return True
    return False


def p21read_spellings(ctx, b, p21read, model_exe, workdir, path, inst, pi, ai, base):
    """the real p21read on ONE file (a required substitutable attribute is `$`) under every spelling of the flags: strict
    requested -> exit 1; else exit 0 and the substituted value written.  Returns [(flags, what)] problems (property), [(..)] (model)"""
    probs, corr = [], []
    lines = ["args " + (" ".join(f + ["in.p21"]) if True else "%") for f in flag_spellings()]
    mr = subprocess.run([model_exe], input="\n".join(lines) + "\n", capture_output=True, text=True)
    mout = mr.stdout.split("\n")
    for k, flags in enumerate(flag_spellings()):
        want_strict = spelling_requests_strict(flags)
        outp = os.path.join(workdir, "file.out")
        if os.path.exists(outp):
            os.unlink(outp)
        two_files = len(flags) <= 1            # p21read takes at most 3 arguments
        args = flags + [path] + ([outp] if two_files else [])
        r = subprocess.run([p21read] + args, capture_output=True, env=b.env(), cwd=workdir)
        ctx.count(1, key=("p21read-spelling", tuple(flags)))
        ctx.hist("p21read flag spelling", " ".join(flags) or "(none)")
        what = None
        if want_strict and r.returncode == 0:
            what = f"`p21read {' '.join(flags)} FILE`: strict mode is requested, a required {base} is `$`, yet p21read exits 0"
        elif not want_strict and r.returncode != 0:
            what = f"`p21read {' '.join(flags)} FILE`: lenient mode, a required {base} is `$`: p21read exits {r.returncode} instead of accepting the file"
        elif not want_strict:
            try:
                _, _, wr = G.parse_p21(open(outp).read())
                w = [i for _, i in wr if i.id == inst.id][0]
                wv = [vs for nme, vs in w.parts if nme == inst.parts[pi][0]][0][ai]
            except Exception as ex:
                wv = ("unparsable", str(ex))
            if wv[0] != "tok" or not G.tok_equal(wv[1], SUBST[base]):
                what = f"`p21read {' '.join(flags)} FILE`: lenient mode: wrote {wv!r} for the substituted {base}, expected {SUBST[base]}"
        if what:
            probs.append((flags, what))
        mm = kv(mout[k]) if k < len(mout) and mout[k].startswith("O ") else None
        if mm is None or (mm["strict"] == "1") != want_strict or mm["usage"] != "0":
            corr.append((flags, f"model answers {mout[k] if k < len(mout) else None!r} for flags {flags}, the spelling requests strict={want_strict}"))
    return probs, corr


# ------------------------------------------------------------------ mode x file type x history on ONE STEPfile object
def mode_histories(ctx, h, schema, pop, idx, pi, ai, a, workdir, exit_thr, exch_path, mutated):
    """the mode in force for a read is the mode the STEPfile was made with - for exchange and working-session files, read
    and append, whatever calls (successful, or failing at the open) came before.  Returns [(info, what)]"""
    out = []
    wpath = os.path.join(workdir, "mode_w.wsf")
    open(wpath, "w").write(G.render(schema.name, mutated, working=["C"] * len(mutated)))
    missing = os.path.join(workdir, "no", "such", "file.p21")
    histories = [("readwork", [f"readwork {wpath}"], True),
                 ("failed readwork; readwork", [f"readwork {missing}", f"readwork {wpath}"], True),
                 ("failed readwork; read", [f"readwork {missing}", f"read {exch_path}"], False),
                 ("failed appendwork; read", [f"appendwork {missing}", f"read {exch_path}"], False),
                 ("failed read; read", [f"read {missing}", f"read {exch_path}"], False),
                 ("readwork; read", [f"readwork {wpath}", f"read {exch_path}"], False),
                 ("read; failed append; readwork", [f"read {exch_path}", f"append {missing}", f"readwork {wpath}"], True)]
    for strict in (False, True):
        for name, cmds, last_is_working in histories:
            h.cmd(f"reset {1 if strict else 0}")
            r = None
            for c in cmds:
                r = kv(h.cmd(c))
            d = parse_dump(h.cmd("dump"))
            t = h.cmd(f"inst {idx}")
            txt = bytes.fromhex(t[2:]).decode("latin-1") if t.startswith("T ") and t[2:] != "-" else ""
            obs = {"sev": r["sev"], "states": [x[2] for x in d], "inst_text": txt, "write_ret": None}
            val = written_value(obs, mutated[idx], pi, ai)
            if a.redef_name:
                val = memory_value(h, idx, a.redef_name)
            ctx.count(1, key=("mode-history", name, strict, a.base, a.optional))
            ctx.hist("mode history", name)
            rejected = SEV_RANK[obs["sev"]] <= SEV_RANK[exit_thr]
            what = None
            if a.optional:
                if rejected:
                    what = f"OPTIONAL {a.base} `$` not accepted (severity {obs['sev']})"
            elif strict or a.base not in SUBST:
                if not rejected:
                    what = (f"{'strict' if strict else 'lenient'} STEPfile, required {a.base} `$`: the read does not fail "
                            f"(severity {obs['sev']}, value {val})")
                elif not last_is_working and (len(obs["states"]) <= idx or obs["states"][idx] != "incompleteSE"):
                    what = f"required {a.base} `$`: instance not reported incomplete"
            else:
                if rejected or obs["sev"] != "USERMSG":
                    what = f"lenient STEPfile, required {a.base} `$`: severity {obs['sev']} instead of a user message"
                elif val is None or val[0] != "tok" or not G.tok_equal(val[1], SUBST[a.base]):
                    what = f"lenient STEPfile, required {a.base} `$`: value {val}, expected {SUBST[a.base]}"
            if what:
                out.append(({"history": name, "strict": strict, "kind": a.base, "optional": a.optional, "commands": cmds},
                            f"history `{name}` on one STEPfile object ({'strict' if strict else 'lenient'}): " + what))
    return out


def pretc_cases(ctx, h, schema, pop, model_exe, workdir, exit_thr):
    """the pre-technical-corrigendum encoding (ReadExchangeFile( file, useTechCor = false )): every redefining attribute of the C++
    attribute list has a value of its own, `*`.  Internally mapped instances of entities that redeclare attributes, one per file:
    conforming; one redefining entry given `$` / nothing / a literal; one plain position unset (`$` / nothing); the trailing
    values left out.  Compared with the model (file severity, state, which attributes hold a value afterwards) and judged by the
    decision table.  returns (property problems, correspondence problems)"""
    prop, corr = [], []
    todo = []
    for idx, inst in enumerate(pop):
        if inst.is_complex or G.inst_refs(inst):
            continue
        ent = schema.by_name[inst.parts[0][0].lower()]
        attrs = G.part_attrs(schema, inst, 0)
        n_red = sum(1 for a in attrs if a.redef_name)
        if not n_red:
            continue
        k = len(attrs) - len(ent.attrs)
        vals = [G.render_val(v, lambda: "") for v in inst.parts[0][1]]
        words = model_inst(schema, inst)[2:].split()
        words = [w for w in words if w != "RD"]
        has_derived = any(a.derived for a in attrs)

        def case(tag, vtoks, wtoks, rd, attr_case=None):
            """vtoks/wtoks: file text / model word per attribute position; rd: [(text, model token)] per redefining entry"""
            ptxt = vtoks[:k] + [t for t, _ in rd] + vtoks[k:]
            mw = wtoks[:k] + ["RD:" + t for _, t in rd] + wtoks[k:]
            todo.append({"tag": tag, "idx": idx, "inst": inst, "params": ",".join(ptxt), "words": mw, "attr_case": attr_case,
                         "bitmap_ok": not has_derived, "n_attrs": len(attrs), "k": k, "n_red": n_red})
        star = [("*", "ST")] * n_red
        case("conforming", vals, words, star)
        for j in range(n_red):
            for txt, tok in (("$", "M1"), ("", "M0"), ("12", "LNULL"), (".T.", "LNULL")):
                rd = list(star)
                rd[j] = (txt, tok)
                case(f"redefining entry {j} given `{txt}`", vals, words, rd)
        for ai, a in enumerate(attrs):
            if a.derived:
                continue
            for dollar in (True, False):
                v2, w2 = list(vals), list(words)
                v2[ai] = "$" if dollar else ""
                w2[ai] = w2[ai].rsplit(":", 1)[0] + (":M1" if dollar else ":M0")
                case(f"{a.name} {'`$`' if dollar else 'absent'}", v2, w2, star, attr_case=(ai, a, dollar))
        # trailing values left out: the parameter list ends after the inherited positions / after some of the `*`
        for cut in range(k, k + n_red + len(ent.attrs)):
            ptxt = (vals[:k] + ["*"] * n_red + vals[k:])[:cut]
            mw = words[:k] + ["RD:ST"] * n_red + words[k:]
            mw = mw[:cut] + [w_.rsplit(":", 1)[0] + ":-" for w_ in mw[cut:]]
            if ptxt:
                todo.append({"tag": f"only the first {cut} of {k + n_red + len(ent.attrs)} values", "idx": idx, "inst": inst,
                             "params": ",".join(ptxt), "words": mw, "attr_case": None, "bitmap_ok": False, "n_attrs": len(attrs), "k": k,
                             "n_red": n_red, "cut": True})
    if not todo:
        return prop, corr
    lines = []
    for c in todo:
        for strict in (0, 1):
            lines.append(f"readpre {strict} | S " + " ".join(c["words"]))
    mr = subprocess.run([model_exe], input="\n".join(lines) + "\n", capture_output=True, text=True)
    mout = mr.stdout.split("\n")
    if mr.returncode != 0 or len(mout) < len(lines):
        return prop, [(None, f"model driver failed on readpre rc={mr.returncode} {mr.stderr[-300:]}")]
    li = 0
    for c in todo:
        for strict in (0, 1):
            reply = mout[li]; li += 1
            inst = c["inst"]
            text = (f"ISO-10303-21;\nHEADER;\nFILE_DESCRIPTION((''),'2;1');\nFILE_NAME('','',(''),(''),'','','');\n"
                    f"FILE_SCHEMA(('{schema.name.upper()}'));\nENDSEC;\nDATA;\n#{inst.id}={inst.parts[0][0].upper()}({c['params']});\n"
                    "ENDSEC;\nEND-ISO-10303-21;\n")
            path = os.path.join(workdir, "pretc.p21")
            open(path, "w").write(text)
            h.cmd(f"reset {strict}")
            r = kv(h.cmd(f"readpre {path}"))
            d = parse_dump(h.cmd("dump"))
            st = d[0][2] if d else "absent"
            bits = None
            if d:
                vr = h.cmd("vals 0")
                bits = "".join("0" if w.split("/")[2] == "-" else "1" for w in vr.split()[2:] if w.count("/") == 2 and w.split("/")[1] == "0")
            ctx.count(1, key=("pretc", schema.name, inst.id, c["tag"], strict))
            ctx.hist("pre-technical-corrigendum case", c["tag"].split(" given")[0] if "redefining" in c["tag"] else
                     ("conforming" if c["tag"] == "conforming" else "trailing left out" if c.get("cut") else "plain position unset"))
            info = {"pretc": True, "tag": c["tag"], "strict": bool(strict), "file": text, "kind": "pretc", "idx": 0, "pop": [inst]}
            # ---- oracle
            exit1 = SEV_RANK[r["sev"]] <= SEV_RANK[exit_thr]
            what = None
            if c["tag"] == "conforming":
                if exit1 or st != "completeSE" or r["sev"] != "NULL":
                    what = f"pre-technical-corrigendum encoding, conforming instance: severity {r['sev']}, state {st}"
            elif c["attr_case"]:
                ai, a, dollar = c["attr_case"]
                obs = {"sev": r["sev"], "states": [st]}
                val = None
                if not a.optional and not strict and dollar and a.base in SUBST:
                    # the substituted value: in memory (a redeclared position keeps it in its redefining attribute)
                    val = memory_value(h, 0, a.name)
                    obs_ok = val is not None and val[0] == "tok" and G.tok_equal(val[1], SUBST[a.base])
                    if exit1 or r["sev"] != "USERMSG" or not obs_ok:
                        what = (f"pre-technical-corrigendum encoding, lenient mode, `$` for required {a.base} ({a.name}): severity {r['sev']}, "
                                f"state {st}, value in memory {val!r}; expected a user message and {SUBST[a.base]}")
                else:
                    what = oracle(a.base, a.optional, bool(strict), obs, 0, exit_thr, None, dollar)
                    if what:
                        what = "pre-technical-corrigendum encoding: " + what
            elif "redefining entry" in c["tag"]:
                if not exit1 or st == "completeSE":
                    what = (f"pre-technical-corrigendum encoding, {c['tag']} instead of `*`: read accepted (severity {r['sev']}, state {st})")
            if what:
                prop.append((info, what))
            # ---- correspondence
            mm = reply.split(" | ") if reply.startswith("F ") else None
            if not mm or len(mm) != 2:
                corr.append((info, f"pre-TC {c['tag']}: model reply {reply!r}"))
                continue
            mh, (msev, mst, mbits) = kv(mm[0]), mm[1].strip().split("/")
            diff = None
            if mh["sev"] != r["sev"]:
                diff = f"file severity impl {r['sev']} model {mh['sev']}"
            elif mst != st:
                diff = f"state impl {st} model {mst}"
            elif c["bitmap_ok"] and bits is not None and bits != mbits.ljust(len(bits), "0"):
                diff = f"attributes holding a value afterwards: impl {bits} model {mbits}"
            if diff:
                corr.append((info, f"pre-TC {c['tag']} (strict={strict}) `{c['params']}`: {diff}"))
    return prop, corr


CXR_EXPRESS = """SCHEMA cxr;
ENTITY cr SUPERTYPE OF (ca ANDOR cb);
  n : NUMBER;
  o : OPTIONAL STRING;
END_ENTITY;
ENTITY ca SUBTYPE OF (cr);
  SELF\\cr.n : INTEGER;
  x : INTEGER;
  xs : STRING;
END_ENTITY;
ENTITY cb SUBTYPE OF (cr);
  y : BOOLEAN;
  z : OPTIONAL INTEGER;
END_ENTITY;
END_SCHEMA;
"""
# the parts of (CA CB CR) as STEPcomplex builds them (ExplicitAttr of each entity, redefining descriptors included):
# (part, [(name or None for a redefining entry, base kind, optional, conforming value)])
CXR_PARTS = [("CA", [(None, None, None, None), ("x", "INTEGER", False, "5"), ("xs", "STRING", False, "'s'")]),
             ("CB", [("y", "BOOLEAN", False, ".T."), ("z", "INTEGER", True, "$")]),
             ("CR", [("n", "NUMBER", False, "7"), ("o", "STRING", True, "$")])]


def complex_redecl_cases(ctx, b, model_exe, workdir, exit_thr):
    """complex instances whose parts carry redefining entries (an ANDOR member that redeclares an attribute of its supertype), both
    encodings: conforming; every attribute position of every part `$` / absent; in the older encoding the redefining entry of the
    FIRST part given `$` / nothing / a literal.  Implementation (harness read / readpre) against `complexReadLS` (driver readx) and
    against the decision table."""
    prop, corr = [], []
    os.makedirs(workdir, exist_ok=True)
    exp = os.path.join(workdir, "cxr.exp")
    open(exp, "w").write(CXR_EXPRESS)
    exe = os.path.join(workdir, "h_p21")
    B.gen_schema_lib(b, exp, os.path.join(workdir, "gen"), [HARNESS], exe)
    h = Harness(exe, b.env())
    try:
        cases = []
        for tc in (1, 0):
            def build(over=None, rd_tok=None):
                txt, words = [], []
                for pi, (pn, attrs) in enumerate(CXR_PARTS):
                    tv, tw = [], []
                    for ai, (nm, base, opt, val) in enumerate(attrs):
                        if nm is None:
                            if tc:
                                tw.append("RD")
                            else:
                                t_, w_ = rd_tok if (rd_tok and pi == 0) else ("*", "ST")
                                tv.append(t_); tw.append("RD:" + w_)
                            continue
                        v, tok = val, ("M1" if val == "$" else "LNULL")
                        if over and over[0] == pi and over[1] == ai:
                            v, tok = ("$", "M1") if over[2] else ("", "M0")
                        tv.append(v)
                        tw.append(f"{base}:{1 if opt else 0}:0:0:0:{tok}")
                    txt.append(f"{pn}({','.join(tv)})")
                    words.append(" ".join(tw))
                return "#1=(" + "".join(txt) + ");", "X " + " ; ".join(words)
            cases.append((tc, "conforming", None, None) + build())
            for pi, (pn, attrs) in enumerate(CXR_PARTS):
                for ai, (nm, base, opt, val) in enumerate(attrs):
                    if nm is None:
                        continue
                    for dollar in (True, False):
                        cases.append((tc, f"{pn.lower()}.{nm} {'`$`' if dollar else 'absent'}", (pi, ai, dollar), None) + build(over=(pi, ai, dollar)))
            if not tc:
                for t_, w_ in (("$", "M1"), ("", "M0"), ("12", "LNULL")):
                    cases.append((tc, f"redefining entry of the first part given `{t_}`", None, (t_, w_)) + build(rd_tok=(t_, w_)))
        lines = [f"readx {tc} {strict} | {words}" for tc, _, _, _, _, words in cases for strict in (0, 1)]
        mr = subprocess.run([model_exe], input="\n".join(lines) + "\n", capture_output=True, text=True)
        mout = mr.stdout.split("\n")
        if mr.returncode != 0 or len(mout) < len(lines):
            return prop, [(None, f"model driver failed on readx rc={mr.returncode} {mr.stderr[-300:]}")]
        li = 0
        for tc, tag, over, rd, rec, words in cases:
            for strict in (0, 1):
                reply = mout[li]; li += 1
                text = (f"ISO-10303-21;\nHEADER;\nFILE_DESCRIPTION((''),'2;1');\nFILE_NAME('','',(''),(''),'','','');\n"
                        f"FILE_SCHEMA(('CXR'));\nENDSEC;\nDATA;\n{rec}\nENDSEC;\nEND-ISO-10303-21;\n")
                path = os.path.join(workdir, "cx.p21")
                open(path, "w").write(text)
                h.cmd(f"reset {strict}")
                r = kv(h.cmd(f"{'read' if tc else 'readpre'} {path}"))
                d = parse_dump(h.cmd("dump"))
                st = d[0][2] if d else "absent"
                bits = None
                if d:
                    bits = ",".join("".join("0" if w.split("/")[2] == "-" else "1" for w in g.split()[1:] if w.count("/") == 2 and w.split("/")[1] == "0")
                                    for g in h.cmd("vals 0")[1:].split("|") if g.split())
                enc = "technical-corrigendum" if tc else "pre-technical-corrigendum"
                ctx.count(1, key=("cxr", tc, tag, strict))
                ctx.hist("complex parts with redefining entries", f"{enc}: " + ("conforming" if tag == "conforming" else "redefining entry not `*`" if rd else "position unset"))
                info = {"pretc": True, "tag": f"complex part with redefining entry, {enc}: {tag}", "strict": bool(strict), "file": text, "kind": "pretc",
                        "idx": 0, "pop": [], "schema_express_override": CXR_EXPRESS, "readcmd": "read" if tc else "readpre"}
                exit1 = SEV_RANK[r["sev"]] <= SEV_RANK[exit_thr]
                what = None
                if tag == "conforming":
                    if exit1 or st != "completeSE" or r["sev"] != "NULL":
                        what = f"{enc} encoding, conforming complex instance with a redefining entry: severity {r['sev']}, state {st}"
                elif over:
                    pi, ai, dollar = over
                    nm, base, opt, _ = CXR_PARTS[pi][1][ai]
                    obs = {"sev": r["sev"], "states": [st]}
                    if not opt and not strict and dollar and base in SUBST:
                        val = memory_value(h, 0, nm)
                        ok = val is not None and val[0] == "tok" and G.tok_equal(val[1], SUBST[base])
                        if exit1 or r["sev"] != "USERMSG" or not ok:
                            what = (f"{enc} encoding, lenient mode, `$` for required {base} ({CXR_PARTS[pi][0].lower()}.{nm}): severity {r['sev']}, state {st}, "
                                    f"value in memory {val!r}; expected a user message and {SUBST[base]}")
                    else:
                        what = oracle(base, opt, bool(strict), obs, 0, exit_thr, None, dollar)
                        if what:
                            what = f"{enc} encoding, complex part with a redefining entry: " + what
                elif rd and (not exit1 or st == "completeSE"):
                    what = f"{enc} encoding, {tag} instead of `*`: read accepted (severity {r['sev']}, state {st})"
                if what:
                    prop.append((info, what))
                mm = reply.split(" | ") if reply.startswith("F ") else None
                if not mm or len(mm) != 2:
                    corr.append((info, f"complex/redefining {tag}: model reply {reply!r}"))
                    continue
                mh, (msev, mst, mbits) = kv(mm[0]), mm[1].strip().split("/")
                diff = None
                if mh["sev"] != r["sev"]:
                    diff = f"file severity impl {r['sev']} model {mh['sev']}"
                elif mst != st:
                    diff = f"state impl {st} model {mst}"
                elif bits is not None and not rd and bits != mbits:
                    diff = f"attributes holding a value afterwards: impl {bits} model {mbits}"
                if diff:
                    corr.append((info, f"complex part with redefining entry, {enc}, {tag} (strict={strict}) `{rec}`: {diff}"))
    finally:
        h.close()
    return prop, corr


def decode_model(reply):
    """F sev=.. exit=.. | sev/state/p.a=words,.. | ..."""
    if not reply.startswith("F "):
        return None
    head, *rest = reply.split(" | ")
    d = kv(head)
    insts = []
    for r in rest:
        s, st, vals = r.strip().split("/", 2)
        vd = {}
        for item in [x for x in vals.split(",") if x]:
            k, w = item.split("=")
            vd[k] = w
        insts.append((s, st, vd))
    return {"sev": d["sev"], "exit": int(d["exit"]), "insts": insts}


def model_value(words):
    if words == "N":
        return ("null",)
    if words == "D":
        return ("derived",)
    if words.startswith("T"):
        return ("tok", "" if words[1:] == "-" else bytes.fromhex(words[1:]).decode("latin-1"))
    return ("?", words)


def shape_of(inst, pi):
    if not inst.is_complex:
        return "simple"
    return "complex-head" if pi == 0 else "complex-part"


# ------------------------------------------------------------------ one schema
def run_schema(ctx, b, schema, pop, workdir, exe, p21read, model_exe, exit_thr, variants, p21_sample, layout_rng=None):
    env = b.env()
    h = Harness(exe, env)
    problems = {"property": [], "correspondence": []}
    try:
        check_schema_table(h, schema)
        cases = []      # (idx, pi, ai, attr, dollar, strict, path, pop')
        base_path = os.path.join(workdir, "base.p21")
        open(base_path, "w").write(G.render(schema.name, pop, layout_rng))
        n = 0
        for idx, inst in enumerate(pop):
            for pi, ai, a in slots(schema, inst):
                for dollar in variants:
                    m = list(pop)
                    m[idx] = mutate(inst, pi, ai, dollar)
                    path = os.path.join(workdir, f"m{n}.p21")
                    n += 1
                    open(path, "w").write(G.render(schema.name, m, layout_rng))
                    for strict in (False, True):
                        cases.append((idx, pi, ai, a, dollar, strict, path, m))
        # model side in one batch
        lines = []
        for strict in (False, True):
            lines.append(f"read {1 if strict else 0} | " + " | ".join(model_inst(schema, i) for i in pop))
        for idx, pi, ai, a, dollar, strict, path, m in cases:
            lines.append(f"read {1 if strict else 0} | " + " | ".join(
                model_inst(schema, i, (pi, ai, dollar) if j == idx else None) for j, i in enumerate(pop)))
        mr = subprocess.run([model_exe], input="\n".join(lines) + "\n", capture_output=True, text=True)
        mout = mr.stdout.split("\n")
        if mr.returncode != 0 or len(mout) < len(lines):
            problems["correspondence"].append((None, f"model driver failed rc={mr.returncode} {mr.stderr[-300:]}"))
            return problems
        # baseline: the conforming population reads cleanly in both modes
        for k, strict in enumerate((False, True)):
            obs = observe(h, base_path, strict, len(pop), None)
            ctx.count(1, key=("base", schema.name, strict))
            mm = decode_model(mout[k])
            if SEV_RANK[obs["sev"]] <= SEV_RANK[exit_thr] or obs["n"] != len(pop) or any(s != "completeSE" for s in obs["states"]):
                problems["property"].append(({"kind": "conforming", "strict": strict, "pop": pop, "idx": None},
                                             f"conforming population not accepted cleanly (strict={strict}): {obs}"))
            elif mm is None or mm["sev"] != obs["sev"]:
                problems["correspondence"].append((None, f"baseline strict={strict}: impl sev {obs['sev']} vs model {mout[k][:200]}"))
        sampled = set()
        for k, (idx, pi, ai, a, dollar, strict, path, m) in enumerate(cases):
            obs = observe(h, path, strict, len(pop), idx)
            val = written_value(obs, m[idx], pi, ai)
            shape = shape_of(pop[idx], pi)
            cls = (a.base, a.optional, strict, shape, dollar, a.type_ref)
            ctx.count(1, key=(schema.name, idx, pi, ai, dollar, strict))
            ctx.hist("kind", a.base); ctx.hist("shape", shape); ctx.hist("mode", "strict" if strict else "lenient")
            ctx.hist("optional", str(a.optional)); ctx.hist("token", "$" if dollar else "empty")
            ctx.hist("impl file severity", obs["sev"])
            ctx.hist("defined-type depth", str(a.depth))
            info = {"kind": a.base, "optional": a.optional, "strict": strict, "shape": shape, "dollar": dollar,
                    "typeref": a.type_ref, "depth": a.depth, "redeclared": bool(a.redef_name), "derived_position": a.derived,
                    "trailing_after_redefining": (not pop[idx].is_complex and ai == len(pop[idx].parts[pi][1]) - 1
                                                  and any(x.redef_name for x in G.part_attrs(schema, pop[idx], pi))),
                    "pop": m, "idx": idx, "pi": pi, "ai": ai, "attr": a.name}
            fval = file_value(obs, m[idx], pi, ai)
            if a.redef_name:
                # the writer prints `*` at a redeclared position: the value lives in the redefining attribute (in memory)
                val = fval = memory_value(h, idx, a.redef_name)
            ctx.hist("position", "DERIVEd" if a.derived else "redeclared" if a.redef_name else "plain")
            # a DERIVEd position is not an attribute value of the file (the statement's `$` substitution does not apply):
            # correspondence only
            e = None if a.derived else oracle(a.base, a.optional, strict, obs, idx, exit_thr, fval if fval is not None else val, dollar)
            if e:
                kc = known_class(info, obs, idx, val)
                info["known_class"] = kc
                problems["property"].append((info, e))
                if kc is None:
                    continue
                ctx.hist("recorded defect class hit", kc)
                # a recorded defect: the model follows the code, so the correspondence below is still demanded
            # the real p21read on a sample: one file per class
            subst_class = (not a.optional and not strict and dollar and a.base in SUBST)
            if p21read and cls not in sampled and (len(sampled) < p21_sample or subst_class):
                sampled.add(cls)
                outp = os.path.join(workdir, "p21out.p21")
                r = subprocess.run([p21read] + (["-s"] if strict else []) + [path, outp], capture_output=True, env=env,
                                   cwd=workdir)
                want = 1 if SEV_RANK[obs["sev"]] <= SEV_RANK[exit_thr] else 0
                ctx.hist("p21read exit", str(r.returncode))
                if r.returncode != want:
                    problems["property"].append((info, f"p21read{' -s' if strict else ''} exits {r.returncode}, the severity rule gives {want} ({obs['sev']})"))
                    continue
                if r.returncode == 0 and not e and not a.optional and not strict and dollar and a.base in SUBST and not a.redef_name:
                    # (at a redeclared position the writer prints `*`; the substituted value was checked in memory above)
                    try:
                        _, _, wr = G.parse_p21(open(outp).read())
                        w = [i for _, i in wr if i.id == m[idx].id][0]
                        wv = [vs for nme, vs in w.parts if nme == m[idx].parts[pi][0]][0][ai]
                    except Exception as ex:
                        wv = ("unparsable", str(ex))
                    if wv[0] != "tok" or not G.tok_equal(wv[1], SUBST[a.base]):
                        problems["property"].append((info, f"p21read wrote {wv!r} for the substituted {a.base}, expected {SUBST[a.base]}"))
                        continue
            # correspondence with the model
            mm = decode_model(mout[2 + k])
            if mm is None:
                problems["correspondence"].append((info, f"model answered {mout[2 + k][:120]!r}"))
                continue
            diff = None
            if mm["sev"] != obs["sev"]:
                diff = f"file severity impl {obs['sev']} model {mm['sev']}"
            elif [x[1] for x in mm["insts"]] != obs["states"]:
                diff = f"states impl {obs['states']} model {[x[1] for x in mm['insts']]}"
            else:
                mv = model_value(mm["insts"][idx][2].get(f"{pi}.{ai}", "?"))
                iv = val if val is not None else ("unread",)
                if not G.val_equal(mv, iv):
                    diff = f"value at the unset position: impl {iv} model {mv}"
            if diff:
                problems["correspondence"].append((info, diff))
        # the glue that carries the caller's mode to the reader (only once: on the decision-table schema)
        if schema.name == "tab":
            picks = {}
            for (idx, pi, ai, a, dollar, strict, path, m) in cases:
                if dollar and not strict and not pop[idx].is_complex and not a.derived:
                    k = ("opt" if a.optional else "req", a.base)
                    if k in (("req", "INTEGER"), ("req", "STRING"), ("req", "BOOLEAN"), ("opt", "REAL")) and k not in picks:
                        picks[k] = (idx, pi, ai, a, path, m)
            for k, (idx, pi, ai, a, path, m) in picks.items():
                for info, what in mode_histories(ctx, h, schema, pop, idx, pi, ai, a, workdir, exit_thr, path, m):
                    info.update({"pop": m, "idx": idx, "pi": pi, "ai": ai, "attr": a.name, "shape": "simple", "dollar": True,
                                 "mode_history": True})
                    problems["property"].append((info, what))
            pp, pc = pretc_cases(ctx, h, schema, pop, model_exe, workdir, exit_thr)
            problems["property"] += pp
            problems["correspondence"] += pc
            if p21read and ("req", "INTEGER") in picks:
                idx, pi, ai, a, path, m = picks[("req", "INTEGER")]
                pr, corr = p21read_spellings(ctx, b, p21read, model_exe, workdir, path, m[idx], pi, ai, a.base)
                for flags, what in pr:
                    problems["property"].append(({"kind": a.base, "optional": False, "strict": spelling_requests_strict(flags),
                                                  "shape": "simple", "dollar": True, "pop": m, "idx": idx, "pi": pi, "ai": ai,
                                                  "attr": a.name, "p21read_flags": flags}, what))
                for flags, what in corr:
                    problems["correspondence"].append((None, what))
    finally:
        h.close()
    return problems


def key_of(info):
    if info.get("pretc"):
        cls = "conforming" if info["tag"].endswith("conforming") else ("redefining-entry-not-star" if "given `" in info["tag"] else "position-unset")
        if info.get("schema_express_override"):
            cls = "complex-" + cls + ("-tc" if info.get("readcmd") == "read" else "-pretc")
        return f"pretc:{cls}:{'strict' if info['strict'] else 'lenient'}"
    if info.get("p21read_flags") is not None:
        return "p21read-flags:" + ("+".join(info["p21read_flags"]) or "none")
    if info.get("mode_history"):
        return f"mode-history:{info['history'].replace(' ', '_')}:{'strict' if info['strict'] else 'lenient'}:{info['kind']}"
    if info.get("kind") == "conforming":
        return f"conforming:strict={int(info['strict'])}"
    if info.get("known_class"):
        return info["known_class"]
    return (f"{'strict' if info['strict'] else 'lenient'}:{'optional' if info['optional'] else 'required'}:"
            f"{'dollar' if info.get('dollar', True) else 'absent'}:{info['kind']}:{info['shape']}"
            + (":behind-defined-type-chain" if info.get("typeref") else ""))


def minimal_replay(schema, info):
    if info.get("pretc"):
        return {"schema_express": info.get("schema_express_override") or schema.express(),
                "schema_name": "cxr" if info.get("schema_express_override") else schema.name, "readcmd": info.get("readcmd", "readpre"),
                "file": info["file"], "strict": info["strict"],
                "pretc": info["tag"], "expect": ("clean" if info["tag"].endswith("conforming") else "rejected" if "given `" in info["tag"] else "table"),
                "how": "exp2cxx the schema, link harness/h_p21.cc with it, `reset <strict>`, `readpre FILE` "
                       "(= ReadExchangeFile( FILE, useTechCor = false )), `dump`, `vals 0`"}
    pop = info["pop"]
    if info.get("idx") is None:
        mini = pop
    else:
        mini = closure(pop, info["idx"])
    return {"schema_express": schema.express(), "schema_name": schema.name,
            "file": G.render(schema.name, mini), "strict": info["strict"],
            "affected_instance": None if info.get("idx") is None else pop[info["idx"]].id,
            "attribute": info.get("attr"), "kind": info.get("kind"), "optional": info.get("optional"),
            "part": info.get("pi"), "position": info.get("ai"), "dollar": info.get("dollar", True),
            "shape": info.get("shape"), "p21read_flags": info.get("p21read_flags"),
            "history_commands": info.get("commands"),
            "how": "exp2cxx the schema, link harness/h_p21.cc (or src/test/p21read/p21read.cc) with it, "
                   "`reset <strict>`, `read FILE`, `dump`, `inst <index>`"}


def exit_threshold():
    """p21read's documented rule: the read fails (exit 1) when the severity is SEVERITY_INCOMPLETE or worse.  Fixed by the
    property, not taken from the source (the source's threshold is what theorem C15_* and the real p21read runs check)."""
    return "INCOMPLETE"


def _unused_exit_threshold():
    t = open(os.path.join(VERIF, "lean/StepModel/Generated/AttrNullGen.lean")).read()
    m = re.search(r"def p21readExitThreshold : Sev := \.(\w+)", t)
    names = {"null": "NULL", "usermsg": "USERMSG", "incomplete": "INCOMPLETE", "warning": "WARNING",
             "inputError": "INPUT_ERROR", "bug": "BUG", "exit": "EXIT", "dump": "DUMP", "max": "MAX"}
    return names[m.group(1)]


def run(ctx):
    ctx.trusted += [
        "tools/extract.d/attrnull.py, tools/extract.d/stepfile.py (regex extraction of constants, filler strings, argument lists)",
        "hand-written model lean/StepModel/AttrNull.lean (modelled, tied by correspondence); the literal readers are modelled "
        "only on the filler strings; every other value is an opaque token carrying its severity (C09's subject)",
        "harness/h_p21.cc, vlib/p21_gen.py (schema/population generator: what it does not generate is not compared)",
    ]
    ctx.assumptions += [
        "the rest of the population is conforming (reads with severity NULL); header and section keywords are well formed",
        "DERIVEd and redeclared attributes are in the model (derived branch) but not generated: not compared",
        "the unset value is written `$` or left empty; fewer values than attributes is a different error class (C03)",
    ]
    baseline_generated(GENERATED_FILES)
    proof_ok = ctx.lean("StepModel.Props.C15", exes=["m_c15"], extractors=EXTRACTORS)
    if not proof_ok:
        # a theorem no longer checks against the regenerated tables: the driver (which does not depend on the proofs)
        # must still reflect the current source for the search below
        from vlib import lean as L
        L.lake_build(["m_c15"])
    b = ctx.build("asan" if ctx.tier == "thorough" else "plain")
    model_exe = ctx.model_exe("m_c15")
    quick = ctx.tier == "quick"
    n_schemas = 3 if quick else 16
    exit_thr = exit_threshold()
    schemas = []
    # schema 0: the decision-table schema - every base kind x defined-type depth 0..3 x OPTIONAL/required, every other shape
    ts = G.table_schema("tab")
    schemas.append((ts, G.gen_population(ctx.rng, ts, 0, shapes=G.covering_shapes(ts), p_null_optional=0.3, min_targets=2)))
    for si in range(1, n_schemas):
        rng = ctx.rng
        s = G.gen_schema(rng, f"vs{si}", n_entities=rng.randint(4, 7), cover_all_kinds=(si % 2 == 1),
                         p_optional=0.35, with_complex=True, extra=(si % 2 == 0))
        pop = G.gen_population(rng, s, 0, shapes=G.covering_shapes(s), p_null_optional=0.3, min_targets=2)
        schemas.append((s, pop))
    t0 = time.time()
    with cf.ThreadPoolExecutor(max_workers=8) as ex:
        futs = [ex.submit(build_schema, b, s, os.path.join(ctx.work, s.name), True) for s, _ in schemas]
        built = [f.result() for f in futs]
    ctx.cov["correspondence"]["build_s"] = round(time.time() - t0, 1)
    if not os.path.exists(model_exe):
        return
    reported = False
    for (s, pop), (exe, p21) in zip(schemas, built):
        t = time.time()
        layout = None if (quick or schemas.index((s, pop)) % 3) else ctx.rng
        pr = run_schema(ctx, b, s, pop, os.path.join(ctx.work, s.name), exe, p21, model_exe, exit_thr,
                        variants=(True, False), p21_sample=(40 if quick else 200), layout_rng=layout)
        ctx.cov["correspondence"][s.name] = {"entities": len(s.entities), "instances": len(pop),
                                             "property_problems": len(pr["property"]),
                                             "correspondence_problems": len(pr["correspondence"]),
                                             "wall_s": round(time.time() - t, 1)}
        seen = set()
        for info, what in pr["property"]:
            k = key_of(info)
            if k in seen or len(ctx.violations) >= 12:
                continue
            seen.add(k)
            ctx.violation(k, what, minimal_replay(s, info))
            reported = True
        if not [1 for i_, _ in pr["property"] if not i_.get("known_class")] and pr["correspondence"]:
            info, what = pr["correspondence"][0]
            rp = minimal_replay(s, info) if info else {}
            ctx.broken.append(("correspondence AttrNull model vs STEPattribute::STEPread/STEPfile",
                               f"{what}; {len(pr['correspondence'])} disagreeing inputs; first: {json.dumps(rp)[:1500]} "
                               "(the oracle finds the decision table intact on it)"))
            reported = True
        if reported and len(ctx.violations) >= 6:
            break
    # complex instances whose parts carry redefining entries (directed schema), both encodings
    if not ctx.violations:
        pp, pc = complex_redecl_cases(ctx, b, model_exe, os.path.join(ctx.work, "cxr"), exit_thr)
        ctx.cov["correspondence"]["cxr"] = {"property_problems": len(pp), "correspondence_problems": len(pc)}
        seen = set()
        for info, what in pp:
            k = key_of(info)
            if k not in seen:
                seen.add(k)
                ctx.violation(k, what, minimal_replay(schemas[0][0], info))
        if not pp and pc:
            info, what = pc[0]
            ctx.broken.append(("correspondence AttrNull model vs STEPcomplex::STEPread (parts with redefining entries)",
                               f"{what}; {len(pc)} disagreeing inputs"))
    if schemas:
        s, pop = schemas[0]
        ctx.sample({"schema": s.express()[:1200]})
        ctx.sample({"population": G.render(s.name, pop)[:1200]})
    ctx.cov["rule"] = ("schema 0 = decision-table schema (every base kind x defined-type depth 0..3 x OPTIONAL/required + nested/renamed selects); then generated schemas (all attribute base kinds x OPTIONAL/required, defined-type chains, inheritance chains, one ANDOR family): "
                       "a covering conforming population (every entity once, every complex combination once); every attribute "
                       "position of every instance replaced by `$` and by nothing; each read strict and lenient; real p21read "
                       "on one file per (kind, optional, mode, shape, token) class")


def replay(ctx, path):
    d = json.load(open(path))
    r = d.get("replay", d)
    ctx.lean("StepModel.Props.C15", exes=["m_c15"], extractors=EXTRACTORS)
    b = ctx.build("plain")
    wd = os.path.join(ctx.work, "replay")
    os.makedirs(wd, exist_ok=True)
    exp = os.path.join(wd, r["schema_name"] + ".exp")
    open(exp, "w").write(r["schema_express"])
    exe = os.path.join(wd, "h_p21")
    B.gen_schema_lib(b, exp, os.path.join(wd, "gen"), [HARNESS], exe)
    f = os.path.join(wd, "in.p21")
    open(f, "w").write(r["file"])
    h = Harness(exe, b.env())
    try:
        if r.get("p21read_flags") is not None:
            flags = r["p21read_flags"]
            bm = glob.glob(os.path.join(b.src, "src/test/p21read/sc_benchmark.cc"))
            p21 = os.path.join(wd, "p21read")
            B.gen_schema_lib(b, exp, os.path.join(wd, "genp"), [os.path.join(b.src, "src/test/p21read/p21read.cc")] + bm,
                             p21, extra=["-I" + os.path.join(b.src, "src/base"), "-I" + os.path.join(b.bld, "include")])
            rr = subprocess.run([p21] + flags + [f], capture_output=True, env=b.env(), cwd=wd)
            want = 1 if spelling_requests_strict(flags) else 0
            print(f"p21read {' '.join(flags)} FILE -> exit {rr.returncode}; the spelling requests strict={bool(want)}")
            if (rr.returncode != 0) != bool(want):
                ctx.violation(d.get("key", "replay"), d.get("what", "p21read exit status does not follow the requested mode"), r)
            return
        if r.get("pretc"):
            h.cmd(f"reset {1 if r['strict'] else 0}")
            rr = kv(h.cmd(f"{r.get('readcmd', 'readpre')} {f}"))
            dd = parse_dump(h.cmd("dump"))
            st = dd[0][2] if dd else "absent"
            print("readpre:", rr, "state", st, h.cmd("vals 0"))
            rejected = SEV_RANK[rr["sev"]] <= SEV_RANK[exit_threshold()]
            bad = (r["expect"] == "clean" and (rejected or st != "completeSE")) or (r["expect"] == "rejected" and (not rejected or st == "completeSE"))
            if bad or r["expect"] == "table":
                ctx.violation(d.get("key", "replay"), d.get("what", f"pre-technical-corrigendum encoding, {r['pretc']}: severity {rr['sev']}, state {st}"), r)
            return
        if r.get("history_commands"):
            # the replay file is the exchange file; the working-session variant is rendered from it
            _, _, insts = G.parse_p21(r["file"])
            wpath = os.path.join(wd, "mode_w.wsf")
            open(wpath, "w").write(G.render(r["schema_name"], [i for _, i in insts], working=["C"] * len(insts)))
            h.cmd(f"reset {1 if r['strict'] else 0}")
            last = None
            for c in r["history_commands"]:
                op, path = c.split(" ", 1)
                path = wpath if path.endswith("mode_w.wsf") else (f if os.path.basename(path).startswith("m") else path)
                last = kv(h.cmd(f"{op} {path}"))
            print("history:", r["history_commands"], "->", last)
            rejected = SEV_RANK[last["sev"]] <= SEV_RANK["INCOMPLETE"]
            bad = (r["optional"] and rejected) or (not r["optional"] and (r["strict"] or r["kind"] not in SUBST) and not rejected) or \
                  (not r["optional"] and not r["strict"] and r["kind"] in SUBST and last["sev"] != "USERMSG")
            if bad:
                ctx.violation(d.get("key", "replay"), d.get("what", "the mode in force is not the STEPfile's"), r)
            return
        _, _, insts = G.parse_p21(r["file"])
        ids = [i.id for _, i in insts]
        idx = ids.index(r["affected_instance"]) if r.get("affected_instance") in ids else None
        obs = observe(h, f, r["strict"], len(ids), idx)
        print("observed:", {k: v for k, v in obs.items()})
        if idx is None:
            bad = SEV_RANK[obs["sev"]] <= SEV_RANK[exit_threshold()]
            if bad:
                ctx.violation(d.get("key", "replay"), f"conforming population not accepted: {obs}", r)
            return
        val = written_value(obs, insts[idx][1], r["part"], r["position"])
        e = oracle(r["kind"], r["optional"], r["strict"], obs, idx, exit_threshold(), val, r.get("dollar", True))
        if e:
            info = {"optional": r["optional"], "strict": r["strict"], "kind": r["kind"], "dollar": r.get("dollar", True),
                    "shape": r.get("shape", "simple")}
            ctx.violation(known_class(info, obs, idx, val) or d.get("key", "replay"), e, r)
    finally:
        h.close()

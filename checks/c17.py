"""C17 — the build-time scanner predicts exactly the files the C++ generator writes.

proof:           lean/StepModel/Props/C17.lean over lean/StepModel/GenFiles.lean (scanner + exp2cxx file rules)
regenerated tie: tools/extract.d/scanner.py -> Generated/ScannerGen.lean (type_enum, notGenerated case list, the
                 renamed-type tests, exp2cxx's TYPEPrint conditions, fixed names, formats, MAX_LEN, writeLists() text)
correspondence:  the real schema_scanner (compiled from the tree) and exp2cxx on generated / shipped schemas vs the Lean
                 driver m_c17: CMakeLists.txt byte for byte, stdout directory lines, created file set
oracle:          the statement: one build description per schema in its own directory; every file a CMakeLists.txt
                 lists is created by exp2cxx; every file exp2cxx creates (except the two unity headers that are only
                 #included) is listed
"""
import copy, glob, json, os, re, shutil, subprocess, time
from vlib import build as B, gentools as G, schema_gen as SG

VERIF = os.path.dirname(os.path.dirname(os.path.abspath(__file__)))
UNITY_H = re.compile(r"_unity_(entities|types)\.h$")


class Case:
    def __init__(self, name, text, stem="schema", subdir="", ast=None, gen=None, exp_path=None, expect="accepted"):
        self.name, self.text, self.stem, self.subdir, self.ast, self.gen, self.exp_path = name, text, stem, subdir, ast, gen, exp_path
        self.expect = expect      # "accepted" | "refused" (exp2cxx's identifier-length gate must reject it)


TIME_LIMIT = 60      # seconds; the largest shipped schema takes < 10 s


class _Res:
    def __init__(self, rc, out, err):
        self.returncode, self.stdout, self.stderr = rc, out, err


def run_limited(cmd, cwd, env, limit=None):
    """rc = "timeout" when the program does not finish within the limit (it is killed)"""
    try:
        r = subprocess.run(cmd, cwd=cwd, env=env, capture_output=True, text=True, errors="replace", timeout=limit or TIME_LIMIT)
        return _Res(r.returncode, r.stdout, r.stderr)
    except subprocess.TimeoutExpired as e:
        return _Res("timeout", (e.stdout or b"").decode("latin-1") if isinstance(e.stdout, bytes) else (e.stdout or ""),
                    f"killed after {limit or TIME_LIMIT} s without terminating")


# ---------------------------------------------------------------- running the real tools
def run_real(b, case, root):
    """-> dict(exp, accepted, dirs_out, cmakes={dir: text}, created=[...], sc_rc, cx_rc)"""
    shutil.rmtree(root, ignore_errors=True)
    ind = os.path.join(root, "in", case.subdir)
    os.makedirs(ind)
    sc, cx = os.path.join(root, "sc"), os.path.join(root, "cx")
    os.makedirs(sc); os.makedirs(cx)
    if case.exp_path:
        exp = case.exp_path
    else:
        exp = os.path.join(ind, case.stem + ".exp")
        with open(exp, "w") as fh:
            fh.write(case.text)
    env = b.env()
    lim = 4 if (case.text is not None and len(case.text) < 20000) else TIME_LIMIT    # small generated inputs take ~10 ms
    r2 = run_limited([b.tool("exp2cxx"), exp], cx, env, lim)
    r1 = run_limited([G.build_scanner(b), exp], sc, env, lim)
    res = {"exp": exp, "sc_rc": r1.returncode, "cx_rc": r2.returncode, "sc_err": r1.stderr[-500:], "cx_err": r2.stderr[-500:]}
    res["accepted"] = (r1.returncode == 0 and r2.returncode == 0)
    res["dirs_out"] = [l for l in r1.stdout.split("\n") if l]
    res["cmakes"] = {}
    for p in sorted(glob.glob(os.path.join(sc, "*", "CMakeLists.txt"))):
        res["cmakes"][os.path.basename(os.path.dirname(p))] = open(p, errors="replace").read()
    res["created"] = G.tree_listing(cx)
    res["sc_dir"] = sc
    res["cx_dir"] = cx
    return res


def schema_names(case, b):
    if case.ast is None:
        case.ast = G.ast_from_dump(b, case.exp_path)
    return [n for n, _ in case.ast] if case.ast else []


def select_cycle_in_text(text):
    """for inputs that come as text only (corpus, replays): selects lying on a cycle of 'has as item — looking through one
    LIST/SET/BAG/ARRAY OF level — the select' (the relation exp2cxx's checkItem follows)"""
    t = re.sub(r"\(\*.*?\*\)", " ", text, flags=re.S).lower()
    sel = {m.group(1): [x.strip() for x in m.group(2).split(",")] for m in re.finditer(r"type\s+(\w+)\s*=\s*select\s*\(([^)]*)\)", t)}
    agg = {m.group(1): m.group(2) for m in re.finditer(r"type\s+(\w+)\s*=\s*(?:list|set|bag|array)\b[^;]*?\bof\s+(?:optional\s+|unique\s+)*(\w+)\s*;", t)}
    ren = {m.group(1): m.group(2) for m in re.finditer(r"type\s+(\w+)\s*=\s*(\w+)\s*;", t) if m.group(2) not in ("select", "enumeration")}
    def members(n):
        out = []
        for it in sel.get(n, []):
            it = agg.get(it, it)
            while it in ren and it not in sel:
                it = ren[it]
            if it in sel:
                out.append(it)
        return out
    cyc = []
    for n in sel:
        seen, todo = set(), members(n)
        while todo:
            m = todo.pop()
            if m == n:
                cyc.append(n); break
            if m not in seen:
                seen.add(m); todo += members(m)
    return sorted(cyc)


def make_short_name(path, long_name):
    """schemaScanner.cc makeShortName(), used by the oracle only to decide whether two schemas of a file are *meant* to
    collide (the Lean model has its own, tied by the byte comparison of CMakeLists.txt)"""
    filename = path[path.rfind("/") + 1:] if "/" in path else path
    if "." in filename:
        filename = filename[:filename.rfind(".")]
    dirname = path[:path.rfind("/")] if "/" in path else path
    i = dirname.find("data")
    if i < 0 or dirname[i + 4:i + 5] != "/":
        dirname = ""
    else:
        dirname = dirname[dirname.rfind("/") + 1:]
    if 2 < len(dirname) < len(filename):
        filename = dirname
    if len(long_name) < len(filename):
        filename = long_name
    return "sdai_" + filename


_BUILD = [None]


def schemas_needing_a_circle(exp_path):
    """names of the schemas of the file from which a circle of "takes an enumeration / select / supertype / original from" is
    reachable (read off the parser's resolved model: the foreign objects the pass logic looks at); None if unavailable"""
    b = _BUILD[0]
    if b is None:
        return None
    try:
        po = G.pass_objects_from_dump(b, exp_path)
    except Exception:
        return None
    if po is None:
        return None
    dep = {sn: set() for sn, _ in po}
    for sn, ls in po:
        for l in ls:
            w = l.split()
            if w[1] == "S":
                dep[sn].add(w[3].split(".", 1)[0])
    def reach(a):
        seen, todo = set(), list(dep.get(a, ()))
        while todo:
            x = todo.pop()
            if x not in seen:
                seen.add(x); todo += list(dep.get(x, ()))
        return seen
    on_circle = {a for a in dep if a in reach(a)}
    return {a for a in dep if a in on_circle or reach(a) & on_circle}


# ---------------------------------------------------------------- the property oracle
def oracle(case, res, names):
    """-> None or [(key, what), …].  Evaluates C17's statement on what the two real programs did."""
    dirs = res["dirs_out"]
    parsed = {d: G.parse_cmakelists(t) for d, t in res["cmakes"].items()}
    described = sorted(p["schema"] for p in parsed.values())
    early = []
    # a schema that declares neither a type nor an entity gets no generated code (multpass.c) and, since fix C17-4, no build
    # description: it is expected among the described ones only if the scanner did describe it (then its lists are compared below)
    codeless = {n for n, ds in (case.ast or []) if not any(l.startswith(("ent ", "type ")) for l in ds)}
    expected = sorted(n for n in names if n not in codeless or n in described)
    if len(set(dirs)) != len(expected) or described != expected:
        lost = sorted(set(expected) - set(described))
        # decided from the input (file path + schema names), not from the symptom: a collision is when makeShortName maps
        # two schemas of the file to one name
        shorts = {n: make_short_name(res["exp"], n) for n in expected}
        colliding = sorted(n for n in expected if sum(1 for m in expected if shorts[m] == shorts[n]) > 1)
        if colliding and len(set(dirs)) < len(expected):
            early.append(("shortname-collision",
                          f"schemas {colliding} of one file all get the build directory {sorted(set(shorts[n] for n in colliding))}; "
                          f"{len(expected)} schemas with a build description expected, {len(set(dirs))} distinct directories printed; no build description survives for {lost}"))
        for n in lost:
            if n in colliding:
                continue
            mine = sorted(f for f in res["created"] if re.match(r"Sdai" + re.escape(n.upper()) + r"(Names\.h|\.h|\.cc|\.init\.cc|_\d+\.|_unity_)", f))
            if mine:
                early.append(("schema-has-files-but-no-build-description",
                              f"the scanner emitted no CMakeLists.txt for schema {n} although exp2cxx creates {mine[:6]}… for it: the generated code is left out of every library"))
        if early and any(k == "shortname-collision" for k, _ in early):
            return early
    for d, p in parsed.items():
        if not (p["project"] == p["short"] == d and os.path.join(res["sc_dir"], d) in dirs):
            return [("dir-project-mismatch", f"directory {d}, PROJECT({p['project']}), short name {p['short']}, stdout {dirs}")]
    created = set(res["created"])
    listed_all = set()
    missing = {}
    for d, p in parsed.items():
        l = set(G.listed_files(p))
        listed_all |= l
        m = sorted(l - created)
        if m:
            missing[p["schema"]] = m
    unlisted = sorted(f for f in created - listed_all if not UNITY_H.search(f))
    if not parsed:
        # no schema of the file gets a build description and none has per-schema files: nothing is to be built, the
        # per-file files (schema.h, SdaiAll.cc …) are not part of any library
        unlisted = [f for f in unlisted if f not in ("SdaiAll.cc", "Sdaiclasses.h", "compstructs.cc", "schema.cc", "schema.h")]
    # PER SCHEMA (the union over the schemas of a file hides a list that holds another schema's files): the entity/ and type/
    # files a schema's CMakeLists.txt lists must be those the generator wrote for THAT schema - the headers Sdai<SCHEMA>.h
    # (or its pass files Sdai<SCHEMA>_<k>.h) #include, and their .cc counterparts
    foreign = []
    if len(parsed) > 1 and "cx_dir" in res:
        for d, p in sorted(parsed.items()):
            u = re.escape(p["schema"].upper())
            hdrs = [f for f in created if re.fullmatch(r"Sdai" + u + r"(_\d+)?\.h", f)]
            if not hdrs:
                continue
            inc = set()
            for h in hdrs:
                inc |= set(re.findall(r'(?m)^#include "((?:entity|type)/[^"]+)\.h"', open(os.path.join(res["cx_dir"], h), errors="replace").read()))
            lst = {f.rsplit(".", 1)[0] for f in G.listed_files(p) if f.startswith(("entity/", "type/"))}
            extra, lacking = sorted(lst - inc), sorted(x for x in inc - lst if any(f.startswith(x + ".") for f in created))
            if extra or lacking:
                foreign.append((p["schema"], extra, lacking))
    if not missing and not unlisted and not foreign:
        return early or None
    if foreign and not missing and not unlisted:
        sn, extra, lacking = foreign[0]
        return list(early) + [("files:per-schema-lists-differ-from-the-schema's-own-files",
                               f"{len(foreign)} of the {len(parsed)} schemas of the file: CMakeLists.txt of schema {sn} lists {extra[:6]}{'…' if len(extra) > 6 else ''} "
                               f"which Sdai{sn.upper()}.h does not include (files of other schemas of the file)"
                               + (f" and lacks {lacking[:6]} which it includes" if lacking else "")
                               + "; over all schemas of the file together the lists and the created files agree")]
    allm = sorted(x for v in missing.values() for x in v)
    # Decompose the mismatch into the known shapes, schema by schema (several may occur in one file); whatever is not
    # explained by them is reported under a key that names the *shape* of the remaining failure.
    found = list(early)
    rest_m, rest_u = set(allm), set(unlisted)
    for n in names:      # files of a schema that has no build description were reported above
        if n not in described:
            rest_u -= {f for f in rest_u if re.match(r"Sdai" + re.escape(n.upper()) + r"(Names\.h|\.h|\.cc|\.init\.cc|_\d+\.|_unity_)", f)}
    empty = [n for n, ds in (case.ast or []) if not any(l.startswith(("ent ", "type ")) for l in ds)]
    for n in names:
        u = re.escape(n.upper())
        base = {f for f in rest_m if re.fullmatch(r"Sdai" + u + r"(\.h|\.cc|_unity_(entities|types)\.cc)", f)}
        suf = {f for f in rest_u if re.fullmatch(r"Sdai" + u + r"_\d+(\.h|\.cc|_unity_(entities|types)\.cc)", f)}
        if base and suf:
            # decided from the SCHEMA, not from the symptom: several passes are legitimate only for a schema of a
            # multi-schema file that has an interface clause (it may depend on enum/select/supertypes of another schema)
            decls = dict(case.ast or []).get(n, [])
            may_depend = len(names) > 1 and any(l.startswith(("ent ", "type ")) and l.endswith(" 1") for l in decls)
            # since fix C17-5 (a partially printable schema is deferred) only schemas that need EACH OTHER - or need such
            # schemas - may still be split: decided from the dependency graph of the file's schemas as the parser resolved it
            mutual = schemas_needing_a_circle(res["exp"])
            if may_depend and mutual is not None and n not in mutual:
                found.append(("multipass-in-acyclic-file",
                              f"schema {n} takes objects only from schemas that do not need it back (no circle among the schemas it depends on), "
                              f"yet exp2cxx printed it in several files {sorted(suf)[:4]}…; the scanner lists {sorted(base)[:4]}… which are never created"))
            elif may_depend:
                found.append(("multipass-suffix", f"exp2cxx printed schema {n} in several passes and named its files {sorted(suf)[:4]}…, "
                                                  f"the scanner lists {sorted(base)[:4]}… which are never created"))
            else:
                found.append(("multipass-in-self-contained-schema",
                              f"schema {n} refers to nothing outside itself, yet exp2cxx printed it in several passes ({sorted(suf)[:4]}…); "
                              f"the scanner lists {sorted(base)[:4]}… which are never created"))
            rest_m -= base; rest_u -= suf
        if n in empty:
            mine = {f for f in rest_m if re.fullmatch(r"Sdai" + u + r"(\.h|\.cc|Names\.h|\.init\.cc|_unity_(entities|types)\.cc)", f)}
            if mine:
                found.append(("schema-without-entities-and-types",
                              f"schema {n} declares neither types nor entities: exp2cxx never prints it (no Sdai<S>.h/.cc/…), the scanner lists {sorted(mine)[:5]}…"))
                rest_m -= mine
    if rest_m or rest_u:
        def anon(f):
            if f.startswith("type/"):
                return "type-file"
            if f.startswith("entity/"):
                return "entity-file"
            return "schema-file:" + re.sub(r"Sdai[A-Z0-9_]*?(?=(_unity|Names|\.init|\.h$|\.cc$))", "Sdai<S>", f)
        key = ("files:listed-not-created=" + ",".join(sorted({anon(f) for f in rest_m})) +
               ";created-not-listed=" + ",".join(sorted({anon(f) for f in rest_u})))
        found.append((key, f"listed in CMakeLists.txt but not created by exp2cxx: {sorted(rest_m)[:8]}; created but listed nowhere: {sorted(rest_u)[:8]}"))
    return found


def history_oracle(b, case, res, root):
    """The scanner's output must be a function of the schema file's content only — not of what an earlier run left in
    the output directory, nor of time stamps.  History: scan a *variant* of the file (one more entity) at the same path in
    a fresh directory, then put the real content back with an OLD modification time and scan again in the same
    directory; the build descriptions must equal those of the fresh-directory scan (`res`).  -> None or (key, what)"""
    if case.exp_path or case.text is None:
        return None
    m = re.search(r"(?im)^\s*END_SCHEMA\s*;", case.text)
    if not m:
        return None
    variant = case.text[:m.start()] + "ENTITY zz_history_probe_entity;\n  zz_probe_attr : INTEGER;\nEND_ENTITY;\n" + case.text[m.start():]
    hd = os.path.join(root, "sc-history")
    os.makedirs(hd)
    exp = res["exp"]
    env = b.env()
    try:
        open(exp, "w").write(variant)
        r1 = subprocess.run([G.build_scanner(b), exp], cwd=hd, env=env, capture_output=True, text=True, errors="replace")
        open(exp, "w").write(case.text)
        os.utime(exp, (1_577_836_800, 1_577_836_800))      # 2020-01-01: older than the lists written a moment ago
        r2 = subprocess.run([G.build_scanner(b), exp], cwd=hd, env=env, capture_output=True, text=True, errors="replace")
    finally:
        open(exp, "w").write(case.text)
    if r1.returncode != 0 or r2.returncode != 0:
        return None
    for d, want in res["cmakes"].items():
        p = os.path.join(hd, d, "CMakeLists.txt")
        got = open(p, errors="replace").read() if os.path.exists(p) else None
        if got != want:
            w, g = want.split("\n"), (got or "").split("\n")
            i = next((i for i in range(min(len(w), len(g))) if w[i] != g[i]), min(len(w), len(g)))
            return ("scanner-depends-on-previous-output",
                    f"{d}/CMakeLists.txt after the history [scan a revision with one more entity; restore this file with an older mtime; scan again "
                    f"in the same directory] differs from a scan in an empty directory at line {i+1}: {g[i:i+1]} vs {w[i:i+1]}")
    out2 = [os.path.basename(l) for l in r2.stdout.split("\n") if l]
    if out2 != [os.path.basename(l) for l in res["dirs_out"]]:
        return ("scanner-depends-on-previous-output", f"stdout after the history {out2} vs fresh {res['dirs_out']}")
    return None


# ---------------------------------------------------------------- the model side
def observed_sufs(names, created, ast=None):
    out = []
    for n in names:
        ks = sorted(int(m.group(1)) for f in created for m in [re.fullmatch(r"Sdai" + re.escape(n.upper()) + r"_(\d+)\.h", f)] if m)
        if not ks and f"Sdai{n.upper()}.h" in created:
            ks = [0]
        out.append(f"{n}=" + ",".join(str(k) for k in ks))       # no pass at all: the schema was never printed
    return ";".join(out)


def _pnorm(xs):
    def nl(l):
        w = l.split()
        return " ".join(w[:6] + [",".join(sorted(set(x.split(",")))) for x in w[6:]])
    return [(sn, sorted(nl(l) for l in ls)) for sn, ls in xs]


def correspondence(ctx, case, res, names, model_exe, b=None):
    """-> list of disagreement strings between the model and the real programs"""
    obs = observed_sufs(names, res["created"], case.ast)
    lines = G.ast_lines(res["exp"], case.ast) + ["scan", "passes", "cxx auto", "cxx " + obs]
    # the pass decision of multpass.c (print_schemas_separate, checkTypes, checkEnts, checkItem) is in the model:
    # predicted SCHEMAprint suffixes per schema, for files with and without interface clauses.  The structure it looks at
    # (select items, attribute types, supertypes, renames - as RESOLVED) is read off the real parser's model (h_exprdump -p)
    # for every input, generated or not; for generated inputs the generator's own view of it is compared as well.
    pobjs = G.pass_objects_from_dump(b, res["exp"]) if b is not None else None
    if case.gen is not None:
        gview = G.pass_objects(case.gen)
        if pobjs is None:
            pobjs = gview
        elif _pnorm(pobjs) != _pnorm(gview):
            ctx.hist("passes", "generator's view of the pass structure differs from the parser's (the parser's is used)")
    if pobjs is not None:
        for sn, ls in pobjs:
            lines.append("pschema " + sn)
            lines += ls
        lines.append("printfile")
        lines.append("selorder")
    # ComplexCollect (built before anything is written; compstructs.cc is printed from it): the lists the model keeps after
    # the constructor's pruning loop vs the `// ComplexList with supertype "…":` lines of the real compstructs.cc
    cls = G.complex_lists_from_dump(b, res["exp"]) if (b is not None and "cx_dir" in res) else None
    if cls is not None:
        lines += cls + ["collect"]
    rc, out, err = G.run_driver(model_exe, lines)
    if cls is not None and rc == 0 and len(out) == len(lines):
        k = out.pop()
        del out[len(out) - len(cls):]
        del lines[len(lines) - len(cls) - 1:]
        cs = os.path.join(res["cx_dir"], "compstructs.cc")
        real = re.findall(r'(?m)^\s*// ComplexList with supertype "([^"]*)":', open(cs, errors="replace").read()) if os.path.exists(cs) else None
        ctx.hist("collect", "compstructs.cc lists predicted by Collect.build" + (" (none)" if not real else " (same name twice)" if len(set(real)) < len(real) else ""))
        if real is not None and k != ("K " + " ".join(real)).rstrip() and k.rstrip() != ("K " + " ".join(real)).rstrip():
            early_dis = f"compstructs.cc ComplexLists: exp2cxx {real[:8]} vs Collect.build {k[:200]!r}"
        else:
            early_dis = None
    else:
        early_dis = None
    selq = None
    if pobjs is not None and rc == 0 and len(out) == len(lines) and lines and lines[-1] == "selorder":
        selq = out.pop()
        lines.pop()
    if rc != 0 or len(out) != len(lines) or "bad-op" in out:
        return [f"model driver rc={rc} answered {len(out)}/{len(lines)} lines {err[-200:]} {[o for o in out if o == 'bad-op'][:1]}"]
    n0 = len(G.ast_lines(res["exp"], case.ast))
    scan, passes, cauto, cobs = out[n0:n0 + 4]
    dis = [early_dis] if early_dis else []
    if pobjs is not None:
        pf = out[-1]
        want = {kv.split("=")[0]: kv.split("=")[1] for kv in obs.split(";")}
        got = {kv.split("=")[0]: kv.split("=")[1] for kv in pf[2:].split(";")} if pf.startswith("F ") and "=" in pf else pf
        ctx.hist("passes", "SCHEMAprint suffixes predicted by Pass.printFile" + (" (multi-pass or unprinted schema)" if any(v != "0" for v in want.values()) else ""))
        if got != want:
            dis.append(f"SCHEMAprint suffixes per schema: exp2cxx {want} vs Pass.printFile {got}")
        # the ORDER in which the select loop of SCOPEPrint emits classes (#include of type/Sdai<T>.h) and typedef blocks of renamed
        # selects, schema by schema, for files printed in one pass: real Sdai<SCHEMA>.h vs SelOrder.visitAll
        if selq is not None and selq.startswith("Q") and all(v == "0" for v in want.values()) and "cx_dir" in res:
            pred = {kv.split("=")[0]: [x for x in kv.split("=")[1].split(",") if x] for kv in selq[2:].split(";") if "=" in kv}
            for sn in want:
                hp = os.path.join(res["cx_dir"], f"Sdai{sn.upper()}.h")
                if not os.path.exists(hp) or sn not in pred:
                    continue
                txt = open(hp, errors="replace").read()
                a, bpos = txt.find("***** Build the SELECT Types"), txt.find("**************  ENTITIES")
                real = [("c:" if m.group(1) else "t:") + (m.group(1) or m.group(2))
                        for m in re.finditer(r'(?m)^#include "type/(Sdai[^"]*)\.h"|^typedef (Sdai\w+) \*        \2H;', txt[a:bpos])] if 0 <= a < bpos else []
                cls = lambda q: "Sdai" + q.split(".", 1)[1].capitalize()
                want_ev = [e[:2] + cls(e[2:]) for e in pred[sn]]
                ctx.hist("selects", "emission order of the select loop predicted by SelOrder.visitAll" + (" (2+ selects)" if len(real) > 1 else ""))
                if real != want_ev:
                    dis.append(f"select emission order in Sdai{sn.upper()}.h: exp2cxx {real[:8]} vs SelOrder.visitAll {want_ev[:8]}")
                    break
    parts = scan[2:].split(" | ")
    shorts = parts[0].split()
    if [os.path.basename(d) for d in res["dirs_out"]] != shorts or any(os.path.dirname(d) != res["sc_dir"] for d in res["dirs_out"]):
        dis.append(f"stdout of the scanner {res['dirs_out']} vs model <cwd>/{shorts}")
    mfs = {}
    for p in parts[1:]:
        if not p.strip():
            continue          # no schema of the file gets a build description
        d, _, hx = p.partition(" ")
        mfs[d] = bytes.fromhex(hx).decode("utf-8", "replace")
    if set(mfs) != set(res["cmakes"]):
        dis.append(f"CMakeLists.txt directories {sorted(res['cmakes'])} vs model {sorted(mfs)}")
    else:
        for d in mfs:
            if mfs[d] != res["cmakes"][d]:
                a, m = res["cmakes"][d].split("\n"), mfs[d].split("\n")
                i = next((i for i in range(min(len(a), len(m))) if a[i] != m[i]), min(len(a), len(m)))
                dis.append(f"{d}/CMakeLists.txt line {i+1}: real {a[i:i+1]} vs model {m[i:i+1]}")
                break
    real = sorted(res["created"])
    if passes != "P unmodelled":
        ctx.hist("passes", "modelled")
        if cauto.startswith("C ") and sorted(cauto[2:].split()) != real:
            mm = cauto[2:].split()
            if set(mm) != set(real):
                dis.append(f"files created by exp2cxx vs model (passes predicted {passes}): only real {sorted(set(real)-set(mm))[:6]} only model {sorted(set(mm)-set(real))[:6]}")
            else:
                # the same name created twice (e.g. an entity of the same name in two schemas of the file): the later write
                # replaces the earlier one in the real run as well — a name-collision matter (C02), not a file-set difference
                ctx.hist("passes", "a generated file name is created twice in one run (overwritten)")
        elif not cauto.startswith("C "):
            dis.append(f"model answered {cauto!r} for an accepted file")
    else:
        ctx.hist("passes", "unmodelled (observed suffixes given to the model)")
    if cobs.startswith("C "):
        mm = cobs[2:].split()
        if set(mm) != set(real):
            dis.append(f"files created by exp2cxx vs model with observed pass suffixes: only real {sorted(set(real)-set(mm))[:6]} only model {sorted(set(mm)-set(real))[:6]}")
    else:
        dis.append(f"model answered {cobs!r} for an input exp2cxx accepted")
    return dis


# ---------------------------------------------------------------- shrinking generated inputs
def shrink(b, case, root, key, names_fn):
    f = case.gen
    if f is None:
        return case
    f = copy.deepcopy(f)

    def still(ff):
        c = Case(case.name, ff.text(), case.stem, case.subdir, ast=G.ast_from_gen(ff), gen=ff)
        r = run_real(b, c, root)
        if not r["accepted"]:
            return False
        o = oracle(c, r, [n for n, _ in c.ast])
        return o is not None and any(k == key for k, _ in o)
    changed = True
    while changed:
        changed = False
        for s in list(f.schemas):
            if len(f.schemas) > 1:
                g = copy.copy(f); g.schemas = [x for x in f.schemas if x is not s]
                if all(o is not s for x in g.schemas for o in x.references) and still(g):
                    f = g; changed = True; break
            for d in list(s.decls):
                keep = s.decls
                s.decls = [x for x in keep if x is not d]
                if still(f):
                    changed = True; break
                s.decls = keep
            if changed:
                break
    return Case(case.name + "-min", f.text(), case.stem, case.subdir, ast=G.ast_from_gen(f), gen=f)


# ---------------------------------------------------------------- inputs
MS_TEXT = """SCHEMA aa_schema;
REFERENCE FROM bb_schema (eb, tb_enum);
TYPE ta_enum = ENUMERATION OF (x, y); END_TYPE;
ENTITY ea; r : eb; q : tb_enum; END_ENTITY;
END_SCHEMA;
SCHEMA bb_schema;
REFERENCE FROM aa_schema (ta_enum);
TYPE tb_enum = ENUMERATION OF (p, q); END_TYPE;
ENTITY eb; s : ta_enum; END_ENTITY;
END_SCHEMA;
"""
MS_AST = [("aa_schema", ["type ta_enum enumeration_ 0 1", "ent ea 1"]), ("bb_schema", ["type tb_enum enumeration_ 0 1", "ent eb 1"])]
SAME_NAME_TEXT = """SCHEMA s_orel1;
ENTITY e_el;
END_ENTITY;
ENTITY e_ne25
  SUBTYPE OF (e_el);
END_ENTITY;
END_SCHEMA;

SCHEMA s_honepa;
ENTITY e_or;
END_ENTITY;
ENTITY e_ormu;
END_ENTITY;
ENTITY e_el
  SUBTYPE OF (e_or, e_ormu);
END_ENTITY;
ENTITY e_kadada56
  SUBTYPE OF (e_el, e_or);
END_ENTITY;
END_SCHEMA;
"""
SAME_NAME_AST = [("s_orel1", ["ent e_el 0", "ent e_ne25 0"]), ("s_honepa", ["ent e_or 0", "ent e_ormu 0", "ent e_el 0", "ent e_kadada56 0"])]
TWO_TEXT = "SCHEMA first_schema;\nENTITY ea; END_ENTITY;\nEND_SCHEMA;\nSCHEMA second_schema;\nENTITY eb; END_ENTITY;\nEND_SCHEMA;\n"
TWO_AST = [("first_schema", ["ent ea 0"]), ("second_schema", ["ent eb 0"])]


def fixed_cases():
    allk = SG.every_type_kind_schema()
    long_name = "s" + "x" * 231
    return [
        Case("all-type-kinds", allk.text(), "all_kinds", ast=G.ast_from_gen(allk), gen=allk),
        Case("all-type-kinds-in-data-dir", allk.text(), "all_kinds_long_file_name", "data/kinds", ast=G.ast_from_gen(allk), gen=allk),
        # two independent schemas, file name longer than the schema names: distinct directories
        Case("two-schemas-long-file-name", TWO_TEXT, "a_file_name_longer_than_the_schema_names", ast=TWO_AST),
        # known defects (DESIGN §6 has none for C17; found by this check)
        Case("two-schemas-short-file-name", TWO_TEXT, "ms", ast=TWO_AST),
        Case("mutually-dependent-schemas", MS_TEXT, "mutually_dependent_schemas_in_one_file", ast=MS_AST),
        # two schemas (no interface clauses) that both declare an entity `e_el`, one of them as a subtype: exp2cxx did not terminate before fix C17-2
        Case("same-entity-name-in-two-schemas", SAME_NAME_TEXT, "two_schemas_with_an_entity_of_the_same_name", ast=SAME_NAME_AST),
        Case("schema-without-entities-and-types", "SCHEMA only_fun;\nFUNCTION ff(x : INTEGER) : INTEGER;\n  RETURN (x);\nEND_FUNCTION;\nEND_SCHEMA;\n",
             "empty_schema_file", ast=[("only_fun", ["other ff"])]),
        # exp2cxx's identifier gate (MAX_IDENT_LEN = 200): longer names are refused with exit 1 before any file is written, so the
        # truncating snprintf's of SCHEMAprint (former finding schema-name-truncated) are unreachable; 200 is still accepted
        Case("schema-name-232-chars-refused", f"SCHEMA {long_name};\nENTITY e1; END_ENTITY;\nEND_SCHEMA;\n", "long", ast=[(long_name, ["ent e1 0"])], expect="refused"),
        Case("schema-name-200-chars", f"SCHEMA {long_name[:200]};\nENTITY e1; END_ENTITY;\nEND_SCHEMA;\n", "long200", ast=[(long_name[:200], ["ent e1 0"])]),
    ]


def generated_cases(ctx, n):
    out = []
    for i in range(n):
        r = ctx.rng
        g = SG.Gen(r, mixed_case=r.choice([0, 0.3, 0.8]), case_collide=r.choice([0, 0.7]))
        nsch = r.choice([1, 1, 1, 2, 2, 3])
        f = g.schema_file(nschemas=nsch)
        if r.random() < 0.12:      # a schema that declares neither types nor entities (known defect shape, see KNOWN_FINDINGS)
            es = SG.Schema(f"s_only_functions_{i}")
            es.add(SG.OtherDecl("FUNCTION", f"f_alone_{i}", f"FUNCTION f_alone_{i}(x : INTEGER) : INTEGER;\n  RETURN (x);\nEND_FUNCTION;"))
            f.schemas.insert(r.randrange(len(f.schemas) + 1), es)
        # file names: short (schema name is longer), long, below a data/ directory with short or long last component
        stem = r.choice(["s", "sch", "schema_file_with_a_rather_long_name_%d" % i, f.schemas[0].name, "x" * 70])
        subdir = r.choice(["", "", "data/ap", "data/application_protocol_%d" % i, "some/data", "metadata/x1", "data"])
        out.append(Case(f"gen-{ctx.seed}-{i}", f.text(), stem, subdir, ast=G.ast_from_gen(f), gen=f))
    return out


def renamed_in_select_cases(ctx, n):
    """renamed enumerations / selects reached from SELECTs under many identifier permutations: the visiting order of
    checkTypes (= hash order of the names) decides whether a select is examined before the renamed enumeration it uses"""
    r = ctx.rng
    words = ["pick", "fitting", "finish", "marker", "colour", "shade", "tone", "hue", "grade", "kind", "choice", "option", "variant",
             "coating", "panel", "part", "item", "unit", "lamp", "signal", "aspect", "mode", "state", "level", "rank", "tier", "sort",
             "treatment", "indicator", "surface", "layer", "cover", "tag", "label", "mark", "sign", "code", "key", "slot", "port"]
    out = []
    for i in range(n):
        ws = r.sample(words, 8)
        if r.random() < 0.5:
            ws = [w + r.choice(["", "_a", "_b", "_1", "_x2", "_type"]) for w in ws]
        names = dict(zip(["enum", "ren", "ren2", "sel", "sel2", "rsel", "ent", "sub"], ws))
        f = SG.renamed_in_select_schema(names, variant=i % 4, schema_name=r.choice(["paint_shop", "signal_plan", "ren_in_sel"]))
        out.append(Case(f"renamed-in-select-{ctx.seed}-{i}", f.text(), "renamed_types_reached_from_selects", ast=G.ast_from_gen(f), gen=f))
    return out


def schema_order_cases(ctx, quick):
    """multi-schema files in which the ORDER the dictionary delivers the schemas matters: a schema that takes an enumeration and a
    supertype from another one and has objects of its own to print, under many pairs of schema names (so that the user comes
    first in the dictionary for some, the supplier for others), chains of three, schemas that need each other; and files NAMED
    after one of their schemas - each of them in turn, so that it is the first in dictionary order for some and not for others."""
    r = ctx.rng
    words = ["alpha", "beta", "gamma", "delta", "geometry", "appearance", "topology", "styling", "m1", "m2", "parts", "colours", "zz_user",
             "aa_supplier", "aa_user", "zz_supplier", "kernel", "shell", "base_s", "derived_s", "s1", "s2", "s3", "x_schema", "y_schema"]
    out = []
    def ast_of(names_decls):
        return [(n, [f"{k} {d} 1" if k == "ent" else f"type {d} enumeration_ 0 1" for k, d in ds]) for n, ds in names_decls]
    for i in range(8 if quick else 60):
        u, sup, third = r.sample(words, 3)
        user = (f"SCHEMA {u};\nREFERENCE FROM {sup} (colour_{i}, base_part_{i});\nTYPE size_{i} = ENUMERATION OF (small, large);\nEND_TYPE;\n"
                f"ENTITY widget_{i};\n  s : size_{i};\nEND_ENTITY;\nENTITY painted_{i} SUBTYPE OF (base_part_{i});\n  c : colour_{i};\nEND_ENTITY;\nEND_SCHEMA;\n")
        supplier = (f"SCHEMA {sup};\nTYPE colour_{i} = ENUMERATION OF (red, green);\nEND_TYPE;\nENTITY base_part_{i};\n  id : STRING;\nEND_ENTITY;\nEND_SCHEMA;\n")
        text = (user + supplier) if i % 2 == 0 else (supplier + user)
        ast = ast_of([(u, [("type", f"size_{i}"), ("ent", f"widget_{i}"), ("ent", f"painted_{i}")]), (sup, [("type", f"colour_{i}"), ("ent", f"base_part_{i}")])])
        if i % 2:
            ast.reverse()
        out.append(Case(f"schema-order:user-{u}-supplier-{sup}", text, "a_file_name_longer_than_any_of_the_schema_names_in_it", ast=ast))
        if i % 3 == 0:      # a chain of three: third <- u <- sup
            top = (f"SCHEMA {third};\nREFERENCE FROM {u} (painted_{i});\nENTITY top_{i} SUBTYPE OF (painted_{i});\nEND_ENTITY;\nENTITY top_alone_{i};\nEND_ENTITY;\nEND_SCHEMA;\n")
            out.append(Case(f"schema-order:chain-{third}-{u}-{sup}", top + user + supplier, "a_file_name_longer_than_any_of_the_schema_names_in_it",
                            ast=ast_of([(third, [("ent", f"top_{i}"), ("ent", f"top_alone_{i}")]), (u, [("type", f"size_{i}"), ("ent", f"widget_{i}"), ("ent", f"painted_{i}")]),
                                        (sup, [("type", f"colour_{i}"), ("ent", f"base_part_{i}")])])))
        # two INDEPENDENT schemas in a file named after each of them in turn (and after neither)
        a, bb = r.sample(words, 2)
        two = (f"SCHEMA {a};\nTYPE axis_{i} = ENUMERATION OF (x, y, z);\nEND_TYPE;\nENTITY point_{i};\n  along : axis_{i};\nEND_ENTITY;\nEND_SCHEMA;\n"
               f"SCHEMA {bb};\nENTITY coating_{i};\n  name : STRING;\nEND_ENTITY;\nEND_SCHEMA;\n")
        ast2 = [(a, [f"type axis_{i} enumeration_ 0 0", f"ent point_{i} 0"]), (bb, [f"ent coating_{i} 0"])]
        for stem in (a, bb):
            out.append(Case(f"file-named-after-schema:{stem}-of-{a}+{bb}", two, stem, r.choice(["", "data/" + stem, "some/dir"]), ast=ast2))
    return out


def inverse_cases(ctx, n):
    """INVERSE attributes as a dimension: where the inverted attribute comes from for the entity the clause names — declared by it /
    inherited through its first supertype / through its 2nd or 3rd supertype / from two levels up a later supertype — under many
    identifier permutations (the dictionary order decides whether the entity declaring the INVERSE is printed before or after the
    one it names and the supertypes between them)."""
    r = ctx.rng
    words = ["identified", "usage", "occurrence", "part", "assembly", "link", "relation", "member", "holder", "owner", "node", "edge",
             "joint", "carrier", "slot", "mount", "frame", "panel", "bracket", "fixture", "anchor", "bearing", "socket", "plug", "strap",
             "tag", "label", "record", "entry", "note", "mark", "unit", "group", "bundle", "stack", "layer", "zone", "cell", "grid", "rail"]
    out = []
    for i in range(n):
        ws = r.sample(words, 7)
        if r.random() < 0.5:
            ws = [w + r.choice(["", "_a", "_b2", "_x", "_item", "_1"]) for w in ws]
        ident, usage, occ, part, asm, top, extra = ws
        v = i % 5
        holder = top if v == 3 else usage                       # who declares whole / component
        sup = {0: [], 1: [usage, ident], 2: [ident, usage], 3: [ident, usage], 4: [ident, extra, usage]}[v]
        named = usage if v == 0 else occ
        ents = []
        ents.append((ident, f"ENTITY {ident};\n  id : STRING;\nEND_ENTITY;"))
        if v == 3:
            ents.append((top, f"ENTITY {top};\n  whole : {asm};\n  component : {part};\nEND_ENTITY;"))
            ents.append((usage, f"ENTITY {usage}\n  SUBTYPE OF ({top});\n  rank : INTEGER;\nEND_ENTITY;"))
        else:
            ents.append((usage, f"ENTITY {usage};\n  whole : {asm};\n  component : {part};\nEND_ENTITY;"))
        if v == 4:
            ents.append((extra, f"ENTITY {extra};\n  remark : STRING;\nEND_ENTITY;"))
        if v != 0:
            ents.append((occ, f"ENTITY {occ}\n  SUBTYPE OF ({', '.join(sup)});\n  quantity : INTEGER;\nEND_ENTITY;"))
        ents.append((part, f"ENTITY {part};\n  name : STRING;\nINVERSE\n  used_in : SET [0:?] OF {named} FOR component;\nEND_ENTITY;"))
        ents.append((asm, f"ENTITY {asm};\n  name : STRING;\nINVERSE\n  made_of : {'SET [0:?] OF ' if i % 2 else 'BAG OF '}{named} FOR whole;\nEND_ENTITY;"))
        r.shuffle(ents)
        sn = r.choice(["inverse_over_inherited", "inv_s", "product_structure"])
        text = f"SCHEMA {sn};\n\n" + "\n\n".join(t for _, t in ents) + "\n\nEND_SCHEMA;\n"
        label = ["declared-by-the-named-entity", "via-first-supertype", "via-second-supertype", "two-levels-up-the-second-supertype", "via-third-supertype"][v]
        out.append(Case(f"inverse-{label}-{ctx.seed}-{i}", text, "inverse_attributes", ast=[(sn, [f"ent {nm} 0" for nm, _ in ents])]))
    return out


def shape_cases(ctx, quick):
    """type-only schemas (each kind of defined type alone, a vocabulary schema) and long-but-legal identifiers
    (60..200 characters, singly and in pairs) for every declaration kind"""
    out = []
    for label, f in SG.type_only_schemas():
        out.append(Case("type-only:" + label, f.text(), "type_only_" + label + "_schema_file", ast=G.ast_from_gen(f), gen=f))
    r = ctx.rng
    kinds = ["enum", "select", "entity", "simple", "agg", "renamed_enum", "function", "schema"]
    singles = [(60,), (100,), (113,), (114,), (115,), (120,), (160,), (199,), (200,)]
    pairs = [(100, 115), (110, 120), (60, 170), (115, 116), (200, 200)]
    combos = [(k, ls) for k in kinds for ls in singles + pairs]
    if quick:       # every kind at the extremes, plus a random sample of the rest
        keep = [(k, ls) for k, ls in combos if ls in ((120,), (200,), (100, 115), (200, 200))]
        rest = [c for c in combos if c not in keep]
        combos = keep + r.sample(rest, 16)
    else:
        combos += [(k, (r.randint(60, 200),)) for k in kinds for _ in range(6)] + [(k, (r.randint(60, 200), r.randint(60, 200))) for k in kinds for _ in range(6)]
    done = set()
    for k, ls in combos:
        # the order in which the programs ask for the names is a hash order of the names: vary the filler letter, and
        # for the kinds whose names become file names take all four fillers for the pairs
        fills = "qxyz" if (len(ls) == 2 and k in ("enum", "select", "renamed_enum")) else r.choice("qxyz")
        for fill in fills:
            if (k, ls, fill) in done:
                continue
            done.add((k, ls, fill))
            f = SG.long_identifier_schema(k, ls, filler=fill)
            out.append(Case(f"long-identifier:{k}:{'+'.join(map(str, ls))}:{fill}", f.text(), "long_identifier_schema_file", ast=G.ast_from_gen(f), gen=f))
    return out


def select_nesting_cases(ctx, quick):
    """acyclic chains of nested selects of depth 2..40 under several name orders (the number of sweeps checkTypes needs is
    the number of links whose outer select precedes its member in hash order), directly and through LIST types; and selects
    that contain each other in a circle through aggregates (termination!)"""
    r = ctx.rng
    out = []
    depths = [2, 3, 5, 8, 11, 12, 16, 20, 25, 32, 40] if quick else list(range(2, 41))
    for d in depths:
        orders = {"ascending": [f"choice_{i:02d}" for i in range(1, d + 1)],
                  "descending": [f"choice_{i:02d}" for i in range(d, 0, -1)],
                  "words": [f"{w}_{i}" for i, w in enumerate(r.sample(["pick", "option", "variant", "alt", "kind", "way", "branch", "case_of", "route", "mode"] * 4, d))]}
        for oname, names in orders.items():
            for agg in ((False, True) if (not quick or d in (3, 16, 40)) else (False,)):
                f = SG.select_chain_schema(names, through_aggregate=agg)
                out.append(Case(f"select-chain:{d}:{oname}{':via-list' if agg else ''}", f.text(), "select_nesting_chain_schema_file", ast=G.ast_from_gen(f), gen=f))
    for n in (2, 3) if quick else (2, 3, 4, 7):
        f = SG.select_cycle_through_aggregates_schema(n)
        out.append(Case(f"select-cycle-through-aggregates:{n}", f.text(), "select_cycle_schema_file", ast=G.ast_from_gen(f), gen=f))
    return out


def shipped_cases(b, quick):
    data = os.path.join(b.src, "data")
    files = sorted(glob.glob(os.path.join(data, "*", "*.exp"))) + sorted(glob.glob(os.path.join(b.src, "test", "unitary_schemas", "*.exp")))
    if quick:
        files = [f for f in files if os.path.getsize(f) < 60000][:6]
    return [Case("shipped:" + os.path.relpath(f, b.src), None, exp_path=f) for f in files]


# ---------------------------------------------------------------- one case
def examine(ctx, b, case, model_exe, idx):
    root = os.path.join(ctx.work, f"c{idx}")
    res = run_real(b, case, root)
    if case.expect == "refused":
        ctx.count(1, key=case.text)
        ctx.hist("inputs", "fixed: must be refused by exp2cxx's identifier gate")
        rc, out, err = G.run_driver(model_exe, G.ast_lines(res["exp"], case.ast) + ["cxx auto"])
        if res["cx_rc"] == 0 or G.tree_listing(os.path.join(root, "cx")):
            ctx._disagree.append((case.name, f"exp2cxx rc={res['cx_rc']} created {len(res['created'])} files for an identifier the model says is refused", None))
        elif rc != 0 or not out or out[-1] != "C refused":
            ctx._disagree.append((case.name, f"exp2cxx refuses the input (rc={res['cx_rc']}) but the model answers {out[-1:] }", None))
        shutil.rmtree(root, ignore_errors=True)
        return
    if (res["sc_rc"] == 0) != (res["cx_rc"] == 0) and len(ctx.violations) < 3:
        # one program accepts the file and the other does not: the scanner promises a build the generator cannot deliver
        # (or the generator's output is never built).  (Inputs exp2cxx must refuse by its documented identifier gate are
        # handled above and never reach this point.)
        who = "schema_scanner exits 0 and writes a build description, exp2cxx fails" if res["sc_rc"] == 0 else "exp2cxx exits 0, schema_scanner fails"
        key = "acceptance-mismatch:" + ("scanner-only" if res["sc_rc"] == 0 else "generator-only")
        if res["cx_rc"] == "timeout":
            cyc = SG.select_cycle_in(case.gen) if case.gen is not None else select_cycle_in_text(case.text or "")
            # decided from the schema: the known shape is selects containing each other (through aggregates) in a circle
            # … or an entity name declared in two schemas of the file (ComplexCollect keeps its lists by supertype NAME)
            ents = [l.split()[1] for _, ds in (case.ast or []) for l in ds if l.startswith("ent ")]
            dup = sorted({e for e in ents if ents.count(e) > 1})
            # what the models say about this input: ComplexCollect's pruning loop (Collect.build) and the pass logic (Pass.printFile)
            said = []
            try:
                cl = G.complex_lists_from_dump(b, res["exp"])
                po = G.pass_objects_from_dump(b, res["exp"])
                if cl is not None and po is not None:
                    ql = ["reset"] + cl + ["collect"]
                    for sn, ls in po:
                        ql += ["pschema " + sn] + ls
                    ql.append("printfile")
                    qrc, qout, _ = G.run_driver(model_exe, ql)
                    if qrc == 0 and len(qout) == len(ql):
                        if qout[len(cl) + 1] == "K hung":
                            said.append("Collect.build: the constructor of ComplexCollect never finishes on these lists")
                        if qout[-1] == "F hung":
                            said.append("Pass.printFile: the sweep loop of checkTypes never settles")
                        ctx.hist("termination", "non-termination " + ("predicted by the model" if said else "NOT predicted by the models"))
            except Exception as e:
                said.append(f"(models not asked: {e})")
            key = "exp2cxx-does-not-terminate:" + ("select-cycle-through-aggregates" if cyc else "same-entity-name-in-two-schemas" if dup else "other")
            who = ((f"[predicted by the model - {'; '.join(said)}] " if said else "") + f"schema_scanner exits 0 and writes a build description; exp2cxx does not terminate"
                   + (f" (selects {cyc} contain each other in a circle through aggregate types: checkTypes' sweep loop never settles)" if cyc else
                      f" (entity name(s) {dup} are declared in more than one schema of the file: ComplexCollect::remove() cannot find the second list of that name and the "
                      f"loop that drops dependent lists in ComplexCollect::ComplexCollect() spins)" if dup else ""))
        ctx.violation(key,
                      f"[{case.name}] {who} (scanner rc={res['sc_rc']}, exp2cxx rc={res['cx_rc']}: {(res['cx_err'] if res['sc_rc'] == 0 else res['sc_err'])[-160:].strip()!r})",
                      {"file_name": os.path.join(case.subdir, case.stem + ".exp") if not case.exp_path else case.exp_path,
                       "express": case.text if case.text is not None else f"<shipped file {case.exp_path}>",
                       "how": "run schema_scanner and exp2cxx on the file, each in an empty directory, and compare the exit status"})
    if not res["accepted"]:
        if case.exp_path is None:
            ctx.hist("inputs", "generated-but-rejected")
            if not hasattr(ctx, "_rej"):
                ctx._rej = 0
            ctx._rej += 1
            if case.name.startswith(("all-", "two-", "mutually", "schema-")):
                ctx.broken.append(("fixed input rejected", f"{case.name}: scanner rc={res['sc_rc']} exp2cxx rc={res['cx_rc']} {res['cx_err']}"))
        else:
            ctx.hist("inputs", "shipped-rejected-by-tool (not in C17's domain)")
        shutil.rmtree(root, ignore_errors=True)
        return
    names = schema_names(case, b)
    ctx.count(1, key=case.name if case.exp_path else case.text)
    ctx.hist("inputs", "shipped" if case.exp_path else ("generated" if case.gen is not None and case.name.startswith("gen-") else
                                                          "renamed-in-select" if case.name.startswith("renamed-in-select") else
                                                          "type-only" if case.name.startswith("type-only") else
                                                          "select-nesting" if case.name.startswith("select-") else
                                                          "long-identifier" if case.name.startswith("long-identifier") else
                                                          "inverse-attributes" if case.name.startswith("inverse-") else
                                                          "schema-order" if case.name.startswith(("schema-order", "file-named")) else "fixed"))
    ctx.hist("schemas-per-file", str(min(len(names), 4)) + ("+" if len(names) >= 4 else ""))
    if case.gen is not None:
        for ft in case.gen.features():
            if ft.startswith(("type:", "multi", "foreign", "mixed")):
                ctx.hist("features", ft)
    o = oracle(case, res, names)
    from vlib import findings as F
    for key, what in (o or []):
        if len(ctx.violations) >= 3:
            break
        mc = case
        if case.gen is not None and not F.lookup(ctx.pid, key):
            mc = shrink(b, case, root + "-shrink", key, None)
            shutil.rmtree(root + "-shrink", ignore_errors=True)
        ctx.violation(key, f"[{mc.name}] {what}",
                      {"file_name": os.path.join(mc.subdir, mc.stem + ".exp") if not mc.exp_path else mc.exp_path,
                       "express": mc.text if mc.text is not None else f"<shipped file {mc.exp_path}>",
                       "how": "run `schema_scanner <file>` in an empty directory and `exp2cxx <file>` in another; compare the file names in "
                              "the set(..._hdrs/_impls ...) blocks of every <dir>/CMakeLists.txt with the files exp2cxx created"})
    if o is None or all(F.lookup(ctx.pid, k) for k, _ in o):
        h = history_oracle(b, case, res, root)
        if h is not None and len(ctx.violations) < 3:
            ctx.violation(h[0], f"[{case.name}] {h[1]}",
                          {"file_name": os.path.join(case.subdir, case.stem + ".exp"), "express": case.text,
                           "history": ["write <file> := express with `ENTITY zz_history_probe_entity; zz_probe_attr : INTEGER; END_ENTITY;` inserted before the first END_SCHEMA",
                                       "schema_scanner <file>   (in directory D)", "write <file> := express; touch -d 2020-01-01 <file>",
                                       "schema_scanner <file>   (again in D)", "compare D/<short>/CMakeLists.txt with a scan in an empty directory and with the files exp2cxx creates"]})
        ctx.hist("oracle", "history clause (scanner output independent of earlier output / mtimes)")
    dis = correspondence(ctx, case, res, names, model_exe, b)
    if dis:
        ctx._disagree.append((case.name, dis[0], o))
    shutil.rmtree(root, ignore_errors=True)


def run(ctx):
    quick = ctx.tier == "quick"
    ctx._disagree = []
    ctx.trusted += [
        "tools/extract.d/scanner.py (regex extraction of case lists / formats / writeLists text; raises when a pattern no longer matches)",
        "hand-written model lean/StepModel/GenFiles.lean of schemaScanner.cc, genCxxFilenames.c, class_strings.c (ClassName/TypeName/ctype of "
        "enum+select), SCOPEPrint/TYPEprint_descriptions/TYPEselect_print/TYPEPrint/ENTITYPrint/SCHEMAprint/initUnityFiles file creation "
        "(modelled, tied by correspondence)",
        "lean/StepModel/ExpressHash.lean (hash.c/dict.c iteration order; tied by byte comparison of CMakeLists.txt)",
        "harness/h_exprdump.c + vlib/gentools.py + vlib/schema_gen.py (inputs of the model; what they do not generate is not compared)",
    ]
    ctx.assumptions += [
        "domain of the theorems: resolved TYPE bodies have a kind in definedTypeKinds (libexpress rejects TYPE t = entity; generic/aggregate are formals only)",
        "multpass.c's choice of passes is not modelled: files whose declarations depend on enum/select/supertypes of another schema are "
        "compared with the observed pass suffixes",
        "identifiers are ASCII (the lexer rejects anything else); ToUpper/ToLower are the C-locale functions",
    ]
    ctx.lean("StepModel.Props.C17", exes=["m_c17"], extractors=["scanner", "exphash", "cxxpass", "cxxcollect", "cxxmarks"])
    b = ctx.build("plain")
    _BUILD[0] = b
    model_exe = ctx.model_exe("m_c17")
    if not os.path.exists(model_exe):
        return
    cases = []
    cdir = os.path.join(VERIF, "corpus", "C17")
    for p in sorted(glob.glob(os.path.join(cdir, "*.json"))):
        d = json.load(open(p))
        cases.append(Case("corpus:" + os.path.basename(p), d["express"], d.get("stem", "schema"), d.get("subdir", ""),
                          ast=[(n, ds) for n, ds in d["ast"]]))
    cases += fixed_cases()
    cases += shape_cases(ctx, quick)
    cases += select_nesting_cases(ctx, quick)
    cases += renamed_in_select_cases(ctx, 40 if quick else 400)
    cases += inverse_cases(ctx, 40 if quick else 400)
    cases += schema_order_cases(ctx, quick)
    cases += generated_cases(ctx, 40 if quick else 300)
    cases += shipped_cases(b, quick)
    t0 = time.time()
    for i, c in enumerate(cases):
        examine(ctx, b, c, model_exe, i)
    ctx.cov["correspondence"]["scanner+exp2cxx vs m_c17"] = {
        "files": len(cases), "rejected_generated": getattr(ctx, "_rej", 0), "disagreements": len(ctx._disagree), "wall_s": round(time.time() - t0, 1)}
    ctx.cov["rule"] = ("per input file: CMakeLists.txt of every schema byte-compared with the model, stdout directory lines, the set of files "
                       "exp2cxx created vs the model (pass suffixes predicted when no cross-schema dependency, observed otherwise); "
                       "fixed inputs cover every defined-type shape incl. renamed enum/select, the three known defect shapes and exp2cxx's identifier-length gate (232 refused, 200 accepted); "
                       "select nesting chains of depth 2..40 under three name orders (directly / through LIST), select cycles through aggregates; type-only schemas (each defined-type kind alone), identifiers of 60..200 characters singly/in pairs for every declaration kind; renamed enumerations/selects reached from selects (item, attribute of an entity item, aggregate, inherited) under 40/400 identifier permutations; generated: 1-3 schemas per file, REFERENCE FROM, mixed-case and case-colliding identifiers, file names/dirs exercising makeShortName")
    if cases:
        ctx.sample({"input": cases[0].name, "express_head": (cases[0].text or "")[:300]})
    gen = [c for c in cases if c.name.startswith("gen-")]
    if gen:
        ctx.sample({"input": gen[0].name, "file": os.path.join(gen[0].subdir, gen[0].stem + ".exp"), "express_head": gen[0].text[:600]})
    # model != implementation while the oracle is satisfied on that input -> broken tie (after the search above)
    for name, d, o in ctx._disagree:
        if o is None or True:
            ctx.broken.append(("correspondence GenFiles model vs schema_scanner/exp2cxx", f"[{name}] {d}" + (f" (oracle: {[k for k, _ in o]})" if o else " (oracle satisfied)")))
            break


def replay(ctx, path):
    d = json.load(open(path))
    r = d.get("replay", d)
    ctx._disagree = []
    ctx.lean("StepModel.Props.C17", exes=["m_c17"], extractors=["scanner", "exphash", "cxxpass", "cxxcollect", "cxxmarks"])
    b = ctx.build("plain")
    _BUILD[0] = b
    fn = r["file_name"]
    if r["express"].startswith("<shipped file"):
        c = Case("replay", None, exp_path=fn)
    else:
        c = Case("replay", r["express"], os.path.splitext(os.path.basename(fn))[0], os.path.dirname(fn))
        # AST from the real parser
        tmp = os.path.join(ctx.work, "replay.exp")
        open(tmp, "w").write(r["express"])
        c.ast = G.ast_from_dump(b, tmp)
    examine(ctx, b, c, ctx.model_exe("m_c17"), 0)
    for name, dd, o in ctx._disagree:
        ctx.broken.append(("correspondence GenFiles model vs schema_scanner/exp2cxx", dd))

"""C09 — Part 21 literals are read to their value and written in conforming form.

proof:           lean/StepModel/Props/C09.lean over the models IStream.lean, FloatOps.lean, P21/Lex.lean, spec P21/Grammar.lean
regenerated tie: tools/extract.d/p21lex.py -> Generated/P21LexGen.lean (behaviour switches of the scanners, buffer size,
                 precision, delimiter list, LOGICAL/BOOLEAN tables, severities, the BNF productions used by the spec)
correspondence:  harness/h_stream.cc   (std::istringstream vs IStream model, op scripts)
                 harness/h_literals.cc (real STEPattribute::STEPread/STEPwrite/asStr on corpus/C09/lit.exp vs P21.Lex model):
                 exhaustive tokens up to length L over each kind's alphabet x delimiter contexts x OPTIONAL/required,
                 corpus of long tokens, writer grids; FloatLaws (strtod / %.15G) validated against libc
oracle:          the statement itself, evaluated on the implementation's answers with the grammar verdict computed by
                 the Lean spec (`Grammar.classify`): grammar token => exact value, no error, stopped at the delimiter;
                 anything else => error, or the evidently spelled value; never silently another value / unset
"""
import itertools, json, os, struct, subprocess, sys, time
from concurrent.futures import ThreadPoolExecutor
from vlib import build as B, lean as L

HERE = os.path.dirname(os.path.abspath(__file__))
VERIF = os.path.dirname(HERE)
KINDS = ["INTEGER", "REAL", "NUMBER", "STRING", "BINARY", "BOOLEAN", "LOGICAL", "ENUM", "REF"]
ERR = {"BUG", "INPUT_ERROR", "WARNING", "INCOMPLETE"}

# alphabets of the property's quantifier, per kind (bytes)
ALPHA = {
    "INTEGER": "019+-.Ee $x",
    "REAL": "019+-.Ee x",
    "NUMBER": "019+-.Ee x",
    "STRING": "'a\\SX0 ,$",
    "BINARY": "\"03AFaG x",
    "BOOLEAN": ".TFUtx_ 1",
    "LOGICAL": ".TFUtx_ 1",
    "ENUM": ".REDred_1 ",
    "REF": "#@157+- x0",
}
CONTEXTS = [",", ")", " ,", "\t\n)", ""]           # delimiter contexts (the empty one = end of input)
COMMENT_CTX = ["/*c*/,", " /* c **/ )"]            # comment between the value and its delimiter (odd / even run of `*`)


EXTRACTORS = ["p21lex", "enums", "p21rw", "attrnull", "stepfile"]


FLT_MIN_BITS = "3810000000000000"          # (double)FLT_MIN: the in-band null, written as `$`
WR_CLASS = "wr:REAL:not-determined-by-15-digits"


def fifteen_digits_determine(bits):
    import struct as _st
    x = _st.unpack(">d", _st.pack(">Q", int(bits, 16)))[0]
    try:
        return float("%.15G" % x) == x
    except (ValueError, OverflowError):
        return False


def hx(b):
    if isinstance(b, str):
        b = b.encode("latin-1")
    return b.hex().upper() or "-"


def unhx(h):
    return b"" if h == "-" else bytes.fromhex(h)


# ------------------------------------------------------------------------------------------------ generation
def exhaustive_tokens(alpha, maxlen):
    for n in range(0, maxlen + 1):
        for t in itertools.product(alpha, repeat=n):
            yield "".join(t)


def corpus_tokens():
    with open(os.path.join(VERIF, "corpus", "C09", "tokens.json")) as fh:
        return json.load(fh)


def rd_line(kind, opt, tok, ctx):
    return f"rd {kind} {opt} 1 {hx(tok)} {hx(ctx)}"


def dbl_bits(x):
    return struct.pack(">d", x).hex().upper()


def int_grid():
    vals = set()
    for k in range(0, 64):
        for d in (-1, 0, 1):
            for s in (1, -1):
                vals.add(s * (2 ** k + d))
    for k in range(0, 19):
        for d in (-1, 0, 1):
            for s in (1, -1):
                vals.add(s * (10 ** k + d))
    return sorted(v for v in vals if -2 ** 63 <= v <= 2 ** 63 - 1)


MANTS = ["1", "1.5", "9.99999999999999", "1.00000000000001", "5", "2.5", "1.23456789012345", "9.5", "4.94065645841247"]


def real_grid(step):
    out = []
    for e in range(-300, 301, step):
        for m in MANTS:
            for s in ("", "-"):
                out.append(float(f"{s}{m}e{e}"))
    for e in (15, 16, 20, 21, 99, 100, 101, 300, -4, -5, -6, -7, -99, -100, -101):   # around the %G style switch and 2/3-digit exponents
        for m in MANTS:
            for sgn in ("", "-"):
                out.append(float(f"{sgn}{m}e{e}"))
    out += [0.0, -0.0, 1.0, 0.1, 0.5, 100.0, 123456789012345.0, 1e15, 1e14, 99999999999999.9, 0.0001, 0.00001, 1e-5, 123.456]
    return out


# ------------------------------------------------------------------------------------------------ running
def run_lines(cmd, lines, env=None):
    r = subprocess.run(cmd, input="\n".join(lines) + "\n", capture_output=True, text=True, env=env, errors="replace")
    out = r.stdout.split("\n")
    if out and out[-1] == "":
        out.pop()
    return r.returncode, out, r.stderr


def run_both(real_cmd, model_cmd, lines, env, nchunks=8):
    """returns (real_out, model_out) line lists; raises on protocol failure"""
    if not lines:
        return [], []
    size = max(1, (len(lines) + nchunks - 1) // nchunks)
    chunks = [lines[i:i + size] for i in range(0, len(lines), size)]
    with ThreadPoolExecutor(max_workers=16) as ex:
        fr = [ex.submit(run_lines, real_cmd, c, env) for c in chunks]
        fm = [ex.submit(run_lines, model_cmd, c, None) for c in chunks]
        ro, mo = [], []
        for c, a, b in zip(chunks, fr, fm):
            rc, o, err = a.result()
            o = [l for l in o if l.startswith(("R ", "W ", "F ", "A ", "S", "bad-op"))]
            if len(o) != len(c):
                raise RuntimeError(f"implementation harness answered {len(o)} lines for {len(c)} requests (rc={rc}): {err[-300:]}")
            ro += o
            rc, o, err = b.result()
            if rc != 0 or len(o) != len(c):
                raise RuntimeError(f"model driver answered {len(o)} lines for {len(c)} requests (rc={rc}): {err[-300:]}")
            mo += o
    return ro, mo


def parse_r(s):
    """'R sev=.. val=.. pos=.. eof=.. fail=.. w=.. s=..' -> dict"""
    d = {}
    for kv in s.split()[1:]:
        if "=" in kv:
            k, v = kv.split("=", 1)
            d[k] = v
    return d


def layout_len(b):
    """length of the layout prefix of b: blanks and Part 21 comments (a comment ends at the first `*/` after its
    opener; one that is never closed swallows the rest)"""
    i = 0
    while True:
        while i < len(b) and b[i:i + 1] in b" \t\n\r\v\f":
            i += 1
        if b[i:i + 2] == b"/*":
            j = b.find(b"*/", i + 2)
            if j < 0:
                return len(b)
            i = j + 2
            continue
        return i


def comment_bodies(depth):
    """a small grammar of comment shapes: empty, stars at start / middle / end, odd and even runs of `*`, `/` inside,
    nested-looking `/*`; only bodies whose closing `*/` is the first one"""
    pieces = ["", "x", " ", "*", "**", "***", "****", "/", "/*", "a*b", "a**b", "* ", " *"]
    out, seen = [], set()
    for n in range(1, depth + 1):
        for t in itertools.product(pieces, repeat=n):
            body = "".join(t)
            if body in seen or (body + "*/").find("*/") != len(body):
                continue
            seen.add(body)
            out.append(body)
    return out


# ------------------------------------------------------------------------------------------------ the oracle
def oracle(kind, opt, tok, ctx, real, verdict):
    """C09's statement on one answer of the implementation.  Returns None or a description of the failure."""
    r = parse_r(real)
    if "sev" not in r:
        return f"unparsable answer {real[:120]!r}"
    sev, val, pos = r["sev"], r["val"], int(r["pos"])
    is_err = sev in ERR
    cls, want = verdict.split()[1], verdict.split()[2]
    tokb = tok.encode("latin-1")
    ctxb = ctx.encode("latin-1")
    ws = layout_len(ctxb)          # blanks and comments between the value and its delimiter
    if len(ctxb) > ws and ctxb[ws:ws + 1] not in (b",", b")"):
        return None                # garbage follows: not a delimiter context, the statement does not apply
    has_delim = len(ctxb) > ws
    delim_at = len(tokb) + ws
    stripped = tokb.strip(b" \t\n\r\v\f")
    if stripped == b"" and not has_delim:
        return None      # an empty stream: no token and no delimiter, outside the statement
    if stripped in (b"", b"$") and (has_delim or ctxb.strip() == b""):
        # the null token / a missing value: unset; an error exactly when the attribute is required
        if val != "unset":
            return f"null token read as {val}"
        if opt and is_err:
            return f"`$`/missing value of an OPTIONAL attribute reported {sev}"
        if not opt and not is_err:
            return f"`$`/missing value of a required attribute reported no error ({sev})"
        return None
    core = stripped.decode("latin-1")
    if len(stripped) != len(tokb):
        return None      # surrounding blanks are layout: the bare token is enumerated too, with blanks in the context
    if cls != "G" and (b"," in tokb or b")" in tokb):
        return None      # a delimiter inside a non-token: the token ends there; the prefix is enumerated separately
    if cls == "G":
        if is_err or sev != "NULL":
            return f"grammar token {core!r} reported {sev}"
        if val != want:
            return f"grammar token {core!r} read as {val}, denotes {want}"
        if has_delim and pos != delim_at:
            return f"grammar token {core!r}: stream stopped at offset {pos}, delimiter is at {delim_at}"
        # writer: what was read is written back as a token of the grammar that denotes the same value (checked by wr grid)
        return None
    if cls == "L":
        if not is_err and val != want:
            return f"token {core!r} (outside the grammar, spells {want}) silently read as {val}"
    else:
        if not is_err:
            return f"token {core!r} (outside the grammar / not representable) silently read as {val} with severity {sev}"
    # the delimiter that follows is never consumed
    if has_delim and not any(c in tokb for c in b",)'\"") and pos > delim_at:
        return f"token {core!r}: delimiter at offset {delim_at} was consumed (stream at {pos})"
    return None


def reason_of(msg):
    """coarse class of a failure, used to report one minimal input per class"""
    import re
    m = re.sub(r"'[^']*'|\"[^\"]*\"", "T", msg)
    m = re.sub(r"[0-9A-Fa-f:#.+-]{2,}", "N", m)
    return m[:80]


# ------------------------------------------------------------------------------------------------ batches
class Batch:
    def __init__(self, label):
        self.label = label
        self.lines = []
        self.meta = []   # (kind, opt, tok, ctx) for rd ; ("wr", kind, value) ; ("fl", ...) ; ("st", ...)

    def rd(self, kind, opt, tok, ctx):
        self.lines.append(rd_line(kind, opt, tok, ctx))
        self.meta.append(("rd", kind, opt, tok, ctx))

    def raw(self, line, meta):
        self.lines.append(line)
        self.meta.append(meta)


def key_of(kind, opt, tok, ctx):
    """canonical form of a failing input: the kind and the bare token (layout and the delimiter context do not matter;
    OPTIONAL matters only for the null token)"""
    t = tok.strip(" \t\n\r\v\f")
    return f"{kind}:{hx(t)}" + (":optional" if opt and t.startswith("$") else "")


sq_verdicts = {}


def evaluate(ctx, batch, real_cmd, model_cmd, env, problems, reasons):
    t0 = time.time()
    if batch.label == "after-a-string":
        # the Lean verdict of every bare token, asked once from the model driver
        pairs = sorted({(mt[1], mt[4].lstrip(" \t\n\r\v\f")) for mt in batch.meta})     # leading blanks are layout
        _, vo, _ = run_lines(model_cmd, [rd_line(k, 0, tk, ",") for k, tk in pairs])
        for (k, tk), ln in zip(pairs, vo):
            if " | " in ln:
                sq_verdicts[(k, tk)] = ln.split(" | ")[1]
    ro, mo = run_both(real_cmd, model_cmd, batch.lines, env)
    nprob = 0
    for line, meta, r, m in zip(batch.lines, batch.meta, ro, mo):
        parts = m.split(" | ")
        if meta[0] == "rd":
            _, kind, opt, tok, c = meta
            ctx.count(1, key=line)
            ctx.hist("kind", kind)
            verdict = parts[1] if len(parts) > 1 else "V X -"
            ctx.hist("verdict", verdict.split()[1])
            ctx.hist("severity", parse_r(r).get("sev", "?"))
            why = oracle(kind, opt, tok, c, r, verdict)
            if why:
                rs = (kind, reason_of(why))
                vkey = key_of(kind, opt, tok, c)
                if tok.strip(" \t\n\r\v\f") == "" and "/*" in c[:layout_len(c.encode("latin-1"))]:
                    # no token at all, a comment stands where the value should be: the listed API-level finding
                    rs = ("cv", "cv")
                    vkey = "ctx:comment-in-place-of-value"
                    why = "a comment where the value should be: " + why
                if batch.label == "nul-byte":
                    rs = ("nul", "nul")
                    vkey = "ctx:nul-byte-taken-for-a-delimiter"
                    why = "NUL byte in the input: " + why
                if batch.label == "comment-in-place-of-value":
                    rs = ("cv", "cv")
                    vkey = "ctx:comment-in-place-of-value"
                    why = "a comment where the value should be: " + why
                if batch.label == "comment-context":
                    vkey = key_of(kind, opt, tok, c) + ":ctx=" + hx(c)
                    why = f"comment context {c!r}: " + why
                from vlib import findings as KF
                if KF.lookup(ctx.pid, vkey) if hasattr(ctx, "pid") else None:
                    # a listed finding: announce it (once per key), do not let it mask other inputs of the same class
                    if ("known", vkey) not in reasons:
                        reasons[("known", vkey)] = True
                        problems.append(("property", vkey, why, {"request": line}))
                    nprob += 1
                    continue
                if rs not in reasons:
                    reasons[rs] = True
                    problems.append(("property", vkey, why,
                                     {"kind": kind, "optional": opt, "token": tok, "token_hex": hx(tok), "context_hex": hx(c),
                                      "request": line, "implementation": r, "grammar_verdict": verdict,
                                      "how": "feed `request` to harness/h_literals.cc built on corpus/C09/lit.exp (./check C09 --replay FILE)"}))
                nprob += 1
                continue
            if r != parts[0]:
                problems.append(("correspondence", line, f"impl {r!r} vs model {parts[0]!r}", None))
                nprob += 1
        elif meta[0] == "wr":
            ctx.count(1, key=line)
            ctx.hist("kind", "write-" + meta[1])
            rp = r.split(" | ")
            why = None
            if len(rp) < 2 or len(parts) < 3:
                why = f"unparsable answer {r[:100]!r} / {m[:100]!r}"
            else:
                w = unhx(parse_r(rp[0]).get("w", "-")).decode("latin-1")
                rr = parse_r(rp[1])
                v = parts[2].split()
                if parse_r(rp[0]).get("w") != parse_r(parts[0]).get("w"):
                    # the implementation wrote something else than the model: ask the spec about *its* token
                    _, vo, _ = run_lines(model_cmd, [f"rd {meta[1]} 0 1 {hx(w)} 2C"])
                    v = vo[0].split(" | ")[1].split() if vo and " | " in vo[0] else ["V", "X", "-"]
                if meta[3]:   # oracle applies (value is inside the property's claim)
                    if v[1] != "G":
                        why = f"writer produced {w!r}, which is not a token of the grammar for {meta[1]}"
                    elif rr.get("sev") != "NULL" or rr.get("val") != meta[4]:
                        why = f"written token {w!r} reads back as {rr.get('val')} ({rr.get('sev')}), value written was {meta[4]}"
            if why:
                vkey = f"wr:{meta[1]}:{meta[2]}"
                rs = ("wr-" + meta[1], reason_of(why))
                if meta[1] in ("REAL", "NUMBER") and not fifteen_digits_determine(meta[2]):
                    # the 15-digit writer: a double that 15 significant digits do not determine reads back as another double
                    vkey = WR_CLASS
                    rs = ("wr-class", "15")
                    why = "WriteReal prints 15 significant digits only: " + why
                    from vlib import findings as KF
                    if KF.lookup(ctx.pid, vkey):
                        if ("known", vkey) not in reasons:
                            reasons[("known", vkey)] = True
                            problems.append(("property", vkey, why, {"request": line}))
                        nprob += 1
                        if r != " | ".join(parts[:2]):
                            problems.append(("correspondence", line, f"impl {r!r} vs model {' | '.join(parts[:2])!r}", None))
                        continue
                if rs not in reasons:
                    reasons[rs] = True
                    problems.append(("property", vkey, why,
                                     {"request": line, "implementation": r, "how": "feed `request` to harness/h_literals.cc"}))
                nprob += 1
                continue
            if r != " | ".join(parts[:2]):
                problems.append(("correspondence", line, f"impl {r!r} vs model {' | '.join(parts[:2])!r}", None))
                nprob += 1
        elif meta[0] == "ag":
            _, kind, text, expected, mutated, intspelled = meta
            ctx.count(1, key=line)
            ctx.hist("kind", "aggregate-" + kind)
            why, vkey = None, f"AGG:{kind}:{hx(text)}"
            if expected is not None and r != expected:
                why = f"aggregate {text!r} of {kind} grammar tokens: expected {expected!r}, implementation answers {r!r}"
                if intspelled and r == expected.replace("sev=NULL", "sev=WARNING"):
                    vkey = AGG_NUMBER_KEY
                    why = (f"LIST OF NUMBER {text!r}: an element spelled as an integer is read to its value but reported "
                           f"WARNING (RealNode reads NUMBER elements with ReadReal, which demands a decimal point): {r!r}")
            elif mutated and parse_r(r).get("sev") in ("NULL", "USERMSG"):
                why = f"malformed aggregate {text!r} of {kind} read without any error: {r!r}"
                # ReadPcd eats up to two characters behind a backslash that starts no directive: in `(\1.5,2)` the first element is
                # read from its tail `.5` — same class; there the answer must still have the second element right
                got = parse_r(r).get("val", "")
                if isinstance(mutated, tuple) and mutated[0] == "stray" and (got == f"[{mutated[1]}]" or (
                        text.startswith("(\\") and not text.startswith("(\\ ") and got.count(";") == 1
                        and got.endswith(";" + mutated[1].split(";")[1] + "]"))):
                    vkey = AGG_STRAY_KEY
                    why = (f"aggregate {text!r} of {kind}: a `/` that starts no comment, or a `\\` that starts no print control "
                           f"directive, in front of an element is dropped by ReadTokenSeparator and nothing is reported: {r!r}")
                if mutated == "missing" and kind in AGG_MISSING_KINDS and "unset" in parse_r(r).get("val", ""):
                    vkey = AGG_MISSING_KEY
                    why = (f"aggregate {text!r} of {kind} with an element missing: the element is stored as unset and nothing is "
                           f"reported: {r!r}")
            if why:
                from vlib import findings as KF
                if KF.lookup(ctx.pid, vkey):
                    # a listed finding: announce it (once per key), do not let it mask other inputs; the model must still agree
                    if ("known", vkey) not in reasons:
                        reasons[("known", vkey)] = True
                        problems.append(("property", vkey, why, {"request": line}))
                    nprob += 1
                    if r != parts[0]:
                        problems.append(("correspondence", line, f"impl {r!r} vs model {parts[0]!r}", None))
                    continue
                rs = ("ag-" + kind, reason_of(why))
                if rs not in reasons:
                    reasons[rs] = True
                    problems.append(("property", vkey, why,
                                     {"kind": kind, "text": text, "request": line, "implementation": r, "model": parts[0],
                                      "how": "feed `request` to harness/h_literals.cc built on corpus/C09/lit.exp (./check C09 --replay FILE)"}))
                nprob += 1
                continue
            if r != parts[0] and mutated != "sentinel":
                problems.append(("correspondence", line, f"impl {r!r} vs model {parts[0]!r}", None))
                nprob += 1
        elif meta[0] == "sq":
            _, kind, opt, first, tok, c = meta
            ctx.count(1, key=line)
            ctx.hist("kind", "after-string-" + kind)
            # the statement's oracle on the second attribute, with the Lean verdict of the bare token (asked from the model as
            # for `rd`); `# 5`-like references are lenient forms only while skipws is on
            rr = parse_r(r)
            why = None
            if r != m:
                problems.append(("correspondence", line, f"impl {r!r} vs model {m!r}", None))
                nprob += 1
                continue
            verdict = sq_verdicts.get((kind, tok.lstrip(" \t\n\r\v\f")))
            if verdict is not None and c:
                v = verdict.split()
                stripped = tok.strip(" \t\n\r\v\f")
                if v[1] == "G" and rr.get("first") == "NULL":
                    if rr.get("sev") != "NULL" or rr.get("val") != v[2]:
                        why = f"after a STRING attribute: grammar token {tok!r} of {kind} read as {rr.get('val')} ({rr.get('sev')})"
                elif ("," in tok or ")" in tok):
                    pass     # a delimiter inside a non-token: the token ends there (as for `rd`, token_verdict); the prefix is enumerated separately
                elif v[1] == "X" and not stripped.startswith("$") and stripped and rr.get("sev") in ("NULL", "USERMSG"):
                    why = f"after a STRING attribute: token {tok!r} of {kind} (outside the grammar) read without error as {rr.get('val')}"
            if why:
                rs = ("sq-" + kind, reason_of(why))
                if rs not in reasons:
                    reasons[rs] = True
                    problems.append(("property", f"SQ:{kind}:{hx(tok)}", why,
                                     {"request": line, "implementation": r, "how": "feed `request` to harness/h_literals.cc"}))
                nprob += 1
        elif meta[0] == "rdc":
            ctx.count(1, key=line)
            ctx.hist("kind", "sep-" + meta[1])
            if r != parts[0]:
                problems.append(("correspondence", line, f"impl {r!r} vs model {parts[0]!r}", None))
                nprob += 1
        else:   # fl / st : pure model-vs-platform comparisons (FloatLaws L1-L3, IStream)
            ctx.count(1, key=line)
            ctx.hist("kind", meta[0])
            if len(meta) > 2 and meta[1] == "g17":
                # law L1' on the platform: the 17-digit print converts back to the same double
                import struct as _st
                txt = unhx(r.split()[1]).decode("latin-1") if len(r.split()) > 1 else ""
                try:
                    back = "%016X" % _st.unpack(">Q", _st.pack(">d", float(txt)))[0]
                except ValueError:
                    back = "?"
                if back != meta[2] and not (int(meta[2], 16) << 1 == 0 and int(back, 16) << 1 & (2 ** 64 - 1) == 0):
                    problems.append(("correspondence", line, f"FloatLaws L1': %.17G printed {txt!r}, which converts back to {back}, not {meta[2]}", None))
                    nprob += 1
            if len(meta) > 1 and meta[1] in ("g15", "g16", "g17"):
                # law L2 (G15Shape in Props/C09.lean) on the platform's own output
                import re as _re
                txt = unhx(r.split()[1]).decode("latin-1") if len(r.split()) > 1 else ""
                if not _re.fullmatch(r"-?[0-9]+(\.[0-9]+)?(E[+-][0-9]+)?", txt):
                    problems.append(("correspondence", line, f"FloatLaws L2: %.15G printed {txt!r}, not of the shape G15Shape", None))
                    nprob += 1
            if r != m:
                problems.append(("correspondence", line, f"platform {r!r} vs model {m!r}", None))
                nprob += 1
    ctx.cov["correspondence"][batch.label] = {"inputs": len(batch.lines), "problems": nprob, "wall_s": round(time.time() - t0, 1)}


def literal_batches(ctx, quick):
    rng = ctx.rng
    corp = corpus_tokens()
    out = []
    b = Batch("corpus")
    for kind in KINDS:
        for tok in corp.get(kind, []) + corp.get("ALL", []):
            for c in CONTEXTS[:3] + COMMENT_CTX:
                for opt in (0, 1):
                    b.rd(kind, opt, tok, c)
    out.append(b)
    L1, L2 = (3, 4) if quick else (4, 7)
    for kind in KINDS:
        al = ALPHA[kind]
        b = Batch(f"exhaustive-{kind}-len<={L1}-all-contexts")
        for tok in exhaustive_tokens(al, L1):
            for c in CONTEXTS:
                for opt in (0, 1):
                    b.rd(kind, opt, tok, c)
            for c in COMMENT_CTX:
                b.rd(kind, 0, tok, c)
        out.append(b)
        # longer tokens: one context, required attribute; the alphabet is pruned to the characters that can occur in
        # a token the reader does not reject at its first character
        core = {"INTEGER": "019+-.E", "REAL": "019+-.Ee", "NUMBER": "019+-.Ee", "STRING": "'a\\S,", "BINARY": "\"03AFaG",
                "BOOLEAN": ".TFUt_", "LOGICAL": ".TFUt_", "ENUM": ".REDd_1", "REF": "#157+- 0"}[kind]
        b = Batch(f"exhaustive-{kind}-len{L1 + 1}..{L2}-pruned")
        for n in range(L1 + 1, L2 + 1):
            for t in itertools.product(core, repeat=n):
                b.rd(kind, 0, "".join(t), ",")
        out.append(b)
    # comment between value and delimiter (DESIGN §6 #19): every kind x comment shapes x both delimiters x blanks around
    b = Batch("comment-context")
    bodies = comment_bodies(2 if quick else 3)
    for kind in KINDS:
        toks = corp.get(kind + "_valid", [])[:2 if quick else 4]
        for tok in toks:
            for body in bodies:
                for d in (",", ")"):
                    for pre, post in (("", ""), (" ", " ")) if quick else (("", ""), (" ", ""), ("", "\n"), (" ", " ")):
                        b.rd(kind, 0, tok, f"{pre}/*{body}*/{post}{d}'next')")
            # two comments in a row, an unterminated one
            for c in ("/*a*//**/,", "/* a **/ /* b */)", "/* never closed , )"):
                b.rd(kind, 0, tok, c)
    out.insert(0, b)       # short valid tokens first: a failure here is reported with the smallest replay
    # what follows the value, exhaustively over blanks / comment characters / garbage / delimiters: model vs implementation
    # only (most of these are not delimiter contexts, so the statement's oracle does not apply)
    b = Batch("separator-exhaustive")
    for kind, tok in (("INTEGER", "12"), ("STRING", "'a'"), ("ENUM", ".RED."), ("REF", "#5"), ("REAL", "1.5")):
        for n in range(0, 6 if quick else 8):
            for t in itertools.product(" /*x,", repeat=n):
                b.lines.append(rd_line(kind, 0, tok, "".join(t)))
                b.meta.append(("rdc", kind))
        # the recovery loop of CheckRemainingInput ends with the record (fixes/C05-15 as corrected by C05-19): at the first `;`,
        # quoted or not - the quote stays in the alphabet so that a return of the in-string parity is noticed
        for n in range(1, 5 if quick else 7):
            for t in itertools.product("x;',", repeat=n):
                if ";" not in t:
                    continue
                b.lines.append(rd_line(kind, 0, tok, "".join(t)))
                b.meta.append(("rdc", kind))
    out.append(b)
    # a comment where the value should be (STEPattribute::STEPread called directly; the file reader strips leading comments)
    b = Batch("comment-in-place-of-value")
    for kind in KINDS:
        for tok in ["/**/", "/* c */"]:
            for opt in (0, 1):
                b.rd(kind, opt, tok, ",")
    out.append(b)
    # entity references: ids around and beyond the range of `int` and of 64 bits, values that wrap (mod 2^32, mod 2^64) onto
    # registered instances, leading zeros, digit strings of every length 1..20
    b = Batch("reference-ids")
    regs = [1, 5, 12, 123, 2147483647, 7]
    ids = {2 ** 31 - 1, 2 ** 31, 2 ** 31 + 1, 2 ** 32 - 1, 2 ** 32, 2 ** 63 - 1, 2 ** 63, 2 ** 64 - 1, 2 ** 64, 10 ** 19, 10 ** 20 - 1}
    for k in regs:
        for base in (2 ** 32, 2 ** 33, 3 * 2 ** 32, 2 ** 40, 2 ** 63, 2 ** 64, 2 ** 64 + 2 ** 32, 10 * 2 ** 32):
            ids.add(base + k)
        ids.add(2 ** 32 - k)
        ids.add(k)
    toks = {f"#{i}" for i in ids}
    for k in regs:
        for z in (1, 2, 9, 10, 19, 20, 30):
            toks.add("#" + "0" * z + str(k))
    for n in range(1, 21):
        for dch in "129":
            toks.add("#" + dch * n)
        toks.add("#1" + "0" * (n - 1))
    for tok in sorted(toks, key=lambda x: (len(x), x)):
        for c in (",", " )"):
            for opt in (0, 1):
                b.rd("REF", opt, tok, c)
        b.rd("REF", 0, "@" + tok[1:], ",")
    out.append(b)
    # a NUL byte: strchr(",)", 0) != NULL makes CheckRemainingInput take it for a delimiter
    b = Batch("nul-byte")
    for kind in KINDS:
        for tok in ["\x00", "1\x00", "\x00x"] + [t + "\x00" for t in corp.get(kind + "_valid", [])[:2]]:
            b.rd(kind, 0, tok, ",")
    out.append(b)
    # random longer tokens
    b = Batch("random-long")
    n = 3000 if quick else 60000
    for _ in range(n):
        kind = rng.choice(KINDS)
        ln = rng.randrange(5, 24)
        tok = "".join(rng.choice(ALPHA[kind]) for _ in range(ln))
        if kind in ("REAL", "NUMBER") and rng.random() < 0.5:
            tok = f"{rng.choice(['', '-', '+'])}{rng.randrange(0, 10 ** rng.randrange(1, 18))}.{rng.randrange(0, 10 ** rng.randrange(0, 18))}E{rng.randrange(-330, 330)}"
        if kind == "INTEGER" and rng.random() < 0.5:
            tok = f"{rng.choice(['', '-', '+'])}{rng.randrange(0, 10 ** rng.randrange(1, 22))}"
        b.rd(kind, rng.randrange(2), tok, rng.choice(CONTEXTS))
    out.append(b)
    # writer grids
    b = Batch("writer-integers")
    for v in int_grid():
        claimed = v != 2 ** 63 - 1      # LONG_MAX is the in-band null: written as `$` (known limitation, see notes)
        b.raw(f"wr INTEGER {v}", ("wr", "INTEGER", str(v), claimed, f"i:{v}"))
    out.append(b)
    b = Batch("writer-reals")
    for x in real_grid(7 if quick else 1):
        bits = dbl_bits(x)
        for kind in ("REAL", "NUMBER"):
            b.raw(f"wr {kind} {bits}", ("wr", kind, bits, True, f"r:{bits}"))
    # powers of two, random doubles, the values 15 digits do not determine: the property says "reads back to the same value"
    # for these too (class key WR_CLASS while WriteReal prints 15 digits only)
    special = [0.1 + 0.2, 1.0 / 3, 2.0 / 3, 1.7976931348623157e308, 2.2250738585072014e-308, 5e-324, 123456789012345.67, 0.1]
    for x in special + [-x for x in special]:
        for kind in ("REAL", "NUMBER"):
            b.raw(f"wr {kind} {dbl_bits(x)}", ("wr", kind, dbl_bits(x), True, f"r:{dbl_bits(x)}"))
    for k in range(-1070, 1024, 37 if quick else 3):
        b.raw(f"wr REAL {dbl_bits(2.0 ** k)}", ("wr", "REAL", dbl_bits(2.0 ** k), dbl_bits(2.0 ** k) != FLT_MIN_BITS, f"r:{dbl_bits(2.0 ** k)}"))
    for _ in range(300 if quick else 20000):
        bits = "%016X" % rng.getrandbits(64)
        if (int(bits, 16) >> 52) & 0x7FF == 0x7FF:
            continue
        b.raw(f"wr REAL {bits}", ("wr", "REAL", bits, True, f"r:{bits}"))
    out.append(b)
    b = Batch("writer-other")
    for nm in ("T", "F"):
        b.raw(f"wr BOOLEAN {nm}", ("wr", "BOOLEAN", nm, True, f"e:{nm}"))
    for nm in ("T", "F", "U"):
        b.raw(f"wr LOGICAL {nm}", ("wr", "LOGICAL", nm, True, f"e:{nm}"))
    for nm in ("RED", "GREEN", "BLUE_1"):
        b.raw(f"wr ENUM {nm}", ("wr", "ENUM", nm, True, f"e:{nm}"))
    for i in (1, 5, 12, 123):
        b.raw(f"wr REF {i}", ("wr", "REF", str(i), True, f"#{i}"))
    for t in corp.get("STRING_valid", []):
        b.raw(f"wr STRING {hx(t)}", ("wr", "STRING", hx(t), True, f"s:{hx(t)}"))
    for t in ["0", "1AB", "3FFFF", "0123456789ABCDEF", "2"]:
        b.raw(f"wr BINARY {hx(t)}", ("wr", "BINARY", hx(t), True, f"b:{hx(t)}"))
    out.append(b)
    # FloatLaws: %.15G and strtod of the platform against the executable FloatOps instance
    b = Batch("floatlaws-g15")
    for x in real_grid(3 if quick else 1):
        b.raw(f"fl g15 {dbl_bits(x)}", ("fl", "g15"))
    # the other two precisions of the repaired WriteReal, and law L1' (17 significant digits determine every double)
    for k in range(-1074, 1024, 23 if quick else 2):
        for p in (16, 17):
            b.raw(f"fl g{p} {dbl_bits(2.0 ** k)}", ("fl", f"g{p}", dbl_bits(2.0 ** k)))
    for _ in range(1500 if quick else 60000):
        bits = "%016X" % rng.getrandbits(64)
        if (int(bits, 16) >> 52) & 0x7FF == 0x7FF:
            continue
        for p in (16, 17):
            b.raw(f"fl g{p} {bits}", ("fl", f"g{p}", bits))
    for k in range(-1074, 1024, 11 if quick else 1):
        b.raw(f"fl g15 {dbl_bits(2.0 ** k)}", ("fl", "g15"))
    for _ in range(2000 if quick else 100000):
        bits = "%016X" % rng.getrandbits(64)
        if (int(bits, 16) >> 52) & 0x7FF == 0x7FF:
            continue
        b.raw(f"fl g15 {bits}", ("fl", "g15"))
    out.append(b)
    b = Batch("floatlaws-strtod")
    for t in corp.get("FLOAT_TEXT", []):
        b.raw(f"fl parse {hx(t)}", ("fl",))
    for _ in range(3000 if quick else 100000):
        nd = rng.randrange(1, 19)
        m = str(rng.randrange(0, 10 ** nd))
        p = rng.randrange(0, len(m) + 1)
        t = rng.choice(["", "-", "+"]) + m[:p] + rng.choice([".", "", "."]) + m[p:]
        if rng.random() < 0.8:
            t += rng.choice("eE") + rng.choice(["", "-", "+"]) + str(rng.randrange(0, 340))
        if rng.random() < 0.1:
            t += rng.choice(["x", ".", "e", "-", " 1"])
        b.raw(f"fl parse {hx(t)}", ("fl",))
    out.append(b)
    return out


# ---- aggregates of simple kinds: STEPattribute::STEPread of a required LIST OF <kind> attribute
AGG_POOL = {
    "INTEGER": [("0", "i:0"), ("-12", "i:-12"), ("+7", "i:7"), ("007", "i:7"), ("9223372036854775806", "i:9223372036854775806")],
    "REAL": [("1.5", None), ("-2.E1", None), ("0.0", None), ("+1.25E-3", None)],
    "NUMBER": [("1.5", None), ("-2.E1", None), ("3", None), ("-40", None)],
    "STRING": [("'a'", None), ("''", None), ("'b''c'", None), ("'x\\S\\''", None), ("', )'", None)],
    "BINARY": [('"0A"', "b:" + "3041"), ('"1"', "b:31"), ('"3FF"', "b:334646")],
    "BOOLEAN": [(".T.", "e:T"), (".F.", "e:F")],
    "LOGICAL": [(".T.", "e:T"), (".F.", "e:F"), (".U.", "e:U")],
    "ENUM": [(".RED.", "e:RED"), (".GREEN.", "e:GREEN"), (".BLUE_1.", "e:BLUE_1")],
    "REF": [("#1", "#1"), ("#5", "#5"), ("#12", "#12"), ("#123", "#123"), ("#2147483647", "#2147483647")],
}
AGG_LAYOUT = ["", " ", "/*c*/", " /* , ) */ ", "\n", "/**//***/"]
# the two input classes of the aggregate findings (KNOWN_FINDINGS.txt; the element loop belongs to property C01): the key is
# decided from the input and the answer's shape only — anything else that goes wrong on an aggregate keeps its own key
AGG_NUMBER_KEY = "agg:number-element-spelled-as-integer"    # all-grammar LIST OF NUMBER with an integer-spelled element: right values, WARNING
AGG_MISSING_KEY = "agg:missing-element-read-as-unset"       # an element position left empty, kinds below: unset element, no error
AGG_STRAY_KEY = "agg:stray-slash-or-backslash-dropped"      # `/` not followed by `*` / incomplete `\\N\\` in front of an element: dropped, no error
AGG_MISSING_KINDS = ("STRING", "BOOLEAN", "LOGICAL", "ENUM", "REF")


def agg_expected(kind, tok, val):
    if val is not None:
        return val
    if kind in ("REAL", "NUMBER"):
        return "r:" + dbl_bits(float(tok.replace("E", "e")))
    return "s:" + hx(tok)


def aggregate_batch(ctx, quick):
    """`( e1 , ... , en )` of grammar tokens of every simple kind with every layout around the elements (oracle: severity NULL,
    the list of the tokens' values, stream at the delimiter behind the `)`), the empty aggregate, and malformed variants
    (oracle: an error is flagged); model = attrSTEPread/aggrRead of P21/Reader.lean, the model of the C09_aggr_* theorems"""
    rng = ctx.rng
    b = Batch("aggregates")

    def add(kind, text, expected, mutated, intspelled=False):
        b.raw(f"ag {kind} {hx(text)}", ("ag", kind, text, expected, mutated, intspelled))

    for kind in KINDS:
        pool = AGG_POOL[kind]
        for lay in AGG_LAYOUT:
            for d in (",", ")"):
                txt = "(" + lay + ")" + d
                add(kind, txt, f"A sev=NULL val=[] pos={len(txt) - 1} eof=0 fail=0", False)
        lists = [[t] for t in pool] + [[x, y] for x in pool for y in pool]
        if not quick:
            lists += [[x, y, z] for x in pool for y in pool for z in pool]
        for _ in range(40 if quick else 400):
            lists.append([rng.choice(pool) for _ in range(rng.randrange(3, 9))])
        for els in lists:
            for rep in range(2 if quick else 4):
                lays = [(rng.choice(AGG_LAYOUT), rng.choice(AGG_LAYOUT)) for _ in els] if rep else [("", "")] * len(els)
                body = ",".join(pre + t + post for (t, _), (pre, post) in zip(els, lays))
                tail = rng.choice(AGG_LAYOUT) if rep else ""
                d = rng.choice(",)")
                txt = "(" + body + ")" + tail + d + "'next'"
                vals = ";".join(agg_expected(kind, t, v) for t, v in els)
                pos = len("(" + body + ")" + tail)
                ints = kind == "NUMBER" and any("." not in t for t, _ in els)
                add(kind, txt, f"A sev=NULL val=[{vals}] pos={pos} eof=0 fail=0", False, ints)
        # malformed: an error must be flagged (what is stored is compared with the model only)
        t1, t2 = pool[0][0], pool[-1][0]
        for txt in [f"({t1} {t2}),", f"({t1},{t2}", f"({t1},{t2} ", f"(({t1}),{t2}),",
                    f"({t1},x),", f"({t1};{t2}),", f"({t1},$),", f"{t1},{t2}),", f"[{t1}],", f"({t1}/*never closed ,{t2}),",
                    f"({t1}\x00,{t2}),", f"({t1} / ,{t2}),", f"({t1},{t2} / ),", f"({t1} \\ ,{t2}),"]:
            add(kind, txt, None, True)
        # a `/` that starts no comment, or a `\` that starts no complete print control directive, in front of an element: not a
        # token separator - ReadTokenSeparator must not drop it (class AGG_STRAY_KEY when it does and the rest reads cleanly)
        for txt in [f"({t1}, / {t2}),", f"({t1},/{t2}),", f"(/ {t1},{t2}),", f"({t1},//{t2}),", f"({t1}, \\ {t2}),",
                    f"({t1}, \\N {t2}),", f"({t1}, \\x\\ {t2}),", f"(\\ {t1},{t2}),", f"(\\{t1},{t2}),"]:
            # class decided from the input (a `/` not followed by `*`, a `\` not starting a complete directive, in separator
            # position in front of an element) AND the answer (exactly the two elements' values, no error); anything else that
            # is accepted silently keeps its own key
            clean = ";".join(agg_expected(kind, t, v) for t, v in (pool[0], pool[-1]))
            add(kind, txt, None, ("stray", clean))
        # an element that is not there at all
        for txt in [f"({t1},,{t2}),", f"({t1},),", f"(,{t1}),", f"(/*c*/,{t1}),", f"({t1}, /*c*/ ,{t2}),", f"({t1},{t2}, ),"]:
            add(kind, txt, None, "missing")
        # an element that is the library's in-band null (S_INT_NULL / S_REAL_NULL): since fixes/C09-9 ReadInteger / ReadReal /
        # ReadNumber report it, also inside an aggregate.  Oracle only: the element path of the reader model (C01's
        # scalarNodeRead) still calls readInteger / readReal without the sentinel wrappers readIntegerS / readRealS, so the model
        # is not compared on these lines (it answers NULL; the switch is coordinated with C01, notes/C09.md "still open")
        sent = {"INTEGER": "9223372036854775807", "REAL": "1.1754943508222875E-38", "NUMBER": "1.1754943508222875E-38"}.get(kind)
        if sent:
            for txt in [f"({sent}),", f"({t1},{sent}),", f"({sent} , {t2}),", f"( /*c*/ {sent} ),"]:
                add(kind, txt, None, "sentinel")
        for txt in ["$,", " ,", ")", ""]:
            add(kind, txt, None, None)     # missing / null aggregate for a required attribute: INCOMPLETE; model vs implementation
    return b


def sequence_batch(ctx, quick):
    """a STRING attribute, the `,`, then an attribute of every kind read from ONE stream: the second read starts in the middle
    of the stream with `skipws` switched off (what SDAI_String::STEPread leaves behind) — the regime of the
    C09_never_silent_*_anywhere / C09_accept_*_anywhere theorems.  Oracle: as for `rd` (the token's verdict), except that
    with skipws off blanks between `#` and the id of a reference are no longer accepted."""
    corp = corpus_tokens()
    b = Batch("after-a-string")
    firsts = ["'a'", "''", "'it''s'", "' , ) '"]
    for kind in KINDS:
        toks = corp.get(kind + "_valid", [])[:3 if quick else 8] + corp.get(kind, [])[:6 if quick else 40]
        extra = {"REF": ["# 5", "#\t12", "#5", "@5", "#"], "INTEGER": [" 12", "+7", "-", "9223372036854775807"],
                 "REAL": ["1.", ".5", "1.5E+3", "1e5", " 2.5"], "NUMBER": ["12", "1e5", ".5"], "STRING": ["'b'", "'"],
                 "BINARY": ['"0A"', '""'], "BOOLEAN": [".T.", ".t.", "T"], "LOGICAL": [".U.", ".UNSET."], "ENUM": [".RED.", ".red.", ".R."]}
        for tok in list(dict.fromkeys(toks + extra.get(kind, []))):
            for f in firsts[:2 if quick else 4]:
                for c in (",", " )", " /*c*/ ,", ""):
                    for opt in (0, 1):
                        b.raw(f"sq {kind} {opt} {hx(f)} {hx(tok + c) if tok + c else '-'}", ("sq", kind, opt, f, tok, c))
    return b


def stream_batch(ctx, quick):
    rng = ctx.rng
    b = Batch("istream-scripts")
    bufs = ["", " ", "1", "-", "+", " 12,", "12", "-5x", "99999999999999999999", "9223372036854775808", "-9223372036854775808",
            "-9223372036854775809", "2147483648", "-2147483649", "1.5e3,", "1e", "1e+", ".", ".5", "0x1", "007", "1E999", "-1E999",
            "1e-999", " \t\n", "a b", "'a'", "00.50e-1x", "+.e1", "1.2.3", "1e5e5", "0e", "--1"]
    ops = "wpgcilndksSbB"
    for buf in bufs:
        for n in (1, 2) if quick else (1, 2, 3):
            for sc in itertools.product(ops, repeat=n):
                b.raw(f"st {hx(buf)} {''.join(sc)}", ("st",))
    for _ in range(4000 if quick else 150000):
        buf = "".join(rng.choice(" 01.9eE+-x,\t") for _ in range(rng.randrange(0, 8)))
        b.raw(f"st {hx(buf)} {''.join(rng.choice(ops) for _ in range(rng.randrange(1, 10)))}", ("st",))
    return b


# ------------------------------------------------------------------------------------------------ entry points
def build_all(ctx, flavor):
    b = ctx.build(flavor)
    exe = os.path.join(ctx.work, "h_literals")
    B.gen_schema_lib(b, os.path.join(VERIF, "corpus", "C09", "lit.exp"), os.path.join(ctx.work, "gen"),
                     [os.path.join(VERIF, "harness", "h_literals.cc")], exe)
    sx = os.path.join(ctx.work, "h_stream")
    r = subprocess.run(["g++", "-O1", "-std=c++11", os.path.join(VERIF, "harness", "h_stream.cc"), "-o", sx],
                       capture_output=True, text=True)
    if r.returncode != 0:
        raise B.BuildError("h_stream compile failed: " + r.stderr[-2000:])
    return b, exe, sx


def setup(ctx):
    ctx.trusted += [
        "tools/extract.d/p21lex.py (regex recognition of the scanners' code shapes and constants)",
        "hand-written models lean/StepModel/IStream.lean (libstdc++ istream subset), FloatOps.lean (strtod/%.15G in exact arithmetic), "
        "P21/Lex.lean (read_func.cc, Str.cc, sdaiString/Binary/Enum.cc, ReadEntityRef, STEPattribute::STEPread/STEPwrite/asStr) — modelled, tied by correspondence",
        "lean/StepModel/P21/Grammar.lean (transcription of doc/iso-10303-21--2002.bnf; productions re-read by the extractor)",
        "harness/h_literals.cc, harness/h_stream.cc and the generators in checks/c09.py (what they do not generate is not compared)",
    ]
    ctx.assumptions += [
        "FloatLaws (hypotheses of the REAL/NUMBER theorems, validated against libc each run): strtod converts exactly the texts "
        "parseFloatText accepts, correctly rounded, HUGE_VAL on overflow; %.15G output has the shape G15Shape; 15-digit decimals survive print+read",
        "real denotation = nearest double (round-half-even); underflow to 0/subnormal counts as rounding, overflow as unrepresentable",
        "only the severity of an ErrorDescriptor is compared, never message text; strict mode (lenient filling is C15)",
        "IStream fidelity to libstdc++ 12 in the C locale for the operations listed in IStream.lean (h_stream correspondence)",
        "entity references: instance manager abstracted to a look-up (found / wrong type / missing); addFileId = 0",
    ]
    # the driver does not depend on the theorems: build it first so that the violation search runs even when a proof breaks
    # p21rw / attrnull / stepfile: the aggregate theorems and the `ag` driver command run on the reader model of P21/Reader.lean
    # (property C01), whose generated tables must come from the tree being checked as well
    # ... but only in a private copy of the Lean project (VERIF_REPO = another tree): in /verif/lean itself those files belong
    # to the C01/C15 owners, whose extractors may be in the middle of an edit
    ex = EXTRACTORS if os.path.realpath(B.REPO) != "/repo" else EXTRACTORS[:2]
    files, errs = L.regenerate(ex, repo=B.REPO)
    okd, outd = L.lake_build(["m_c09"])
    proof_ok = ctx.lean("StepModel.Props.C09", exes=["m_c09"], extractors=ex)
    if not okd:
        raise RuntimeError("model driver m_c09 does not build: " + outd[-1500:])
    return proof_ok


def report(ctx, problems):
    seen_prop = False
    for kind, key, why, rep in problems:
        if kind == "property":
            seen_prop = True
            if len(ctx.violations) < 12:
                ctx.violation(key, why, rep)
    if not seen_prop:
        for kind, key, why, rep in problems:
            if kind == "correspondence":
                ctx.broken.append(("correspondence P21.Lex / IStream / FloatOps model vs implementation",
                                   f"request `{key}`: {why} (the property oracle is satisfied on this input)"))
                break


def run(ctx):
    quick = ctx.tier == "quick"
    proof_ok = setup(ctx)
    b, exe, sx = build_all(ctx, "plain")
    model = [ctx.model_exe("m_c09")]
    problems, reasons = [], {}
    sb = stream_batch(ctx, quick)
    evaluate(ctx, sb, [sx], model, None, problems, reasons)
    for batch in literal_batches(ctx, quick) + [aggregate_batch(ctx, quick), sequence_batch(ctx, quick)]:
        evaluate(ctx, batch, [exe], model, b.env(), problems, reasons)
    if ctx.tier == "thorough":
        # the same corpus + short exhaustive stream once more under ASan/UBSan (memory behaviour is observed, not modelled)
        ba, exea, _ = build_all_asan(ctx)
        for batch in literal_batches(ctx, True)[:3]:
            batch.label = "asan-" + batch.label
            evaluate(ctx, batch, [exea], model, ba.env(), problems, reasons)
    report(ctx, problems)
    ctx.sample({"request": "rd INTEGER 0 1 " + hx("-12") + " " + hx(" ,"), "meaning": "token -12, context ' ,', required attribute"})
    ctx.sample({"request": "wr REAL " + dbl_bits(1.5e300)})
    ctx.cov["rule"] = ("per kind: every string over the kind's alphabet up to length L1 in every delimiter context "
                       "(',' ')' ' ,' '\\t\\n)' end-of-input) for OPTIONAL and required attributes; up to length L2 over the pruned alphabet; "
                       "corpus of long tokens (overflow boundaries, sentinels, escapes); random long tokens; writer grids "
                       "(integers 2^k±1, 10^k±1; reals 9 boundary mantissas x exponents -300..300); distinct = distinct request line")
    ctx.cov["alphabets"] = ALPHA


def build_all_asan(ctx):
    b = ctx.build("asan")
    exe = os.path.join(ctx.work, "h_literals_asan")
    B.gen_schema_lib(b, os.path.join(VERIF, "corpus", "C09", "lit.exp"), os.path.join(ctx.work, "gen_asan"),
                     [os.path.join(VERIF, "harness", "h_literals.cc")], exe)
    return b, exe, None


def replay(ctx, path):
    d = json.load(open(path))
    r = d.get("replay", d)
    setup(ctx)
    b, exe, sx = build_all(ctx, "plain")
    model = [ctx.model_exe("m_c09")]
    bt = Batch("replay")
    line = r["request"]
    w = line.split()
    if w[0] == "rd":
        bt.raw(line, ("rd", w[1], int(w[2]), unhx(w[4]).decode("latin-1"), unhx(w[5]).decode("latin-1")))
    elif w[0] == "wr":
        val = {"INTEGER": "i:" + w[2], "REAL": "r:" + w[2], "NUMBER": "r:" + w[2], "STRING": "s:" + w[2], "BINARY": "b:" + w[2],
               "REF": "#" + w[2]}.get(w[1], "e:" + w[2])
        bt.raw(line, ("wr", w[1], w[2], True, val))
    elif w[0] == "sq":
        bt.raw(line, ("sq", w[1], int(w[2]), unhx(w[3]).decode("latin-1"), unhx(w[4]).decode("latin-1") if w[4] != "-" else "", ""))
    elif w[0] == "ag":
        bt.raw(line, ("ag", w[1], unhx(w[2]).decode("latin-1"), None, True, False))
    else:
        bt.raw(line, (w[0],))
    problems, reasons = [], {}
    evaluate(ctx, bt, [sx] if w[0] == "st" else [exe], model, b.env(), problems, reasons)
    report(ctx, problems)

"""C04 — all EXPRESS tools give the same, correct verdict on a schema.

proof:           lean/StepModel/Props/C04.lean (exit status <-> ERROR printed over the regenerated gates/severities, tools agree,
                 no artefact on error, cycle searches sound and complete, fault classes produce an ERROR)
regenerated tie: tools/extract.d/liberrors.py (severities, gates, statuses), tools/extract.d/resolvegen.py (cycle-search shape)
correspondence:  check-express, exppp, exp2cxx, exp2python (scratch build) vs Lean driver m_c04 on generated valid schemas,
                 their single-fault mutants and random sub/super / select digraphs: exit status, sorted diagnostics, artefacts
oracle:          the by-construction label of the input (valid / which fault) against each tool's verdict:
                 valid => exit 0 and no ERROR; faulty => exit != 0, >= 1 ERROR, no artefact; exit != 0 <=> ERROR printed; tools agree
"""
import json, os, time
from vlib import build as B, lean as L, express_front as X, schema_gen_express as G

HERE = os.path.dirname(os.path.abspath(__file__))
VERIF = os.path.dirname(HERE)
EXTRACTORS = ["liberrors", "resolvegen", "reportsites"]
KNOWN_PY = "exp2python-abort-on-attribute"
KNOWN_PY_FUNC = "exp2python-abort-on-function-parameter"
KNOWN_PY_IFACE = "exp2python-abort-on-partial-interface-clause"


def observed(r, table):
    d, other = X.parse_stderr(r["err"], table)
    return {"status": X.status_of(r["rc"]), "diags": d, "other": other, "files": r["files"], "cmd": r["cmd"],
            "stderr_tail": r["err"][-300:].decode("latin-1")}


def has_attr(case):
    return any(l.startswith(("attr ", "inv ")) for l in case.proto)


KNOWN_TYPE_WHERE = "type-where-resolved-in-importing-scope"
KNOWN_UNIQUE_STALE = "unique-stale-unqualified-lookup-crash"


def oracle(case, tool, ob):
    """C04's statement for one tool run.  -> (key, what) | None"""
    st = ob["status"]
    errs = [d for d in ob["diags"] if d[4]]
    rest, n_ws = X.split_wrong_scope(case, ob["diags"])
    if n_ws and case.verdict == "accept" and not [d for d in rest if d[4]] and st == "1":
        d0 = next(d for d in ob["diags"] if d[0] == "UNDEFINED_FUNC")
        return (KNOWN_TYPE_WHERE, f"{tool} rejects a well-formed multi-schema file: {d0[1]}:{d0[2]}: {d0[3]!r} — the function is declared in the "
                                  "type's own schema; the WHERE rule of the imported type was resolved in the importing schema's scope")
    crashed = st in ("abort", "timeout") or st.startswith("signal")
    if crashed and case.cls == "needless-qualifier-then-unique":
        return (KNOWN_UNIQUE_STALE, f"{tool} ends with {st} on a valid schema: a UNIQUE rule `SELF\\sup.a` on an attribute the entity redeclares, followed "
                                    f"by a rule that names another attribute without a qualifier ({case.note}); ENTITYresolve_uniques keeps the "
                                    "unqualified look-up of the first reference and reports UNIQUE_QUAL_REDECL through expr->e.op2 of an identifier")
    if tool == "exp2python" and crashed and case.verdict == "accept" and not errs:
        if any(l.startswith("iface ") and l.endswith(" items") for l in case.proto):
            return (KNOWN_PY_IFACE, f"exp2python ends with {st} (not on every run) on a valid multi-schema file with a partial USE/REFERENCE clause: "
                                    "print_file() hands an uninitialised File_holder to addUseRefNames(), which writes to files->create")
        if has_attr(case):
            return (KNOWN_PY, f"exp2python ends with {st} on a valid schema that has an entity attribute (no ERROR printed)")
        if any(l.startswith("func ") or l.startswith("alg function ") for l in case.proto):
            return (KNOWN_PY_FUNC, f"exp2python ends with {st} on a valid schema that has a FUNCTION with a parameter and no entity attribute (no ERROR printed)")
    if case.cls == "undefined-schema" and crashed:
        return (f"{tool}:undefined-schema:crash", f"{tool} ends with {st} on a file whose only fault is an interface clause naming an undefined schema "
                                                  f"(wanted: exit 1 with the UNDEFINED_SCHEMA error); printed {[d[3] for d in errs][:2]}")
    if st == "timeout":
        return (f"{tool}:{case.cls}:timeout", f"{tool} does not terminate on a {case.cls} input")
    nonzero = st != "0"
    if nonzero != bool(errs):
        return (f"{tool}:{case.cls}:exit-vs-error", f"{tool} exit status {st} but {'no' if not errs else len(errs)} ERROR printed "
                                                   f"({[d[0] for d in errs][:4]})")
    if getattr(case, "backend_fault", False) and tool == "exppp":
        # the output file cannot be written: the back end reports FILE_UNWRITABLE through ERRORreport; main()'s gate after the back
        # end must turn that ERROR into the failure status (the generic `exit status vs ERROR printed` test above has run already)
        if not errs:
            return (f"{tool}:backend-error:silent", f"{tool} prints no ERROR although its output file cannot be written ({case.note}): "
                                                    f"status {st}, files {ob['files'][:3]}")
        return None
    if case.verdict == "accept":
        if nonzero or errs:
            return (getattr(case, "finding_key", None) or f"{tool}:{case.cls}:rejected",
                    f"{tool} rejects a well-formed file: status {st}, {[(d[0], d[3]) for d in errs][:3]}" +
                    (f" ({case.note})" if getattr(case, "finding_key", None) else ""))
    else:
        if not nonzero or not errs:
            return (f"{tool}:{case.cls}:accepted", f"{tool} accepts a file with a {case.cls} fault: status {st}, no ERROR ({case.note})")
        if ob["files"] and not crashed:
            return (f"{tool}:{case.cls}:artefact", f"{tool} left output {ob['files'][:3]} although it rejected the file")
    return None


def run_cases(ctx, b, model, table, cases, label, tools):
    t0 = time.time()
    jobs = [(t, c, []) for c in cases for t in tools]
    res = X.run_many(b, jobs, ctx.work)
    replies = model.ask([c.proto + [f"run {t} -" for t in tools] for c in cases])
    k = 0
    n_viol = n_corr = 0
    first_corr = None
    for ci, c in enumerate(cases):
        obs = {}
        for ti, t in enumerate(tools):
            ob = observed(res[k], table); k += 1
            obs[t] = ob
            ctx.count(1, key=(t, c.cls, c.data))
            ctx.hist("fault class", c.cls)
            ctx.hist("tool/status", f"{t}:{ob['status']}")
            v = oracle(c, t, ob)
            if v:
                n_viol += 1
                report(ctx, c, t, ob, v)
                continue
            if getattr(c, "oracle_only", False):
                continue
            m = X.parse_run_reply(replies[ci][1 + ti], table)
            drop = X.ORDER_DEPENDENT | ({"OVERLOADED_ATTR", "UNKNOWN_ATTR_IN_ENTITY"} if c.cls == "subtype-cycle" else set())
            wl = not getattr(c, "fixed_lines", False)
            real_d, n_ws = X.split_wrong_scope(c, ob["diags"])
            if n_ws:
                ctx.hist("observations", "type WHERE rule resolved in an importing schema's scope (known finding)")
                if not [d for d in real_d if d[4]] and m["status"] == "0":
                    continue
            a, mm = X.canon(real_d, with_lines=wl, drop=drop), X.canon(m["diags"], with_lines=wl, drop=drop)
            st_ok = ob["status"] == m["status"] or (c.cls == "subtype-cycle" and ob["status"] == "signal11") or \
                (m.get("diverges") == "1" and (ob["status"] == "abort" or ob["status"].startswith("signal")))
            if ob["status"] == "signal11":
                ctx.hist("observations", "SIGSEGV after a subtype cycle was reported (attribute look-up through cyclic supertypes)")
                a = [x for x in a if x[0] in ("SUBSUPER_LOOP",)]; mm = [x for x in mm if x[0] in ("SUBSUPER_LOOP",)]
            art_ok = bool(ob["files"]) == (m["backend"] == "1") or ob["status"] == "signal11"
            if "<ambient>" in [x[1] for x in mm]:
                continue        # the model itself says a conversion consumes a wrong argument (undefined behaviour): C20's business
            if a != mm or not st_ok or not art_ok:
                n_corr += 1
                first_corr = first_corr or (c, t, ob, m, a, mm)
        # the four front ends agree
        good = {t: o for t, o in obs.items() if not (t == "exp2python" and o["status"] not in ("0", "1"))}
        sets = {t: (o["status"] != "0", X.canon(o["diags"], with_lines=False)) for t, o in good.items() if o["status"] != "signal11"}
        if len({json.dumps(v) for v in sets.values()}) > 1 and not any(oracle(c, t, o) for t, o in obs.items()):
            n_viol += 1
            t0_, t1_ = list(sets)[0], next(t for t in sets if json.dumps(sets[t]) != json.dumps(sets[list(sets)[0]]))
            report(ctx, c, t1_, obs[t1_], (f"disagree:{c.cls}", f"{t0_} and {t1_} disagree: {sets[t0_]} vs {sets[t1_]}"))
    ctx.cov["correspondence"][label] = {"cases": len(cases), "runs": len(jobs), "property_failures": n_viol,
                                        "model_disagreements": n_corr, "wall_s": round(time.time() - t0, 1)}
    return first_corr


def report(ctx, case, tool, ob, v):
    key, what = v
    ctx.violation(key, what, {"input_file": case.path(), "input_text": case.data.decode("latin-1"), "input_hex": case.data.hex(),
                              "extra_files": {k: v.decode("latin-1") for k, v in getattr(case, "extra", {}).items()},
                              "express_path": getattr(case, "express_path", None),
                              "tool": tool, "command": f"{tool} {case.path()}",
                              "injected": {"class": case.cls, "expect": case.expect, "verdict": case.verdict, "note": case.note},
                              "proto": case.proto,
                              "observed": {"status": ob["status"], "diagnostics": [list(d) for d in ob["diags"]], "files": ob["files"][:10]}})


def corpus_cases():
    out = []
    cdir = os.path.join(VERIF, "corpus", "C04")
    for f in sorted(os.listdir(cdir)) if os.path.isdir(cdir) else []:
        d = json.load(open(os.path.join(cdir, f)))
        out.append(X.Case(f[:-5], bytes.fromhex(d["input_hex"]), d["proto"], d["cls"], [tuple(x) for x in d["expect"]],
                          d["verdict"], d.get("warn", False), d.get("note", "")))
        out[-1].fixed_lines = True      # the stored description carries 0-based line numbers: lines are not compared
        out[-1].oracle_only = d.get("oracle_only", False)   # outside the model (cross-schema inheritance): judged by the oracle alone
        out[-1].finding_key = d.get("finding_key")
    return out


def prepare(ctx):
    ctx.trusted += [
        "tools/extract.d/liberrors.py, resolvegen.py (regex extraction; raise on any unexpected shape)",
        "hand-written models lean/StepModel/ExpressDiag.lean (fedex.c main, error.c), ExpressResolve.lean (declaration-level passes), "
        "ExpressLex.lean — modelled, tied by correspondence",
        "vlib/schema_gen_express.py, vlib/express_front.py (generator, mutators, by-construction labels)",
    ]
    ctx.assumptions += [
        "one schema per file; USE/REFERENCE, INCLUDE, expression typing, rules/procedures are outside the model",
        "the order in which a pass visits declarations (hash order) is not modelled: diagnostics are compared as sorted multisets, "
        "CONTINUATION messages of a cycle are not compared",
        "the backends themselves (what exp2cxx/exppp/exp2python write) are not modelled, only whether they ran",
    ]
    X.seed_generated()
    proof_ok = ctx.lean("StepModel.Props.C04", exes=["m_c04"], extractors=EXTRACTORS)
    if not os.path.exists(ctx.model_exe("m_c04")) or not proof_ok:
        ok, out = L.lake_build(["m_c04"])
        if not ok:
            ctx.broken.append(("lake build m_c04", out[-2000:]))
            return None
    return proof_ok, ctx.build("plain"), X.Model(ctx.model_exe("m_c04")), X.Table(B.REPO)


def run(ctx):
    pr = prepare(ctx)
    if pr is None:
        return
    proof_ok, b, model, table = pr
    quick = ctx.tier == "quick"
    consts = dict(kv.split("=") for kv in model.ask([["consts"]])[0][0].split()[1:])
    X.LINE_BASE, X.LINE_RESET = int(consts.get("lineBase", 0)), consts.get("lineReset") == "true"
    first = None
    # an extractor that no longer recognises the source is answered with the widest sweep, not with a shrug
    escalate = any(n == "extract" for n, _ in ctx.broken) or not proof_ok
    big = (not quick) or escalate
    streams = []
    cc = corpus_cases()
    if cc:
        streams.append(("corpus", cc, X.TOOLS))
    chains = [X.gen_chain_case(ctx.rng, f"ch{k}") for k in range(24 if not big else 400)]
    import random as _random
    rrng = _random.Random(f"ring:{getattr(ctx, 'seed', 0)}")
    chains += [X.gen_ring_case(rrng, f"rg{k}", missing=(k % 3 == 2)) for k in range(12 if not big else 150)]
    streams.append(("chained-imports", chains, ["check-express"] if quick else X.TOOLS))
    # back-end errors: exppp cannot write <schema>.exp (a directory of that name is in the way / the schema name makes a file name
    # longer than NAME_MAX) -> ERROR FILE_UNWRITABLE -> the gate after the back end -> failure status
    brng = _random.Random(f"backend:{getattr(ctx, 'seed', 0)}")
    bcases = []
    for k in range(6 if not big else 40):
        sch = G.gen_schema(brng, 3)
        if k % 2 == 0:
            c = X.make_case(f"be{k}_dir_in_the_way", sch, "valid", [], "accept", note=f"a directory named {sch.name}.exp is in the way")
            c.extra = {f"{sch.name}.exp/keep": b""}
        else:
            sch.name = "s" + "x" * brng.randint(255, 270)
            c = X.make_case(f"be{k}_long_schema_name", sch, "valid", [], "accept", note=f"schema name of {len(sch.name)} characters")
        c.backend_fault = True
        c.oracle_only = True
        bcases.append(c)
    streams.append(("backend-errors", bcases, ["exppp"]))
    xrng = _random.Random(f"xinherit:{getattr(ctx, 'seed', 0)}")
    xin = [X.gen_xinherit_case(xrng, f"xi{k}", X.XI_FAULTS[k % len(X.XI_FAULTS)]) for k in range(30 if not big else 600)]
    streams.append(("cross-schema-inheritance", xin, X.TOOLS))
    graphs = []
    for k in range(60 if not big else 3000):
        graphs.append(X.gen_graph_case(ctx.rng, f"gs{k}", "sub", outside=(k % 2 == 0)))
        if k % 2 == 0:
            graphs.append(X.gen_graph_case(ctx.rng, f"gl{k}", "sel", outside=(k % 4 == 0)))
    streams.append(("cycle-graphs", graphs, ["check-express"]))
    streams.append(("generated", X.gen_cases(ctx.rng, 8 if quick else 300, 6, lexical=True), X.TOOLS))
    streams.append(("multi-schema", X.gen_file_cases(ctx.rng, 5 if quick else 80), X.TOOLS))
    streams.append(("multi-file", X.gen_multifile_cases(ctx.rng, 3 if quick else 40), X.TOOLS))
    for label, cases, tools in streams:
        fc = run_cases(ctx, b, model, table, cases, label, tools)
        first = first or fc
        if len(ctx.violations) >= 6:
            break
    if first and not ctx.violations:
        c, t, ob, m, a, mm = first
        ctx.broken.append(("correspondence Express.Resolve/Diag vs " + t,
                           f"{c.name} ({c.cls}; {c.note}): {t} status {ob['status']} files={ob['files'][:3]} {a} vs model {m['status']} backend={m['backend']} {mm}; "
                           f"input: {c.data.decode('latin-1')!r} (the oracle finds the property intact on it)"))
    ex = next((c for lab, cs, _ in streams if lab == "generated" for c in cs if c.cls == "missing-supertype"), None)
    if ex:
        ctx.sample({"class": ex.cls, "input": ex.data.decode("latin-1")[:500], "expect": ex.expect})
    ctx.cov["rule"] = ("corpus first (DESIGN witnesses), then grammar-directed valid single-schema files and every single-fault mutant class "
                       "(undefined type/supertype/subtype/function/attribute, duplicates, sub/super and select cycles, missing supertype, inherited "
                       "attribute redeclared, bad INVERSE, syntax error, lexical faults, warning-only faults) under all four tools; random sub/super and "
                       "select digraphs under check-express; distinct = distinct (tool, class, bytes)")


def replay(ctx, path):
    pr = prepare(ctx)
    if pr is None:
        return
    proof_ok, b, model, table = pr
    d = json.load(open(path))
    r = d.get("replay", d)
    inj = r.get("injected", {})
    c = X.Case(r["input_file"][:-4], bytes.fromhex(r["input_hex"]), r.get("proto", []), inj.get("class", "?"),
               [tuple(x) for x in inj.get("expect", [])], inj.get("verdict", "reject"), note=inj.get("note", ""))
    c.extra = {k: v.encode("latin-1") for k, v in r.get("extra_files", {}).items()}
    c.express_path = r.get("express_path")
    tool = r.get("tool", "check-express")
    ob = observed(X.run_tool(b, tool, c, [], ctx.work), table)
    ctx.count(1, key=(tool, c.data))
    v = oracle(c, tool, ob)
    if v:
        report(ctx, c, tool, ob, v)

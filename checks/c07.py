"""C07 — pretty-printed EXPRESS is valid, equivalent to its source and stable.

proof:           lean/StepModel/Props/C07.lean over the models ExpPrint (layout engine + expression printer),
                 ExpParse (tokens, precedence parser, normal form), ExpDecl (declaration-level fragment order)
regenerated tie: tools/extract.d/expprec.py -> Generated/ExpPrec.lean (precedence declarations and operator rules of expparse.y,
                 EXPop_table, the dispatch of EXPRop__out, WHERE sentinel handling, repeat-count marking, literal fields, indents)
correspondence:  scratch `exppp -l W [-t] [-c] -o out in` vs the Lean driver m_c07 (`pp`): bytes after the header comment
oracle:          the statement itself on what exppp wrote: (1) the scratch check-express accepts the output; (2) every declaration of
                 the source is in the output with token-for-token the same type, label and expression up to redundant parentheses
                 (expressions compared as `norm (parse tokens)` by the Lean driver) and the splitting of string literals;
                 (3) printing the output again gives the same token stream.
"""
import hashlib, json, os, re, subprocess, sys, time
from vlib import build as B, lean as L
from tools import c07_exp as X, c07_decl as D

HERE = os.path.dirname(os.path.abspath(__file__))
VERIF = os.path.dirname(HERE)
WIDTHS = [10, 11, 40, 80, 130, 99999]
PROPS = "StepModel.Props.C07"
PROPS_LEX = "StepModel.Props.C07Lex"


class Model:
    """persistent Lean driver"""

    def __init__(self, exe):
        self.p = subprocess.Popen([exe], stdin=subprocess.PIPE, stdout=subprocess.PIPE, text=True, bufsize=1)

    def ask(self, line):
        self.p.stdin.write(line + "\n")
        self.p.stdin.flush()
        return self.p.stdout.readline().rstrip("\n")

    def pp(self, decls, w, t, c):
        try:
            req = X.enc_schema(decls)
        except X.EncodeError as e:
            return None, f"unsupported: {e}"
        rep = self.ask(f"pp {w} {int(t)} {int(c)} {req}")
        if rep.startswith("P "):
            return rep[2:].replace("\\\\", "\0").replace("\\n", "\n").replace("\0", "\\"), None
        return None, rep

    def ast(self, toks):
        ws = []
        for t in toks:            # split literals are joined by the driver (`joinStr`), symmetrically on both sides
            w = X.word(t)
            if w is None:
                return f"not-an-expression-token {t}"
            ws.append(w)
        return self.ask("ast " + " ".join(ws))

    def close(self):
        try:
            self.p.stdin.close(); self.p.wait(timeout=5)
        except Exception:
            self.p.kill()


SCAN = {"runs": 0, "tokens": 0, "skipped": 0, "problems": [], "reserved": None}


def reserved_words():
    """words the scanner does not read as identifiers (lexact.c keyword table, built-in functions/procedures excepted)"""
    if SCAN["reserved"] is None:
        lx = open(os.path.join(B.REPO, "src/express/lexact.c")).read()
        tab = re.findall(r'\{\s*"([A-Z_0-9]+)"\s*,\s*(TOK_\w+)\s*\}', lx)
        SCAN["reserved"] = {w for w, t in tab if t not in ("TOK_BUILTIN_FUNCTION", "TOK_BUILTIN_PROCEDURE")}
    return SCAN["reserved"]


def scanner_correspondence(model, text, label):
    """The Lean scanner model (`lex`, StepModel/ExpLex.lean — the scanner of the character-level theorems) against this check's
    lexer on what exppp wrote: every maximal run of expression tokens of the output is cut out of the text (with its white
    space and line breaks) and read by the model; the tokens must be the same.  (This check's lexer is tied to the real scanner
    by the oracle: check-express reads the same text and the declarations compare equal.)"""
    if len(SCAN["problems"]) >= 3:
        return
    SCAN["calls"] = SCAN.get("calls", 0) + 1
    if SCAN["calls"] % SCAN.get("every", 1):
        return                      # quick tier: every 4th output
    spans = []
    try:
        toks = X.lex(text, spans)
    except X.LexError:
        return                      # reported by the oracle as `unreadable`
    res = reserved_words()
    runs, cur = [], []
    for t, sp in zip(toks, spans):
        w = X.word(t)
        if w is None or (t[0] == "id" and t[1].upper() in res):
            if cur: runs.append(cur)
            cur = []
            continue
        if t[0] == "real":
            w = "r" + X.hx(t[2])        # the model's real token carries the spelling
        cur.append((w, sp))
    if cur: runs.append(cur)
    for run in runs:
        piece = text[run[0][1][0]:run[-1][1][1]]
        if "--" in piece or "(*" in piece or any(ord(ch) > 126 for ch in piece):
            SCAN["skipped"] += 1
            continue
        want = "L " + " ".join(w for w, _ in run)
        got = model.ask("lex " + X.hx(piece))
        SCAN["runs"] += 1; SCAN["tokens"] += len(run)
        if got.rstrip() != want.rstrip():
            SCAN["problems"].append((label, f"scanner model reads {piece[:120]!r} as `{got[:200]}`, this check's lexer as `{want[:200]}`", text))
            return


class Tools:
    def __init__(self, ctx, b):
        self.ctx, self.b, self.env = ctx, b, b.env()
        self.n = 0
        import threading
        self._lock = threading.Lock()

    def dir(self):
        with self._lock:
            self.n += 1
            n = self.n
        d = os.path.join(self.ctx.work, f"r{n}")
        os.makedirs(d)
        return d

    def accepts(self, text):
        d = self.dir()
        open(os.path.join(d, "in.exp"), "w").write(text)
        r = subprocess.run([self.b.tool("check-express"), "in.exp"], cwd=d, env=self.env, capture_output=True, encoding="utf-8", errors="replace", timeout=120)
        return r.returncode == 0, (r.stdout + r.stderr)[-600:]

    def exppp(self, text, w, t, c):
        """returns (rc, output text or None, stderr tail)"""
        d = self.dir()
        open(os.path.join(d, "in.exp"), "w").write(text)
        cmd = [self.b.tool("exppp"), "-l", str(w)] + (["-t"] if t else []) + (["-c"] if c else []) + ["-o", "out.exp", "in.exp"]
        r = subprocess.run(cmd, cwd=d, env=self.env, capture_output=True, encoding="utf-8", errors="replace", timeout=300)
        out = None
        p = os.path.join(d, "out.exp")
        if os.path.exists(p):
            out = open(p, encoding="latin-1").read()
        return r.returncode, out, (r.stdout + r.stderr)[-600:]


def body_of(out):
    """exppp output after its header comment"""
    i = out.find("*)\n")
    return out[i + 3:] if out.startswith("(*") and i >= 0 else out


def fold(toks):
    """identifiers are case-insensitive"""
    return [("id", t[1].lower()) if t[0] == "id" else t for t in toks]


def oracle(tools, model, src, w, t, c):
    """the property's statement on one (schema, setting).  returns (problems, out) ; problem = (kind, detail)"""
    rc, out, err = tools.exppp(src, w, t, c)
    if rc != 0 or out is None:
        return [("exppp-failed", f"exppp exits {rc} on an accepted schema: {err[-300:]}")], None
    probs = []
    ok, msg = tools.accepts(out)
    if not ok:
        probs.append(("rejected", "the pretty-printed text is rejected by check-express: " + " | ".join(msg.strip().split("\n")[:3])))
    # the output must be readable at all: an exception of our lexer/splitter on exppp's OUTPUT is the violation itself
    ds = X.Decls(fold(X.lex(src)))          # input side: an exception here is a machinery error
    toks_out = None
    try:
        toks_out = X.lex(body_of(out))
    except X.LexError as ex:
        probs.append(("unreadable", f"the pretty-printed text cannot be split into tokens ({ex}); " + locate(out, ex)))
    if toks_out is not None:
        scanner_correspondence(model, body_of(out), f"-l {w} t={int(t)} c={int(c)}")
        try:
            do = X.Decls(fold(toks_out))
            e = equivalent(model, ds, do)
            if e:
                probs.append(("not-equivalent", e))
        except X.DeclError as ex:
            probs.append(("not-equivalent", f"the output cannot be split into the source's declarations: {ex}"))
    # stability
    if ok and toks_out is not None:
        rc2, out2, err2 = tools.exppp(out, w, t, c)
        if rc2 != 0 or out2 is None:
            probs.append(("unstable", f"printing the output again fails (exit {rc2}): {err2[-200:]}"))
        else:
            try:
                toks2 = X.lex(body_of(out2))
            except X.LexError as ex:
                toks2 = None
                probs.append(("unstable", f"the second printing cannot be split into tokens ({ex}); " + locate(out2, ex)))
            if toks2 is not None:
                t1, t2 = resplit(toks_out), resplit(toks2)
                if t1 != t2:
                    j = next((k for k in range(min(len(t1), len(t2))) if t1[k] != t2[k]), min(len(t1), len(t2)))
                    probs.append(("unstable", "second printing differs in more than line breaks: " +
                                  X.src_text(t1[max(0, j - 6):j + 6]) + "  ->  " + X.src_text(t2[max(0, j - 6):j + 6])))
    return probs, out


def locate(text, ex):
    """the declaration line(s) around the place the lexer gave up"""
    m = re.search(r"cannot lex at (.*)$", str(ex))
    frag = None
    if m:
        try:
            frag = eval(m.group(1))
        except Exception:
            frag = None
    i = text.find(frag) if frag else -1
    if i < 0:
        return "offending text not located"
    a = text.rfind("\n", 0, max(0, i - 1))
    a = text.rfind("\n", 0, max(0, a)) if a > 0 else 0
    b = text.find("\n", i)
    return "offending declaration: " + repr(text[max(0, a):b if b >= 0 else len(text)].strip()[:300])


def resplit(toks):
    """A literal that was split into 'a' + 'b' is read back as a sum and printed as ( 'a' + 'b' ) in operand position:
    the property allows the splitting of string literals, so split literals are joined again and the parentheses
    around a lone string literal dropped before two printings are compared token by token."""
    toks = X.merge_strings(toks)
    out = []
    for t in toks:
        out.append(t)
        if t == ("sym", ")") and len(out) >= 3 and out[-2][0] == "str" and out[-3] == ("sym", "("):
            s = out[-2]
            del out[-3:]
            out.append(s)
            if len(out) >= 3 and out[-2] == ("op", "plus") and out[-3][0] == "str":      # x + ( 'a' + 'b' ) + …
                out[-3:] = [("str", out[-3][1] + s[1])]
    return X.merge_strings(out)


def same_expr(model, a, b, what):
    if a == b:
        return None
    nd, b = X.numeric_diff(a, b)        # numeric literals by VALUE (kind kept, <= 1 unit of the 15th digit, zero only for zero)
    if nd:
        return f"{what}: {nd}"
    if a == b:
        return None
    ra, rb = model.ast(a), model.ast(b)
    if not ra.startswith("A "):
        return None if ra == rb else f"{what}: source expression is outside the modelled expression grammar ({ra}) and the output differs"
    if ra != rb:
        return f"{what}: source `{X.src_text(a)}` was printed as `{X.src_text(b)}`" + (" (not an expression any more)" if not rb.startswith("A ") else " (a different expression)")
    return None


def equivalent(model, ds, do):
    if ds.name != do.name:
        return f"schema name {ds.name} -> {do.name}"
    for kind, a, b in (("constant", ds.consts, do.consts), ("type", ds.types, do.types), ("entity", ds.entities, do.entities)):
        if set(a) != set(b):
            return f"{kind} declarations {sorted(a)} -> {sorted(b)}"
    for n, (ty, e) in ds.consts.items():
        ty2, e2 = do.consts[n]
        if ty != ty2:
            return f"constant {n}: type `{X.src_text(ty)}` -> `{X.src_text(ty2)}`"
        r = same_expr(model, e, e2, f"constant {n}")
        if r: return r
    def wheres(owner, wa, wb):
        if len(wa) != len(wb):
            return f"{owner}: {len(wa)} WHERE rules -> {len(wb)}"
        for (la, ea), (lb, eb) in zip(wa, wb):
            if la != lb:
                return f"{owner}: rule label {la} -> {lb}"
            r = same_expr(model, ea, eb, f"{owner} rule {la or '(unlabelled)'}")
            if r: return r
    for n, (ty, ws) in ds.types.items():
        ty2, ws2 = do.types[n]
        if ty != ty2:
            return f"type {n}: `{X.src_text(ty)}` -> `{X.src_text(ty2)}`"
        r = wheres(f"type {n}", ws, ws2)
        if r: return r
    for n, (attrs, ws) in ds.entities.items():
        attrs2, ws2 = do.entities[n]
        ex1 = [a for a in attrs if a[3] is None]; dv1 = [a for a in attrs if a[3] is not None]
        ex2 = [a for a in attrs2 if a[3] is None]; dv2 = [a for a in attrs2 if a[3] is not None]
        if [a[:3] for a in ex1] != [a[:3] for a in ex2] or [a[:3] for a in dv1] != [a[:3] for a in dv2]:
            return f"entity {n}: attributes {[(a[0], X.src_text(a[2])) for a in attrs]} -> {[(a[0], X.src_text(a[2])) for a in attrs2]}"
        for a1, a2 in zip(dv1, dv2):
            r = same_expr(model, a1[3], a2[3], f"entity {n} derived attribute {a1[0]}")
            if r: return r
        r = wheres(f"entity {n}", ws, ws2)
        if r: return r
    return None


def oracle_ext(tools, model, src, w, t, c):
    """the statement on schemas with constructs outside the Lean declaration model: accepted; every declaration present with
    the same tokens up to parentheses and split literals, and every `:= expr` the same expression (Lean `ast`); stable."""
    rc, out, err = tools.exppp(src, w, t, c)
    if rc != 0 or out is None:
        return [("exppp-failed", f"exppp exits {rc} on an accepted schema: {err[-300:]}")], None
    probs = []
    ok, msg = tools.accepts(out)
    if not ok:
        probs.append(("rejected", "the pretty-printed text is rejected by check-express: " + " | ".join(msg.strip().split("\n")[:3])))
    ast_src = D.parse_schema(fold(X.lex(src)))           # input side: an exception here is a machinery error
    toks_out = None
    try:
        toks_out = X.lex(body_of(out))
        ast_out = D.parse_schema(fold(toks_out))
    except (X.LexError, X.DeclError) as ex:
        probs.append(("unreadable", f"the pretty-printed text cannot be read as declarations ({ex}); " + (locate(out, ex) if isinstance(ex, X.LexError) else "")))
        return probs, out
    scanner_correspondence(model, body_of(out), f"-l {w} t={int(t)} c={int(c)}")
    # normalised declaration ASTs: names, VAR, OPTIONAL, UNIQUE, FIXED, precision, bounds, ABSTRACT, labels, statement structure equal;
    # id lists expanded; declarations keyed by (kind, name); expressions through the Lean driver
    diff = D.compare(ast_src, ast_out, lambda a, b, where: same_expr(model, a, b, where))
    if diff:
        probs.append(("not-equivalent", diff))
    elif ok:
        decl_syntax_correspondence(tools.ctx, model, fold(X.lex(src)), fold(toks_out), src)
    if ok:
        rc2, out2, err2 = tools.exppp(out, w, t, c)
        if rc2 != 0 or out2 is None:
            probs.append(("unstable", f"printing the output again fails (exit {rc2}): {err2[-200:]}"))
        else:
            try:
                t1, t2 = resplit(toks_out), resplit(X.lex(body_of(out2)))
                if t1 != t2:
                    j = next((k for k in range(min(len(t1), len(t2))) if t1[k] != t2[k]), min(len(t1), len(t2)))
                    probs.append(("unstable", "second printing differs in more than line breaks: " +
                                  X.src_text(t1[max(0, j - 6):j + 6]) + "  ->  " + X.src_text(t2[max(0, j - 6):j + 6])))
            except X.LexError as ex:
                probs.append(("unstable", f"the second printing cannot be split into tokens ({ex}); " + locate(out2, ex)))
    return probs, out


def decl_syntax_correspondence(ctx, model, toks_src, toks_out, src):
    """Lean `tyToks` / `argsToks` (StepModel/ExpDeclSyn.lean) against the tokens exppp printed: underlying types of TYPE
    declarations and the parameter lists of FUNCTION / PROCEDURE headers"""
    try:
        so, oo = D.type_slices(toks_src), D.type_slices(toks_out)
        for name, body in so.items():
            ty = D.P(body + [X.S(";")]).type_()
            rep = model.ask("ty " + D.enc_ty(ty))
            ctx.hist("correspondence", "declaration syntax: type")
            if rep != "D " + D.collapse(oo[name]):
                ctx.corr_problems.append(("decl-syntax", f"TYPE {name}: exppp `{D.collapse(oo[name])}` vs model `{rep[2:]}`", src)); return
        hs, ho = D.header_slices(toks_src), D.header_slices(toks_out)
        for key, sl in hs.items():
            ps = D.source_params(sl)
            rep = model.ask(f"args {len(ps)} " + " ".join(f"{X.hx(n)} {int(v)} {o} {D.enc_ty(t)}" for n, v, t, o in ps))
            ctx.hist("correspondence", "declaration syntax: parameter list")
            want = "D " + D.collapse(ho[key]) + " | roundtrip-ok"
            if rep != want:
                ctx.corr_problems.append(("decl-syntax", f"{key[0]} {key[1]}: exppp `{want[2:]}` vs model `{rep[2:]}`", src)); return
        blocks = D.local_blocks(toks_out)
        for ls in D.scopes_with_locals(D.parse_schema(toks_src)):
            rep = model.ask(f"locals {len(ls)} " + " ".join(f"{X.hx(n)} {1 if init is not None else 0} {D.enc_ty(t)}" for n, t, init in ls))
            ctx.hist("correspondence", "declaration syntax: LOCAL block")
            names = tuple(n for n, _, _ in ls)
            want = "D " + D.collapse_locals(blocks[names]) + " | roundtrip-ok"
            if rep != want:
                ctx.corr_problems.append(("decl-syntax", f"LOCAL block {names}: exppp `{want[2:]}` vs model `{rep[2:]}`", src)); return
        eo = D.entity_slices(toks_out)
        for key, e in D.parse_schema(toks_src)["decls"].items():
            if key[0] != "entity":
                continue
            rep = model.ask("entity " + D.enc_entity(key[1], e))
            ctx.hist("correspondence", "declaration syntax: entity")
            want = "D " + D.collapse_entity(eo[key[1]]) + " | roundtrip-ok"
            if rep != want:
                ctx.corr_problems.append(("decl-syntax", f"ENTITY {key[1]}: exppp `{want[2:]}` vs model `{rep[2:]}`", src)); return
        ast_s = D.parse_schema(toks_src)
        tdo = D.typedecl_slices(toks_out)
        for key, d in ast_s["decls"].items():
            if key[0] != "type":
                continue
            rep = model.ask("typedecl " + D.enc_typedecl(key[1], d))
            ctx.hist("correspondence", "declaration syntax: type declaration")
            want = "D " + D.collapse_typedecl(tdo[key[1]]) + " | roundtrip-ok"
            if rep != want:
                ctx.corr_problems.append(("decl-syntax", f"TYPE {key[1]}: exppp `{want[2:]}` vs model `{rep[2:]}`", src)); return
        cb = D.const_block(toks_out)
        if ast_s["consts"] and cb is not None:
            names, text = D.collapse_consts(cb)           # exppp's order of the constants; their types from the source
            if sorted(names) != sorted(ast_s["consts"]):
                ctx.corr_problems.append(("decl-syntax", f"CONSTANT block: names {sorted(ast_s['consts'])} -> {sorted(names)}", src)); return
            rep = model.ask(f"consts {len(names)} " + " ".join(f"{X.hx(n)} {D.enc_ty(ast_s['consts'][n][0])}" for n in names))
            ctx.hist("correspondence", "declaration syntax: CONSTANT block")
            if rep != "D " + text + " | roundtrip-ok":
                ctx.corr_problems.append(("decl-syntax", f"CONSTANT block: exppp `{text}` vs model `{rep[2:]}`", src)); return
        elif bool(ast_s["consts"]) != (cb is not None):
            ctx.corr_problems.append(("decl-syntax", f"CONSTANT block printed: {cb is not None}, constants in the source: {len(ast_s['consts'])}", src)); return
        pout = D.P(toks_out); pout.schema()
        spans = {}
        for key, a0, b0 in pout.body_spans:
            spans.setdefault(key, toks_out[a0:b0])
        seen = set()
        for key, body in D.algorithm_bodies(D.parse_schema(toks_src)):
            if key in seen or key not in spans:
                continue
            seen.add(key)
            rep = model.ask("stmts " + D.enc_stmts(body))
            ctx.hist("correspondence", "declaration syntax: statement list")
            want = "D " + D.collapse_stmts(spans[key]) + " | roundtrip-ok"
            if rep != want:
                ctx.corr_problems.append(("decl-syntax", f"statements of {key[0]} {key[1]}: exppp `{want[2:]}` vs model `{rep[2:]}`", src)); return
        # the whole token stream: Lean `schemaToks` of the source's declarations (in exppp's order) against everything exppp wrote
        out_ast = D.parse_schema(toks_out)
        try:
            req = D.enc_schema(ast_s, out_ast, D.header_slices(toks_src))
        except D.DeclError as ex:
            ctx.hist("correspondence", f"whole schema: not encodable ({str(ex)[:60]})"); req = None
        if req is not None:
            rep = model.ask("schema " + req)
            ctx.hist("correspondence", "declaration syntax: whole schema token stream")
            want = "D " + D.collapse_schema(toks_out) + " | roundtrip-ok | order-ok"      # order-ok: exppp emitted the declarations of
            # every scope as types, entities, rules, functions, procedures, each kind alphabetically (Lean `orderedSpine`)
            if rep != want:
                a_, b_ = want.split(" "), rep.split(" ")
                j = next((i for i in range(min(len(a_), len(b_))) if a_[i] != b_[i]), min(len(a_), len(b_)))
                ctx.corr_problems.append(("decl-syntax", f"whole schema: token {j}: exppp `{' '.join(a_[max(0, j - 8):j + 6])}` vs model `{' '.join(b_[max(0, j - 8):j + 6])}`", src)); return
    except (D.DeclError, KeyError, IndexError) as ex:
        ctx.corr_problems.append(("decl-syntax", f"cannot compare declaration syntax: {type(ex).__name__} {ex}", src))


SWEEP_WIDTHS = list(range(10, 61)) + [61, 79, 80, 81, 100, 129, 130, 131, 99999]


def dense_sweep(ctx, tools, model, src, label, widths=SWEEP_WIDTHS):
    """line-length boundary x construct: every -l in 10..60 plus boundaries, each of -t, -c alone and combined, on one schema.
    Oracle per run: exppp succeeds, the output is accepted by check-express and its normalised declaration AST equals the
    source's (token-identical up to remarks, layout, parentheses, split literals).  The tool runs go through a thread pool."""
    from concurrent.futures import ThreadPoolExecutor
    ok, msg = tools.accepts(src)
    if not ok:
        ctx.broken.append(("dense sweep", f"{label} is not accepted by check-express: {msg[-200:]}"))
        return
    ast_src = D.parse_schema(fold(X.lex(src)))
    runs = [(w, t, c) for w in widths for (t, c) in ((False, False), (True, False), (False, True), (True, True))]

    def one(wtc):
        w, t, c = wtc
        rc, out, err = tools.exppp(src, w, t, c)
        if rc != 0 or out is None:
            return wtc, ("exppp-failed", f"exppp exits {rc} on an accepted schema: {err[-200:]}"), out
        acc, m = tools.accepts(out)
        return wtc, (None if acc else ("rejected", "the pretty-printed text is rejected by check-express: " + " | ".join(m.strip().split("\n")[:2]))), out

    cache = {}
    def cmp_expr(a, b, where):
        k = (tuple(a), tuple(b))
        if k not in cache:
            cache[k] = same_expr(model, a, b, where)
        return cache[k]

    with ThreadPoolExecutor(max_workers=12) as ex:
        results = list(ex.map(one, runs))
    seen_outputs = {}
    for (w, t, c), prob, out in results:
        ctx.count(1, key=("sweep", label, w, t, c))
        ctx.hist("dense sweep", f"{label} t={int(t)} c={int(c)}")
        if prob is None:
            toks = None
            try:
                toks = fold(X.lex(body_of(out)))
                kk = tuple(toks)
                if kk not in seen_outputs:
                    seen_outputs[kk] = D.compare(ast_src, D.parse_schema(toks), cmp_expr)
                diff = seen_outputs[kk]
                if diff:
                    prob = ("not-equivalent", diff)
            except (X.LexError, X.DeclError) as e:
                prob = ("unreadable", f"the pretty-printed text cannot be read as declarations ({e})")
        if prob:
            kind, detail = prob
            args = ["-l", str(w)] + (["-t"] if t else []) + (["-c"] if c else [])
            ctx.violation(f"sweep:{label}:{kind}:" + re.sub(r"[^A-Za-z0-9_/:.-]+", "_", detail)[:100], f"{label} at {' '.join(args)}: {detail}",
                          {"schema": src, "exppp_args": args, "kind": kind, "extended": True, "output": out})
            if len(ctx.violations) >= 4:
                return


def evaluate_ext(ctx, tools, model, src, settings, label="", key=None):
    ok, msg = tools.accepts(src)
    if not ok:
        ctx.hist("inputs", "extended: rejected-by-check-express (not in the property's domain)")
        ctx.cov.setdefault("ext_rejected_sample", msg.strip()[:200])
        return 0
    n = 0
    for (w, t, c) in settings:
        ctx.count(1, key=(hashlib.sha1(src.encode()).hexdigest(), w, t, c))
        ctx.hist("line length", str(w)); ctx.hist("flags", f"t={int(t)} c={int(c)}"); ctx.hist("correspondence", "oracle only (extended declarations)")
        probs, out = oracle_ext(tools, model, src, w, t, c)
        for kind, detail in probs:
            n += 1
            ctx.violation(key or canon_key(kind + "-ext", src), detail,
                          {"schema": src, "exppp_args": ["-l", str(w)] + (["-t"] if t else []) + (["-c"] if c else []),
                           "kind": kind, "extended": True, "output": out})
        if probs:
            break
    return n


# ------------------------------------------------------------------ shrinking of generated schemas
def subtrees(e):
    k = e[0]
    if k in ("op",): return [e[2], e[3]]
    if k in ("neg", "not", "dot", "grp"): return [e[1]]
    if k == "idx": return [e[1], e[2]]
    if k == "rng": return [e[1], e[2], e[3]]
    if k == "call": return list(e[2])
    if k == "aggr": return [x for a, c in e[1] for x in ([a] if c is None else [a, c])]
    if k == "query": return [e[3]]
    return []


def smaller_exprs(e):
    """candidate replacements, smallest change last"""
    out = list(subtrees(e))
    k = e[0]
    if k == "aggr" and len(e[1]) > 1:
        for i in range(len(e[1])):
            out.append(("aggr", e[1][:i] + e[1][i + 1:]))
    if k == "op":
        for i in (2, 3):
            for s in smaller_exprs(e[i])[:6]:
                out.append(e[:i] + (s,) + e[i + 1:])
    if k in ("neg", "not"):
        for s in smaller_exprs(e[1])[:6]:
            out.append((k, s))
    if k == "aggr":
        for i, (a, c) in enumerate(e[1]):
            for s in smaller_exprs(a)[:4]:
                out.append(("aggr", e[1][:i] + [(s, c)] + e[1][i + 1:]))
    if k == "call":
        for i, a in enumerate(e[2]):
            for s in smaller_exprs(a)[:4]:
                out.append(("call", e[1], e[2][:i] + [s] + e[2][i + 1:]))
    if k == "query":
        for s in smaller_exprs(e[3])[:4]:
            out.append(("query", e[1], e[2], s))
    return out


def variants(sc):
    """smaller schemas, biggest cuts first"""
    for key in ("consts", "types", "entities"):
        for i in range(len(sc[key])):
            if key == "entities" and len(sc[key]) == 1 and not sc["consts"] and not sc["types"]:
                continue
            v = dict(sc); v[key] = sc[key][:i] + sc[key][i + 1:]
            if v["entities"] or v["consts"] or v["types"]:
                yield v
    for i, (en, attrs, ws) in enumerate(sc["entities"]):
        for j in range(len(attrs)):
            if len(attrs) > 1:
                v = dict(sc); v["entities"] = sc["entities"][:i] + [(en, attrs[:j] + attrs[j + 1:], ws)] + sc["entities"][i + 1:]
                yield v
        for j in range(len(ws)):
            v = dict(sc); v["entities"] = sc["entities"][:i] + [(en, attrs, ws[:j] + ws[j + 1:])] + sc["entities"][i + 1:]
            yield v
    for i, (tn, ty, ws) in enumerate(sc["types"]):
        for j in range(len(ws)):
            v = dict(sc); v["types"] = sc["types"][:i] + [(tn, ty, ws[:j] + ws[j + 1:])] + sc["types"][i + 1:]
            yield v
    # expressions
    for i, (cn, ty, e) in enumerate(sc["consts"]):
        for s in smaller_exprs(e):
            v = dict(sc); v["consts"] = sc["consts"][:i] + [(cn, ty, s)] + sc["consts"][i + 1:]
            yield v
    for i, (tn, ty, ws) in enumerate(sc["types"]):
        for j, (lab, e) in enumerate(ws):
            for s in smaller_exprs(e):
                v = dict(sc); v["types"] = sc["types"][:i] + [(tn, ty, ws[:j] + [(lab, s)] + ws[j + 1:])] + sc["types"][i + 1:]
                yield v
    for i, (en, attrs, ws) in enumerate(sc["entities"]):
        for j, (an, opt, ty, init) in enumerate(attrs):
            if init is not None:
                for s in smaller_exprs(init):
                    v = dict(sc); v["entities"] = sc["entities"][:i] + [(en, attrs[:j] + [(an, opt, ty, s)] + attrs[j + 1:], ws)] + sc["entities"][i + 1:]
                    yield v
        for j, (lab, e) in enumerate(ws):
            for s in smaller_exprs(e):
                v = dict(sc); v["entities"] = sc["entities"][:i] + [(en, attrs, ws[:j] + [(lab, s)] + ws[j + 1:])] + sc["entities"][i + 1:]
                yield v


class _FixedRng:
    """no redundant parentheses, deterministic rendering while shrinking"""
    def random(self): return 0.99
    def choice(self, xs): return xs[0]


def shrink(tools, model, sc, w, t, c, kind, budget=120):
    render = lambda s: X.schema_src(s, _FixedRng(), p_paren=1.0)
    def fails(s):
        src = render(s)
        ok, _ = tools.accepts(src)
        if not ok:
            return False
        pr, _ = oracle(tools, model, src, w, t, c)
        return any(k == kind for k, _ in pr)
    cur = sc
    if not fails(cur):
        return None
    changed = True
    while changed and budget > 0:
        changed = False
        for v in variants(cur):
            budget -= 1
            if budget <= 0:
                break
            if fails(v):
                cur = v; changed = True
                break
    return render(cur)


def canon_key(kind, src):
    """identifiers renamed in order of first use, layout removed"""
    try:
        toks = X.lex(src)
    except X.LexError:
        return kind + ":" + hashlib.sha1(src.encode()).hexdigest()[:16]
    ren, out = {}, []
    for t in toks:
        if t[0] == "id" and not t[1].isupper():
            out.append(ren.setdefault(t[1].lower(), f"n{len(ren)}"))
        elif t[0] == "real":
            out.append(t[1])
        else:
            out.append(X.tok_text(t))
    s = "_".join(out)
    return kind + ":" + (s if len(s) <= 160 else hashlib.sha1(s.encode()).hexdigest()[:16])


# ------------------------------------------------------------------ one input through everything
def evaluate(ctx, tools, model, src, settings, sc=None, label=""):
    """returns number of problems reported"""
    ok, msg = tools.accepts(src)
    if not ok:
        ctx.hist("inputs", "rejected-by-check-express (not in the property's domain)")
        return 0
    try:
        ds = X.Decls(X.lex(src))
    except (X.LexError, X.DeclError) as ex:
        ds = None
    nprob = 0
    for (w, t, c) in settings:
        ctx.count(1, key=(hashlib.sha1(src.encode()).hexdigest(), w, t, c))
        ctx.hist("line length", str(w)); ctx.hist("flags", f"t={int(t)} c={int(c)}")
        probs, out = oracle(tools, model, src, w, t, c)
        for kind, detail in probs:
            nprob += 1
            msrc = shrink(tools, model, sc, w, t, c, kind) if sc is not None else None
            msrc = msrc or src
            pr2, out2 = oracle(tools, model, msrc, w, t, c)
            det = next((d for k, d in pr2 if k == kind), detail)
            ctx.violation(canon_key(kind, msrc), det,
                          {"schema": msrc, "exppp_args": ["-l", str(w)] + (["-t"] if t else []) + (["-c"] if c else []),
                           "kind": kind, "output": out2 if out2 is not None else out,
                           "how": "write `schema` to in.exp; run the scratch `exppp <args> -o out.exp in.exp`; "
                                  "check-express out.exp / compare the expressions / print out.exp again"})
        if probs:
            break          # one setting is enough for this input
        # correspondence with the model
        if ds is not None and out is not None:
            mtext, err = model.pp(ds, w, t, c)
            if mtext is None:
                if err and err.startswith("unsupported"):
                    ctx.hist("correspondence", "skipped (construct outside the modelled declarations)")
                    continue
                ctx.corr_problems.append((label, f"model cannot read the accepted schema ({err}) at -l {w}", src))
                nprob += 1
                break
            ctx.hist("correspondence", "compared")
            if mtext != body_of(out):
                a, bb = body_of(out), mtext
                j = next((k for k in range(min(len(a), len(bb))) if a[k] != bb[k]), min(len(a), len(bb)))
                ctx.corr_problems.append((label, f"-l {w} t={int(t)} c={int(c)}: bytes differ at offset {j}: exppp {a[max(0,j-40):j+40]!r} vs model {bb[max(0,j-40):j+40]!r}", src))
                nprob += 1
                break
    return nprob


def settings_for(ctx, quick, widths_all=False):
    r = ctx.rng
    if quick and not widths_all:
        ws = r.sample(WIDTHS, 3)
        return [(w, r.random() < 0.5, r.random() < 0.5) for w in ws]
    return [(w, t, c) for w in WIDTHS for (t, c) in ((False, False), (True, False), (False, True), (True, True))]


def ensure_exe(ctx):
    exe = ctx.model_exe("m_c07")
    if not os.path.exists(exe) or ctx.broken:
        L.lake_build(["m_c07"])
    return exe if os.path.exists(exe) else None


def run(ctx):
    ctx.trusted += [
        "tools/extract.d/expprec.py (regex extraction of the grammar's precedence declarations/operator rules and of exppp's dispatch)",
        "hand-written models lean/StepModel/ExpPrint.lean, ExpParse.lean, ExpDecl.lean (modelled, tied by byte comparison with exppp)",
        "the EXPRESS scanner (text -> tokens) and lemon's LALR tables are not modelled: tools/c07_exp.py lexes, Express.parse is a "
        "precedence parser claimed equivalent to the grammar for expressions (validated by the byte comparison: exppp prints its own parse)",
        "tools/c07_exp.py generator/lexer/declaration splitter and checks/c07.py (what they do not generate is not compared)",
        "the scratch check-express as the acceptance oracle (its correctness is property C04)",
    ]
    ctx.assumptions += [
        "fragments shorter than the 10000-byte buffers of wrap()/raw() (overflow is property C06)",
        "real literals are compared by value (the text printf(\"%#.15g\") gives); strtod/printf are not modelled",
        "generated schemas: constants, defined types with WHERE, entities with explicit/derived attributes and WHERE; no SUPERTYPE/"
        "INVERSE/UNIQUE/functions/rules/statements (only accepted+stable is checked for those, on the shipped schemas in thorough tier)",
        "interval expressions {a < b < c}, unary plus and parameterless function references are rewritten by the parser before exppp "
        "sees them; they are not generated",
    ]
    ctx.corr_problems = []
    proof_ok = ctx.lean(PROPS, exes=["m_c07"], extractors=["expprec"])
    proof_ok = ctx.lean(PROPS_LEX) and proof_ok          # character level: layout engine x scanner model
    SCAN.update({"runs": 0, "tokens": 0, "skipped": 0, "problems": [], "calls": 0, "every": 4 if ctx.tier == "quick" else 1})
    exe = ensure_exe(ctx)
    b = ctx.build("plain")
    if exe is None:
        return
    tools = Tools(ctx, b)
    model = Model(exe)
    quick = ctx.tier == "quick"
    # does this tree print a split literal as ( 'a' + 'b' ) in operand position (fixes/C07-7)?  If not, splittable literals are
    # generated only where the unparenthesised sum is harmless (proposed finding in notes/C07.md)
    gen_text = open(os.path.join(L.GEN_DIR, "ExpPrec.lean")).read()
    split_paren = bool(re.search(r"def splitLiteralParen : Bool := true", gen_text))
    X.SPLIT_SAFE_RENDER[0] = not split_paren
    ctx.cov["split_literal_parenthesised"] = split_paren
    # does it parenthesise a relational/logical index operand (fixes/C07-8)?  If not such (ill-typed) indices are not generated
    index_paren = not re.search(r"def indexParenOps : List String := \[\]", gen_text)
    ctx.cov["index_operand_parenthesised"] = index_paren
    try:
        # 1. corpus: minimal schemas for every defect found so far, at every width
        cdir = os.path.join(VERIF, "corpus", "C07")
        n = 0
        for f in sorted(os.listdir(cdir)) if os.path.isdir(cdir) else []:
            if f.endswith(".exp"):
                src = open(os.path.join(cdir, f)).read()
                sets = [(w, False, False) for w in ([80, 10] if quick else WIDTHS)]
                try:
                    X.Decls(fold(X.lex(src)))
                    n += evaluate(ctx, tools, model, src, sets, label="corpus/" + f)
                except X.DeclError:      # declarations outside the Lean model: normalised declaration AST oracle
                    cls = {X.literal_class(t) for t in X.lex(src)} - {None}
                    n += evaluate_ext(ctx, tools, model, src, sets, label="corpus/" + f,
                                      key=("class:" + cls.pop()) if len(cls) == 1 else None)
                ctx.hist("inputs", "corpus")
        # 2. generated schemas
        feats = {}
        nsch = 60 if quick else 320
        t0 = time.time()
        for i in range(nsch):
            if len(ctx.violations) >= 4 or len(ctx.corr_problems) >= 3:
                break
            if time.time() - t0 > (60 if quick else 900):
                break
            g = X.Gen(ctx.rng, feats, split_safe=not split_paren)
            g.simple_index = not index_paren
            sc = g.schema()
            src = X.schema_src(sc, ctx.rng)
            ctx.hist("inputs", "generated")
            evaluate(ctx, tools, model, src, settings_for(ctx, quick), sc=sc, label=f"generated#{i}")
            if i < 2:
                ctx.sample({"schema": src[:1500]})
        # 2b. extended declarations (SUPERTYPE/SUBTYPE, UNIQUE, INVERSE, enumeration/select, functions, procedures, rules): oracle only
        next_ = 20 if quick else 150
        for i in range(next_):
            if len(ctx.violations) >= 4 or time.time() - t0 > (75 if quick else 1100):
                break
            g = X.GenDecl(ctx.rng, feats, split_safe=not split_paren)
            g.simple_index = not index_paren
            src = g.schema_src(cover=(i == 0))
            ctx.hist("inputs", "generated (extended declarations)")
            evaluate_ext(ctx, tools, model, src, settings_for(ctx, True) if quick else [(w, tt, False) for w in WIDTHS for tt in (False, True)],
                         label=f"extended#{i}")
            if i == 0:
                ctx.sample({"extended_schema": src[:1500]})
        # 2d. dense option sweep (line-length boundary x construct): static family corpus/C07/sweep/*.exp (every declaration and
        # statement kind at nesting depth 0..2, LOCAL blocks with short and long names, CASE with long selectors) and the
        # generator's cover schema; quick: one static schema + the cover schema, thorough: all
        sdir = os.path.join(VERIF, "corpus", "C07", "sweep")
        sweep_files = sorted(f for f in os.listdir(sdir) if f.endswith(".exp")) if os.path.isdir(sdir) else []
        for f in sweep_files:
            if len(ctx.violations) < 4:
                dense_sweep(ctx, tools, model, open(os.path.join(sdir, f)).read(), "sweep/" + f)
        if len(ctx.violations) < 4:
            gcov = X.GenDecl(ctx.rng, feats, split_safe=not split_paren)
            gcov.simple_index = not index_paren
            dense_sweep(ctx, tools, model, gcov.schema_src(cover=True), "sweep/generated-cover",
                        widths=SWEEP_WIDTHS if not quick else list(range(10, 61, 2)) + [61, 80, 130, 99999])
        # 2c. numeric literals on a grid (mantissa digits x decimal exponents x notations; integers up to 25 digits), compared by VALUE.
        # Literals the tools cannot represent are classified from the INPUT and reported under one key per class.
        reals = X.real_grid(not quick, ctx.rng)
        ints = X.int_grid(ctx.rng)
        # the hypothesis of `C07_real_respelled_lexes` (RealSp: digits `.` digits [e sign digits]) put to printf: the `%#.15g` text of
        # every finite value of the grid has that shape, and the Lean scanner model reads its printed form as one REAL token
        shape_bad = [l for l in reals if float(l) not in (float("inf"),) and not re.fullmatch(r"\d+\.\d*(e[+-]\d+)?", X.real_key(l))]
        ctx.cov["real_spelling_shape"] = {"literals": len(reals), "not of the shape digits.digits[e+-digits]": len(shape_bad)}
        if shape_bad:
            ctx.broken.append(("real literal spelling", f"printf('%#.15g') of {shape_bad[:5]} is not of the shape the Lean theorem assumes (RealSp)"))
        groups = {}
        for kind, lits in (("REAL", reals), ("INTEGER", ints)):
            for l in lits:
                tok = X.lex(l)[0]
                groups.setdefault((kind, X.literal_class(tok)), []).append(l)
        gi = 0
        for (kind, cls), lits in sorted(groups.items(), key=lambda kv: (kv[0][0], str(kv[0][1]))):
            # representable literals: many per schema; literals of a finding class: one schema each (a tree that rejects
            # out-of-range literals at parse time takes that schema out of the property's domain, the others stay in)
            step = 120 if cls is None else 1
            if cls is not None and quick:
                lits = lits[::max(1, len(lits) // 6)]
            for c0 in range(0, len(lits), step):
                gi += 1
                src = X.literal_schema(f"lit{gi}", kind, lits[c0:c0 + step])
                ctx.hist("inputs", f"numeric literal grid: {kind} {cls or 'representable'}", len(lits[c0:c0 + step]))
                evaluate_ext(ctx, tools, model, src, [(80, False, False)] + ([] if quick else [(10, False, False), (99999, True, True)]),
                             label=f"literals#{gi}", key=("class:" + cls) if cls else None)
        # grammar coverage: every non-terminal of expparse.y is mapped to a generator feature (or excluded with a reason);
        # every mapped feature must have been generated in this run
        ytext = open(os.path.join(B.REPO, "src/express/expparse.y")).read()
        nts = set(re.findall(r"^([A-Za-z_]+)(?:\([A-Z]\))?\s*::=", ytext, re.M))
        unknown = sorted(nts - set(D.NONTERMINALS))
        wanted = {v for k, v in D.NONTERMINALS.items() if isinstance(v, str) and k in nts}
        not_hit = sorted(f for f in wanted if not feats.get(f))
        ctx.cov["grammar_coverage"] = {"nonterminals": len(nts), "generated": len([k for k in nts if isinstance(D.NONTERMINALS.get(k), str)]),
                                       "excluded": {k: v[1] for k, v in D.NONTERMINALS.items() if not isinstance(v, str) and k in nts},
                                       "unknown": unknown, "features_not_generated": not_hit}
        if unknown:
            ctx.broken.append(("grammar coverage", f"expparse.y has non-terminals the declaration generator does not know: {unknown}"))
        if not_hit and not ctx.violations:
            ctx.broken.append(("grammar coverage", f"generator features mapped to grammar productions were not generated in this run: {not_hit}"))
        ctx.cov["distribution"]["features"] = dict(sorted(feats.items()))
        # 3. thorough: shipped schemas must at least print to something accepted and stable
        if not quick and not ctx.violations:
            for rel in ["data/ap203/ap203.exp", "data/ifc2x3/IFC2X3_TC1.exp", "data/pdm/pdm_schema_12.exp", "data/ap227/ap227.exp"]:
                p = os.path.join(B.REPO, rel)
                if not os.path.exists(p):
                    continue
                src = open(p, encoding="latin-1").read()
                for w in (80, 130):
                    shipped(ctx, tools, src, rel, w)
        ctx.cov["rule"] = ("corpus/C07/*.exp first; then schemas from the grammar-directed generator tools/c07_exp.py (every binary operator, "
                           "NOT, negation, qualifiers, every literal kind, QUERY, aggregate initialisers with repetition, labelled and "
                           "unlabelled rules, constants with string lists) rendered with random redundant parentheses; each at line lengths "
                           "from {10,11,40,80,130,99999} with/without -t/-c; distinct = (schema text, -l, -t, -c)")
    finally:
        model.close()
    ctx.cov["scanner_model_correspondence"] = {"runs of expression tokens cut from exppp's output": SCAN["runs"], "tokens": SCAN["tokens"],
                                               "runs skipped (remark or non-ASCII inside)": SCAN["skipped"]}
    ctx.hist("correspondence", "scanner model: token runs of exppp output", SCAN["runs"])
    if SCAN["problems"]:
        lab, det, src = SCAN["problems"][0]
        ctx.broken.append(("correspondence scanner model (Express.Lex) vs lexer on exppp output", f"{lab}: {det}; output:\n{src[:1500]}"))
    if ctx.corr_problems and not ctx.violations:
        lab, det, src = ctx.corr_problems[0]
        ctx.broken.append(("correspondence exppp vs Express.Print model", f"{lab}: {det}; the oracle finds the property intact on this input; schema:\n{src[:1500]}"))


def shipped(ctx, tools, src, rel, w):
    ctx.count(1, key=(rel, w)); ctx.hist("inputs", "shipped schema")
    rc, out, err = tools.exppp(src, w, False, False)
    if rc != 0 or out is None:
        ctx.hist("shipped", f"{rel}: exppp exit {rc} (schema not accepted by exppp; outside the domain)")
        return
    ok, msg = tools.accepts(out)
    if not ok:
        ctx.violation(f"shipped-rejected:{rel}", f"exppp -l {w} output of {rel} is rejected by check-express: {msg.strip()[:300]}",
                      {"schema_file": rel, "exppp_args": ["-l", str(w)], "kind": "rejected"})
        return
    rc2, out2, _ = tools.exppp(out, w, False, False)
    if rc2 != 0 or out2 is None:
        ctx.violation(f"shipped-unstable:{rel}", f"printing the output of {rel} again fails", {"schema_file": rel, "exppp_args": ["-l", str(w)], "kind": "unstable"})
        return
    try:
        t1, t2 = resplit(X.lex(body_of(out))), resplit(X.lex(body_of(out2)))
    except X.LexError as ex:
        ctx.violation(f"shipped-unreadable:{rel}", f"exppp -l {w} output of {rel} (or its second printing) cannot be split into tokens: {ex}",
                      {"schema_file": rel, "exppp_args": ["-l", str(w)], "kind": "unreadable"})
        return
    if t1 != t2:
        j = next((k for k in range(min(len(t1), len(t2))) if t1[k] != t2[k]), 0)
        ctx.violation(f"shipped-unstable:{rel}:" + "_".join(X.tok_text(x) for x in t1[max(0, j - 4):j + 4]),
                      f"second printing of {rel} differs: {X.src_text(t1[max(0,j-8):j+8])} -> {X.src_text(t2[max(0,j-8):j+8])}",
                      {"schema_file": rel, "exppp_args": ["-l", str(w)], "kind": "unstable"})


def replay(ctx, path):
    d = json.load(open(path))
    r = d.get("replay", d)
    ctx.corr_problems = []
    ctx.lean(PROPS, exes=["m_c07"], extractors=["expprec"])
    exe = ensure_exe(ctx)
    b = ctx.build("plain")
    tools = Tools(ctx, b)
    model = Model(exe)
    try:
        if "schema" in r:
            a = r.get("exppp_args", ["-l", "80"])
            w = int(a[a.index("-l") + 1]) if "-l" in a else 130
            if r.get("extended"):
                evaluate_ext(ctx, tools, model, r["schema"], [(w, "-t" in a, "-c" in a)], label="replay")
            else:
                evaluate(ctx, tools, model, r["schema"], [(w, "-t" in a, "-c" in a)], label="replay")
        elif "schema_file" in r:
            a = r.get("exppp_args", ["-l", "80"])
            shipped(ctx, tools, open(os.path.join(B.REPO, r["schema_file"]), encoding="latin-1").read(), r["schema_file"], int(a[a.index("-l") + 1]))
    finally:
        model.close()
    if ctx.corr_problems and not ctx.violations:
        lab, det, src = ctx.corr_problems[0]
        ctx.broken.append(("correspondence exppp vs Express.Print model", det))

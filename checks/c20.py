"""C20 — diagnostics name the construct that is actually wrong; -w/-i are local.

proof:           lean/StepModel/Props/C20.lean over Express.Diag / Express.Lex / Express.Resolve
regenerated tie: tools/extract.d/liberrors.py (LibErrors[], how ERRORreport_with_line forwards its arguments, the NULL
                 guard of ERRORset_warning, -w/-i handling, gates), tools/extract.d/resolvegen.py
correspondence:  scratch check-express vs Lean driver m_c20 on generated valid schemas and their single-fault mutants
                 (every argument-carrying diagnostic class) x switch settings; stderr parsed, multisets compared
oracle:          the injected fault: a diagnostic of the expected code must exist whose message is the table's format
                 with the *injected* texts substituted, attributed to the input path; switching class X on vs off must
                 change nothing but the diagnostics of class X (and never the exit status)
"""
import json, os, re, time
from vlib import build as B, lean as L, express_front as X, schema_gen_express as G

HERE = os.path.dirname(os.path.abspath(__file__))
VERIF = os.path.dirname(HERE)
CYCLE_QUOTES = {"SUBSUPER_LOOP": r"Entity (\w+) is a subtype of itself$", "SELECT_LOOP": r"Select type (\w+) selects itself$",
                "SUBSUPER_CONTINUATION": r"\s*\(via supertype entity (\w+)\)$", "SELECT_CONTINUATION": r"\s*\(via select type (\w+)\)$"}
CYCLE_CODES = {"SUBSUPER_LOOP", "SELECT_LOOP", "SUBSUPER_CONTINUATION", "SELECT_CONTINUATION"}
EXTRACTORS = ["liberrors", "resolvegen", "reportsites"]

# minimal inputs per lexical diagnostic, used to shrink a replay
MINIMAL = {
    "BAD_IDENTIFIER": [(b"SCHEMA s;\nENTITY _abc;\nEND_ENTITY;\nEND_SCHEMA;\n", ["_abc"])],
    "UNEXPECTED_CHARACTER": [(b"SCHEMA s; $\nEND_SCHEMA;\n", ["$"])],
    "ENCODED_STRING_BAD_DIGIT": [(b"SCHEMA s;\nENTITY a;\n  x : STRING;\nWHERE\n  w : SELF.x = \"0000000z\";\nEND_ENTITY;\nEND_SCHEMA;\n", ["z"])],
    "ENCODED_STRING_BAD_COUNT": [(b"SCHEMA s;\nENTITY a;\n  x : STRING;\nWHERE\n  w : SELF.x = \"00000\";\nEND_ENTITY;\nEND_SCHEMA;\n", ["5"])],
    "DUPLICATE_DECL": [
        (b"SCHEMA s;\nENTITY a;\n  w : INTEGER;\n  w : REAL;\nEND_ENTITY;\nEND_SCHEMA;\n", ["w", "2"]),
        (b"SCHEMA s;\nENTITY b;\n  w : NUMBER;\nEND_ENTITY;\nENTITY d SUBTYPE OF (b);\n  SELF\\b.w : INTEGER;\n  SELF\\b.w : REAL;\nEND_ENTITY;\nEND_SCHEMA;\n", ["w", "5"]),
        (b"SCHEMA src;\nENTITY alpha;\nEND_ENTITY;\nENTITY beta;\nEND_ENTITY;\nEND_SCHEMA;\nSCHEMA s;\nUSE FROM src\n  (alpha AS gamma,\n   beta AS gamma);\nEND_SCHEMA;\n", ["gamma", "8"]),
    ],
}


def switch_sets(table, rng, tier, warn_class):
    cls = table.classes()
    sets = [[]]
    picks = cls if tier == "thorough" else rng.sample(cls, min(2, len(cls)))
    if warn_class and warn_class not in picks:
        picks = [warn_class] + picks
    for c in picks:
        sets.append([("w", c)]); sets.append([("i", c)])
    if tier == "thorough" and len(cls) >= 2:
        sets.append([("w", cls[0]), ("i", cls[1])]); sets.append([("i", cls[0]), ("i", cls[1])])
    return sets


MULTI_SWITCH_INPUT = (b"SCHEMA s;\nTYPE col = ENUMERATION OF (red, green);\nEND_TYPE;\nTYPE fin = ENUMERATION OF (matt, gloss);\nEND_TYPE;\n"
                      b"TYPE deco = SELECT (col, fin);\nEND_TYPE;\nFUNCTION f(a : INTEGER; b : INTEGER) : INTEGER;\n  RETURN (a);\nEND_FUNCTION;\n"
                      b"ENTITY p;\n  a : INTEGER;\n  r : REAL;\n  d : deco;\nDERIVE\n  x : INTEGER := f(a);\nWHERE\n  w1 : SELF.r > 1.0e-40;\n"
                      b"  w2 : SELF.d.nosuch > 0;\nEND_ENTITY;\nENTITY c SUBTYPE OF (p);\n  SELF\\p.a : INTEGER;\nUNIQUE\n  u1 : SELF\\p.a;\nEND_ENTITY;\n"
                      b"END_SCHEMA;\n")


def observed(r, table):
    d, other = X.parse_stderr(r["err"], table)
    return {"status": X.status_of(r["rc"]), "diags": d, "other": other}


def check_case_oracle(case, sw, ob, table, baseline=None, base_ob=None):
    """C20's statement on what check-express printed for one (case, switches).  Returns (key, what) or None."""
    path = case.path()
    if (ob["status"] in ("abort", "timeout") or ob["status"].startswith("signal")) and case.cls == "needless-qualifier-then-unique":
        return ("unique-stale-unqualified-lookup-crash",
                f"check-express ends with {ob['status']} on a valid schema ({case.note}): UNIQUE_QUAL_REDECL is reported for the unqualified "
                "reference that FOLLOWS the needlessly qualified one, quoting expr->e.op2 of an identifier (not an operator expression)")
    if ob["status"] in ("abort", "timeout") or ob["status"].startswith("signal"):
        # a run that dies while printing the expected diagnostic quoted garbage (a conversion consumed a wrong argument)
        for code, args in case.expect:
            cut = [x for x in ob["diags"] if x[0] == code and x[3] != table.expected_message(code, args)]
            if cut and not any(x[0] == code and x[3] == table.expected_message(code, args) for x in ob["diags"]):
                return (f"arg:{code}", f"{code} printed as {cut[0][3]!r} and the run ends with {ob['status']}; the offending text is {args!r}, "
                                       f"i.e. {table.expected_message(code, args)!r}")
        base = baseline
        if sw and base is not None and base != ob["status"]:
            return ("switch-abort", f"`check-express {' '.join('-' + o + ' ' + n for o, n in sw)} {path}` ends with {ob['status']} "
                                    f"(without the switch: exit status {base})")
        return None        # a crash that does not depend on the switches is C06's business, not C20's
    if ob["status"] == "2" and sw:
        return None        # usage: unknown class name — nothing printed about the file
    if sw and base_ob is not None and base_ob["status"] in ("0", "1"):
        cmd = f"check-express {' '.join('-' + o + ' ' + n for o, n in sw)} {path}"
        if ob["status"] != base_ob["status"]:
            return ("switch-verdict:" + sw[-1][1],
                    f"`{cmd}` exits {ob['status']}, without the switch the exit status is {base_ob['status']} "
                    f"(errors without the switch: {[(d[0], d[3]) for d in base_ob['diags'] if d[4]][:3]})")
        ea = sorted((d[0], d[3]) for d in ob["diags"] if d[4] and d[0] not in X.ORDER_DEPENDENT)
        eb = sorted((d[0], d[3]) for d in base_ob["diags"] if d[4] and d[0] not in X.ORDER_DEPENDENT)
        if ea != eb:
            return ("switch-errors:" + sw[-1][1], f"`{cmd}` prints the ERROR diagnostics {ea[:4]}, without the switch {eb[:4]}")
    known_files = {path} | set(getattr(case, "extra", {}))
    if case.cls == "include":
        for (code, f, line, msg, is_err) in ob["diags"]:
            if f is not None and f != path and any(code == c and msg == table.expected_message(c, a) for c, a in case.expect):
                return ("include-misattributes-file", f"after `INCLUDE '{f}';` (the file is never read) {code} {msg!r}, a fault of {path!r}, "
                                                      f"is attributed to {f}:{line}")
    for (code, f, line, msg, is_err) in ob["diags"]:
        if f is not None and f not in known_files:
            return (f"file:{code}", f"{code} is attributed to file {f!r}, the files of this run are {sorted(known_files)}")
    want_file = getattr(case, "expect_file", None) or path
    # a cycle message is attributed to the line of the declaration it quotes
    if case.proto and not getattr(case, "fixed_lines", False) and not getattr(case, "extra", {}):
        decl = {}
        for l in case.proto:
            w = l.split()
            if w[0] in ("entity", "type") and len(w) >= 3 and w[2].isdigit():
                decl.setdefault(w[1], int(w[2]))
        for (code, f, line, msg, is_err) in ob["diags"]:
            rx = CYCLE_QUOTES.get(code)
            m = re.match(rx, msg) if rx else None
            if m and m.group(1) in decl and line is not None and decl[m.group(1)] != line:
                other = next((n for n, dl in decl.items() if dl == line), "?")
                return (f"cycle-line:{code}", f"{code} {msg!r} is attributed to line {line}, where {other} is declared; "
                                              f"{m.group(1)} is declared on line {decl[m.group(1)]}")
    # WRONG_ARG_COUNT quotes (function, number of arguments WRITTEN in the call, number of parameters DECLARED): every such
    # diagnostic must match a call of the input text, whatever happens to the call's arguments when they are resolved
    if case.proto and any(x[0] == "WRONG_ARG_COUNT" for x in ob["diags"]):
        params, calls = {}, set()
        for l in case.proto:
            w = l.split()
            if w[0] == "func" and len(w) == 4:
                params[w[1]] = int(w[3])
            elif w[0] == "alg" and w[1] == "function":
                params[w[2]] = int(w[4])
            elif w[0] == "call" and len(w) == 3:
                calls.add((w[1], int(w[2])))
            elif w[0] == "callwith":
                calls.add((w[1], 0 if w[2] == "-" else len(w[2].split(","))))
            elif w[0] == "bareattr":
                calls.add((w[1], 0))                   # a function named without an argument list is a call with no arguments
        for (code, f, line, msg, is_err) in ob["diags"]:
            m = re.match(r"Call to (\S+) uses (-?\d+) arguments, but expected (-?\d+)\.$", msg) if code == "WRONG_ARG_COUNT" else None
            if m and m.group(1) in params:
                fn, used, exp = m.group(1), int(m.group(2)), int(m.group(3))
                written = sorted(n for g, n in calls if g == fn)
                if exp != params[fn] or used == exp or used not in written:
                    return ("arg:WRONG_ARG_COUNT", f"WRONG_ARG_COUNT printed as {msg!r}; {fn} is declared with {params[fn]} parameter(s) and the "
                                                   f"input calls it with {written} argument(s)")
    enabled_warnings = bool(sw)          # without -w/-i every warning is switched off
    for code, args in case.expect:
        if table.is_warning(code):
            c = table.cls(code)
            off = (not enabled_warnings) or any(n == c and o == "w" for o, n in sw) and not any(n == c and o == "i" for o, n in sw[-1:])
            if off:
                continue
        want = table.expected_message(code, args)
        same_code = [x for x in ob["diags"] if x[0] == code]
        hits = [x for x in same_code if x[3] == want]
        if hits:
            if not any(x[1] == want_file for x in hits):
                return (f"file:{code}", f"{code} {want!r} is attributed to {hits[0][1]!r}; the offending text is in {want_file!r} "
                                        f"(files of the run: {sorted(known_files)})")
            continue
        if same_code:
            return (f"arg:{code}", f"{code} printed as {same_code[0][3]!r}; the offending text is {args!r}, i.e. {want!r}")
        # no diagnostic of that code at all: not C20's claim (C04 covers missing diagnostics)
    return None


def compare_switch_pairs(case, results, table):
    """results: {switch tuple: observed}.  -w X vs -i X (same other switches) may differ only in class-X diagnostics."""
    for sw, ob in results.items():
        if not sw or sw[-1][0] != "w":
            continue
        twin = sw[:-1] + (("i", sw[-1][1]),)
        if twin not in results:
            continue
        a, b = ob, results[twin]
        if a["status"] != b["status"]:
            return ("switch-verdict", f"exit status {a['status']} with -w {sw[-1][1]} but {b['status']} with -i {sw[-1][1]}")
        cls = sw[-1][1]
        fa = sorted(x for x in a["diags"] if table.cls(x[0]) != cls)
        fb = sorted(x for x in b["diags"] if table.cls(x[0]) != cls)
        if fa != fb:
            return ("switch-other-diagnostics", f"switching class {cls} changes other diagnostics: {fa} vs {fb}")
    return None


def run_cases(ctx, b, model, table, cases, sets_of, label):
    jobs, idx = [], []
    for ci, c in enumerate(cases):
        for sw in sets_of(c):
            jobs.append(("check-express", c, sw)); idx.append((ci, tuple(sw)))
    t0 = time.time()
    res = X.run_many(b, jobs, ctx.work)
    blocks = []
    for c in cases:
        blocks.append((c.proto + [f"run check-express {X.sw_arg(sw)}" for sw in sets_of(c)]) if c.proto else [])
    replies = model.ask(blocks)
    per_case = {}
    k = 0
    n_viol = n_corr = 0
    first_corr = None
    for ci, c in enumerate(cases):
        sws = sets_of(c)
        obs = {}
        for j, sw in enumerate(sws):
            ob = observed(res[k], table)
            cmd = res[k]["cmd"]
            k += 1
            obs[tuple(sw)] = ob
            ctx.count(1, key=(c.cls, c.data, tuple(sw)))
            ctx.hist("fault class", c.cls)
            ctx.hist("switches", " ".join("-" + o for o, _ in sw) or "none")
            for d in ob["diags"]:
                ctx.hist("diagnostic printed", d[0])
            v = check_case_oracle(c, sw, ob, table, baseline=(obs[()]["status"] if () in obs else None), base_ob=obs.get(()))
            if v:
                n_viol += 1
                report_violation(ctx, b, table, c, sw, ob, v)
                continue
            if not c.proto:
                continue            # oracle-only case (no model description)
            m = X.parse_run_reply(replies[ci][1 + j], table)
            drop = X.ORDER_DEPENDENT | ({"OVERLOADED_ATTR", "UNKNOWN_ATTR_IN_ENTITY"} if c.cls == "subtype-cycle" else set())
            wl = not getattr(c, "fixed_lines", False)
            real_d, n_ws = X.split_wrong_scope(c, ob["diags"])
            if n_ws:
                ctx.hist("observations", "type WHERE rule resolved in an importing schema's scope (C04 finding)")
                if not [d for d in real_d if d[4]] and m["status"] == "0":
                    continue
            a, bb = X.canon(real_d, with_lines=wl, drop=drop), X.canon(m["diags"], with_lines=wl, drop=drop)
            st_ok = ob["status"] == m["status"] or (c.cls == "subtype-cycle" and ob["status"] == "signal11") or \
                (m.get("diverges") == "1" and (ob["status"] == "abort" or ob["status"].startswith("signal")))
            if ob["status"] == "signal11":
                ctx.hist("observations", "SIGSEGV after a subtype cycle was reported (attribute look-up through cyclic supertypes)")
                a = [x for x in a if x[0] in CYCLE_CODES]; bb = [x for x in bb if x[0] in CYCLE_CODES]
            if (a != bb or not st_ok) and "<ambient>" not in [x[1] for x in bb]:
                n_corr += 1
                if first_corr is None:
                    first_corr = (c, sw, ob, m, a, bb)
        pv = compare_switch_pairs(c, obs, table)
        if pv:
            n_viol += 1
            sw = next(s for s in obs if s and s[-1][0] == "w")
            report_violation(ctx, b, table, c, list(sw), obs[sw], pv)
    ctx.cov["correspondence"][label] = {"cases": len(cases), "runs": len(jobs), "property_failures": n_viol,
                                        "model_disagreements": n_corr, "wall_s": round(time.time() - t0, 1)}
    return n_viol, first_corr


def report_violation(ctx, b, table, case, sw, ob, v):
    key, what = v
    data, args = case.data, None
    # shrink: the canonical minimal input of that diagnostic, if it fails the same way
    code = key.split(":", 1)[1] if key.startswith("arg:") else None
    if code in MINIMAL:
        for mdata, margs in MINIMAL[code]:
            if code == "DUPLICATE_DECL":        # the stored line is 0-based
                margs = [margs[0], str(int(margs[1]) + X.LINE_BASE)]
            mc = X.Case("min", mdata, [], case.cls, [(code, margs)], "reject")
            r = X.run_tool(b, "check-express", mc, sw, ctx.work)
            mob = observed(r, table)
            mv = check_case_oracle(mc, sw, mob, table)
            if mv and mv[0] == key:
                data, ob, what, case = mdata, mob, mv[1], mc
                break
    elif key == "switch-abort":
        mc = X.Case("min", b"SCHEMA s;\nEND_SCHEMA;\n", [], "valid", [], "accept")
        r = X.run_tool(b, "check-express", mc, sw[-1:], ctx.work)
        mob = observed(r, table)
        base = observed(X.run_tool(b, "check-express", mc, [], ctx.work), table)["status"]
        mv = check_case_oracle(mc, sw[-1:], mob, table, baseline=base)
        if mv and mv[0] == key:
            data, ob, what, case, sw = mc.data, mob, mv[1], mc, sw[-1:]
    ctx.violation(key, what, {
        "input_file": case.path(), "input_text": data.decode("latin-1"), "input_hex": data.hex(),
        "extra_files": {k: v.decode("latin-1") for k, v in getattr(case, "extra", {}).items()},
        "express_path": getattr(case, "express_path", None), "expect_file": getattr(case, "expect_file", None),
        "command": "check-express " + " ".join(f"-{o} {n}" for o, n in sw) + " " + case.path(),
        "switches": [list(x) for x in sw], "injected": {"class": case.cls, "expect": case.expect, "note": case.note},
        "observed": {"status": ob["status"], "diagnostics": [list(d) for d in ob["diags"]]}})


def prepare(ctx):
    ctx.trusted += [
        "tools/extract.d/liberrors.py, resolvegen.py (regex extraction of LibErrors[], forwarding form, guards, gates; raise on any unexpected shape)",
        "hand-written models lean/StepModel/ExpressDiag.lean (error.c, fedex.c main), ExpressLex.lean (expscan.l/lexact.c diagnostics), "
        "ExpressResolve.lean (declaration-level resolve passes) — modelled, tied by correspondence",
        "vlib/schema_gen_express.py, vlib/express_front.py (generator, mutators, stderr parser; what they do not generate is not compared)",
        "src/express/generated/expscan.c is assumed to implement expscan.l (perplex/re2c output is not re-derived)",
    ]
    ctx.assumptions += [
        "x86-64 SysV varargs: a va_list passed through `...` arrives as one pointer argument, so the conversions of the format read register/stack contents (modelled as the uninterpreted `Ambient`)",
        "libc printf implements %s %c %d %x as modelled; %f renderings are supplied by the generator (0.000000 for |x| <= FLT_MIN)",
        "one schema per file, no USE/REFERENCE, no INCLUDE; line numbers of SYNTAX/UNTERMINATED_STRING diagnostics are not modelled",
        "which cycle path the CONTINUATION messages follow depends on hash-table order and is not modelled (their arguments are still checked by theorem C20_cycle_names_on_cycle and by the oracle)",
    ]
    X.seed_generated()
    proof_ok = ctx.lean("StepModel.Props.C20", exes=["m_c20"], extractors=EXTRACTORS)
    if not os.path.exists(ctx.model_exe("m_c20")) or not proof_ok:
        ok, out = L.lake_build(["m_c20"])
        if not ok:
            ctx.broken.append(("lake build m_c20", out[-2000:]))
            return None
    b = ctx.build("plain")
    return proof_ok, b, X.Model(ctx.model_exe("m_c20")), X.Table(B.REPO)


def corpus_cases():
    out = []
    cdir = os.path.join(VERIF, "corpus", "C20")
    for f in sorted(os.listdir(cdir)) if os.path.isdir(cdir) else []:
        d = json.load(open(os.path.join(cdir, f)))
        c = X.Case(f[:-5], bytes.fromhex(d["input_hex"]), d["proto"], d["cls"], [tuple(x) for x in d["expect"]],
                   d["verdict"], d.get("warn", False), d.get("note", ""))
        c.extra = {k: v.encode("latin-1") for k, v in d.get("extra_files", {}).items()}
        c.fixed_lines = True            # the stored description carries 0-based line numbers: lines are not compared
        out.append(c)
    return out


def run(ctx):
    pr = prepare(ctx)
    if pr is None:
        return
    proof_ok, b, model, table = pr
    quick = ctx.tier == "quick"
    consts = dict(kv.split("=") for kv in model.ask([["consts"]])[0][0].split()[1:])
    X.LINE_BASE, X.LINE_RESET = int(consts.get("lineBase", 0)), consts.get("lineReset") == "true"
    sets_cache = {}

    def sets_of(c):
        if c.name not in sets_cache:
            wc = next((table.cls(code) for code, _ in c.expect if table.is_warning(code) and table.cls(code)), None)
            s = switch_sets(table, ctx.rng, ctx.tier, wc)
            if c.warn and not wc:                       # class-less warning: any switch enables it
                pass
            sets_cache[c.name] = s
        return sets_cache[c.name]

    # an extractor that no longer recognises the source is answered with the widest sweep, not with a shrug
    escalate = any(n == "extract" for n, _ in ctx.broken) or not proof_ok
    big = (not quick) or escalate
    streams = []
    cc = corpus_cases()
    if cc:
        streams.append(("corpus", cc))
    # every class name the table carries x {-w,-i} on one schema per guarded diagnostic (+ a valid one)
    base = G.gen_schema(ctx.rng, 4)
    sweep = [X.make_case("sw_valid", base, "valid", [], "accept")]
    import importlib.util
    spec = importlib.util.spec_from_file_location("x_resolvegen", os.path.join(VERIF, "tools", "extract.d", "resolvegen.py"))
    rg = importlib.util.module_from_spec(spec); spec.loader.exec_module(rg)
    shapes = ["select_cycle", "sub_cycle", "entity_as_type", "undef_sub", "wrong_argc", "small_real"]
    for g in rg.guarded_sites(B.REPO):
        if g not in X.GUARD_SHAPES:
            ctx.broken.append(("guarded site without an input shape", f"ERRORis_enabled( {g} ) in src/express: the class sweep has no schema "
                               f"exercising the construct behind it (add one to vlib/express_front.GUARD_SHAPES)"))
        shapes += [m for m in X.GUARD_SHAPES.get(g, []) if m not in shapes]
    shapes += [m for ms in X.GUARD_SHAPES.values() for m in ms if m not in shapes]
    for mn in shapes:
        for _ in range(20):
            f = G.mutate(base, mn, ctx.rng)
            if f is not None:
                sweep.append(X.make_case("sw_" + mn, f.schema, f.cls, f.expect, f.verdict, f.warn, f.note))
                break
            base2 = G.gen_schema(ctx.rng, 5)
            f = G.mutate(base2, mn, ctx.rng)
            if f is not None:
                sweep.append(X.make_case("sw_" + mn, f.schema, f.cls, f.expect, f.verdict, f.warn, f.note))
                break
    sweep.append(X.gen_graph_case(ctx.rng, "sw_gsel", "sel", n=3, outside=True))
    sweep.append(X.gen_graph_case(ctx.rng, "sw_gsub", "sub", n=3, outside=True))
    all_sw = [[]] + [[(o, c)] for c in table.all_classes() for o in ("w", "i")]
    for c in sweep:
        sets_cache[c.name] = all_sw
    streams.append(("class-sweep", sweep))
    streams.append(("generated", X.gen_cases(ctx.rng, 12 if quick else 120, 6)))
    # identifiers (and a file name) long enough that a whole message does not fit 200 / 256 / 1024-byte buffers: the quoted text
    # must be the WHOLE offending identifier
    lens = [70, 130, 170, 230]
    longc = X.gen_cases(ctx.rng, 4 if quick else 16, 4, lexical=False, tag="long",
                        pre=lambda i: "l" + "o" * lens[i % len(lens)] + "ng_")
    for k, c in enumerate(longc):
        if k % 5 == 0:
            c.name = c.name + "_" + "p" * 150
            c.proto = ["file " + c.path().encode().hex()] + c.proto[1:]
    streams.append(("long-identifiers", longc))
    streams.append(("multi-schema", X.gen_file_cases(ctx.rng, 6 if quick else 60)))
    streams.append(("multi-file", X.gen_multifile_cases(ctx.rng, 5 if quick else 50)))
    graphs = []
    for k in range(30 if not big else 400):
        graphs.append(X.gen_graph_case(ctx.rng, f"gs{k}", "sub", outside=(k % 3 == 0)))
        graphs.append(X.gen_graph_case(ctx.rng, f"gl{k}", "sel", outside=(k % 3 == 0)))
    streams.append(("cycle-graphs", graphs))
    first_corr = None
    for label, cases in streams:
        nv, fc = run_cases(ctx, b, model, table, cases, sets_of if label != "cycle-graphs" else (lambda c: [[]]), label)
        first_corr = first_corr or fc
        if len(ctx.violations) >= 3:
            break
    # -B (buffer the diagnostics, print them sorted by line): the same diagnostics, each on a line of its own, the same exit status
    # and the same other lines as without -B
    if not ctx.violations:
        bc = sweep + [c for lab, cs in streams if lab == "generated" for c in cs][:(25 if quick else 400)]
        wsw = [("i", "downcast")]                       # any switch turns the class-less warnings on
        ra = X.run_many(b, [("check-express", c, wsw) for c in bc], ctx.work)
        rb = X.run_many(b, [("check-express", c, [("B", None)] + wsw) for c in bc], ctx.work)
        for c, x, y in zip(bc, ra, rb):
            oa, obf = observed(x, table), observed(y, table)
            ctx.count(1, key=(c.cls, c.data, "-B"))
            if oa["status"] in ("abort", "timeout") or oa["status"].startswith("signal"):
                continue
            da, db = sorted(map(str, oa["diags"])), sorted(map(str, obf["diags"]))
            if oa["status"] != obf["status"] or da != db or sorted(oa["other"]) != sorted(obf["other"]):
                only_a = [d for d in oa["diags"] if str(d) not in db][:2]
                only_b = [d for d in obf["diags"] if str(d) not in da][:2]
                ctx.violation("buffered-output-differs",
                              f"`check-express -B -i downcast {c.path()}` exits {obf['status']} and prints {len(obf['diags'])} diagnostics, other lines "
                              f"{obf['other'][:3]}; without -B: exit {oa['status']}, {len(oa['diags'])} diagnostics, other lines {oa['other'][:3]}; "
                              f"only without -B: {only_a}; only with -B: {only_b}",
                              {"input_file": c.path(), "input_text": c.data.decode("latin-1"), "input_hex": c.data.hex(),
                               "command": f"check-express -B -i downcast {c.path()}", "switches": [["B", None], ["i", "downcast"]],
                               "injected": {"class": c.cls, "expect": c.expect, "note": c.note}})
                break
    # with / without a switch: `-w X` / `-i X` must change only diagnostics of class X.  True from the second switch on
    # (C20_switch_with_without); the FIRST switch also drops main's `if( no_warnings ) ERRORset_all_warnings( 1 )`, so every warning of
    # every other class appears (C20_first_switch_enables_other_classes_witness) — put to the tool here
    wc_ = X.Case("first_switch", b"SCHEMA s;\nFUNCTION f(a : INTEGER; b : INTEGER) : INTEGER;\n  RETURN (a);\nEND_FUNCTION;\n"
                 b"ENTITY e;\n  x : INTEGER;\nDERIVE\n  d : INTEGER := f(x);\nEND_ENTITY;\nEND_SCHEMA;\n", [], "wrong-argument-count",
                 [("WRONG_ARG_COUNT", ["f", "1", "2"])], "accept", True)
    o0 = observed(X.run_tool(b, "check-express", wc_, [], ctx.work), table)
    for o_ in ("w", "i"):
        o1 = observed(X.run_tool(b, "check-express", wc_, [(o_, "downcast")], ctx.work), table)
        o2 = observed(X.run_tool(b, "check-express", wc_, [("i", "limits"), (o_, "downcast")], ctx.work), table)
        o3 = observed(X.run_tool(b, "check-express", wc_, [("i", "limits")], ctx.work), table)
        ctx.count(3, key=("first-switch", o_))
        other = lambda ob: sorted(str(d) for d in ob["diags"] if table.cls(d[0]) != "downcast")
        if other(o2) != other(o3) and not ctx.violations:
            ctx.violation("switch-not-local", f"`-i limits -{o_} downcast` vs `-i limits`: diagnostics outside class downcast differ: {other(o2)} vs {other(o3)}",
                          {"input_text": wc_.data.decode(), "input_hex": wc_.data.hex(), "input_file": wc_.path(), "switches": [["i", "limits"], [o_, "downcast"]]})
        if other(o1) != other(o0) and not ctx.violations:
            ctx.violation("first-switch-enables-all-warnings",
                          f"`check-express -{o_} downcast {wc_.path()}` prints {other(o1)}; without the switch: {other(o0)} — the diagnostic is not of "
                          "class downcast",
                          {"input_text": wc_.data.decode(), "input_hex": wc_.data.hex(), "input_file": wc_.path(),
                           "command": f"check-express -{o_} downcast {wc_.path()}", "switches": [[o_, "downcast"]]})
    # command lines with two and three switches, in every order, over classes that fire in the input (limits, invalid_case,
    # unnecessary_qualifiers) and classes that do not (downcast, indexing): the diagnostics of class X that are printed depend only on
    # the LAST switch naming X - not on the other switches, not on their order (C20_switch_with_without from the second switch on)
    if not ctx.violations:
        ms = X.Case("multi_switch", MULTI_SWITCH_INPUT, [], "valid", [], "accept", True)
        classes = ["limits", "invalid_case", "unnecessary_qualifiers", "downcast", "indexing"]
        pool = [(o_, c_) for c_ in classes for o_ in ("w", "i")]
        single = {sw_: observed(X.run_tool(b, "check-express", ms, [sw_], ctx.work), table) for sw_ in pool}
        lists = [[a_, b_] for a_ in pool for b_ in pool]
        triples = [[a_, b_, c_] for a_ in pool for b_ in pool for c_ in pool]
        import random as _rnd
        trng = _rnd.Random(f"multiswitch:{ctx.seed}")
        lists += triples if big else trng.sample(triples, 150)
        res_ms = X.run_many(b, [("check-express", ms, l_) for l_ in lists], ctx.work)
        of_class = lambda ob, cl: sorted(str(d) for d in ob["diags"] if table.cls(d[0]) == cl)
        classless = lambda ob: sorted(str(d) for d in ob["diags"] if table.cls(d[0]) is None)
        for l_, r_ in zip(lists, res_ms):
            ob_ = observed(r_, table)
            ctx.count(1, key=("multi-switch", tuple(l_)))
            bad = None
            if ob_["status"] != single[l_[-1]]["status"]:
                bad = f"exit status {ob_['status']}, with the last switch alone {single[l_[-1]]['status']}"
            elif classless(ob_) != classless(single[l_[-1]]):
                bad = f"class-less warnings {classless(ob_)} vs {classless(single[l_[-1]])} with one switch"
            else:
                for cl in classes:
                    last = next((sw_ for sw_ in reversed(l_) if sw_[1] == cl), None)
                    ref = single[last] if last else single[next(sw_ for sw_ in pool if sw_[1] != cl and sw_[1] not in [x[1] for x in l_] or sw_[1] != cl)]
                    if of_class(ob_, cl) != of_class(ref, cl):
                        bad = (f"warnings of class {cl}: {of_class(ob_, cl) or 'none'}; the last switch naming {cl} is "
                               f"{('-' + last[0] + ' ' + cl) if last else 'none (class untouched)'}, under which alone they are {of_class(ref, cl) or 'none'}")
                        break
            if bad:
                cmd = "check-express " + " ".join(f"-{o_} {c_}" for o_, c_ in l_) + " " + ms.path()
                ctx.violation("switch-order-dependence", f"`{cmd}`: {bad}",
                              {"input_file": ms.path(), "input_text": ms.data.decode("latin-1"), "input_hex": ms.data.hex(), "command": cmd,
                               "switches": [list(x) for x in l_]})
                break
    # unknown class: usage + exit 2, nothing about the file
    mc = X.Case("u", b"SCHEMA s;\nEND_SCHEMA;\n", [], "valid", [], "accept")
    r = X.run_tool(b, "check-express", mc, [("w", "no_such_class")], ctx.work)
    st = X.status_of(r["rc"])
    rep = model.ask([["file 752e657870", "schema s 0", "end", "run check-express w:no_such_class"]])[0][-1]
    want = {"R status=usage": "2", "R status=crash": "abort"}.get(rep, "?")
    if st != want and not ctx.violations:
        ctx.broken.append(("correspondence -w <unknown class>", f"check-express exits {st}, model says {rep}"))
    if st == "abort":
        report_violation(ctx, b, table, mc, [("w", "no_such_class")], observed(r, table),
                         ("switch-abort", "`check-express -w no_such_class` aborts instead of reporting the unknown class"))
    if first_corr and not ctx.violations:
        c, sw, ob, m, a, bb = first_corr
        ctx.broken.append(("correspondence Express.Diag/Lex/Resolve vs check-express",
                           f"{c.name} ({c.cls}; {c.note}) switches {sw}: check-express status {ob['status']} {a} vs model {m['status']} {bb}; "
                           f"input: {c.data.decode('latin-1')!r} (the oracle finds the property intact on it)"))
    ex = next((c for lab, cs in streams if lab == "generated" for c in cs if c.cls == "leading-underscore"), None)
    if ex:
        ctx.sample({"class": ex.cls, "input": ex.data.decode("latin-1")[:400], "expect": ex.expect})
    ctx.cov["rule"] = ("grammar-directed valid single-schema files (types, enumerations, selects, functions, entity DAGs with explicit/implicit "
                       "SUPERTYPE OF expressions, INVERSE, domain rules) and every single-fault mutant class of vlib/schema_gen_express.MUTATORS "
                       "+ lexical mutants (illegal character, leading underscore, encoded-string digit/count, non-ASCII byte, fault-looking text inside remarks) "
                       "+ random sub/super and select digraphs; each under no switch, -w X and -i X for warning classes X; distinct = distinct (class, bytes, switches)")


def replay(ctx, path):
    pr = prepare(ctx)
    if pr is None:
        return
    proof_ok, b, model, table = pr
    d = json.load(open(path))
    r = d.get("replay", d)
    inj = r.get("injected", {})
    c = X.Case(r["input_file"][:-4], bytes.fromhex(r["input_hex"]), [], inj.get("class", "?"),
               [tuple(x) for x in inj.get("expect", [])], "reject")
    c.extra = {k: v.encode("latin-1") for k, v in r.get("extra_files", {}).items()}
    c.express_path, c.expect_file = r.get("express_path"), r.get("expect_file")
    sw = [tuple(x) for x in r.get("switches", [])]
    res = X.run_tool(b, "check-express", c, sw, ctx.work)
    ob = observed(res, table)
    ctx.count(1, key=(c.data, tuple(sw)))
    base_ob = observed(X.run_tool(b, "check-express", c, [], ctx.work), table) if sw else None
    base = base_ob["status"] if base_ob else None
    v = check_case_oracle(c, sw, ob, table, baseline=base, base_ob=base_ob)
    if v:
        report_violation(ctx, b, table, c, sw, ob, v)
    elif sw and sw[-1][0] == "w":
        twin = sw[:-1] + [("i", sw[-1][1])]
        ob2 = observed(X.run_tool(b, "check-express", c, twin, ctx.work), table)
        pv = compare_switch_pairs(c, {tuple(sw): ob, tuple(twin): ob2}, table)
        if pv:
            report_violation(ctx, b, table, c, sw, ob, pv)

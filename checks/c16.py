"""C16 - working-session files round-trip populations with per-instance state.

proof:           lean/StepModel/Props/C16.lean (readWorking (writeWorking s) = s minus deleted, with states; deleted
                 exactly; second save = first minus its D entries, identical when nothing is deleted, and identical
                 from the second cycle on; same ids/types/values as an exchange round trip)
                 model: lean/StepModel/Session.lean (WriteWorkingData, ReadData1/2 prefix handling, ReadInstance);
                 header instances: lean/StepModel/HeaderIds.lean (HeaderId/_headerId, InstMgr::Append renaming, verify,
                 merge, WriteHeader) - ids never collide, a Part 21 ordered header survives read/save/re-open
regenerated tie: tools/extract.d/stepfile.py (state -> letter switch of WriteWorkingData, EntityWfState, the accepted
                 letter set, deleted entries skipped, working-session reads never change the state), enums.py,
                 headerids.py (every use of _headerId, fixed ids, clash rule, look-up orders of verify/merge/WriteHeader)
correspondence:  harness/h_p21.cc (read; setstate*; writework; readwork; dump; hdr; writework; ...) vs lean exe m_c16,
                 incl. the file ids of the header instances and the header written after every load / save, and
                 hand-made header histories (non-standard orders, missing required instances, appends)
oracle:          the statement evaluated on the files the implementation writes and the states it reports
"""
import concurrent.futures as cf
import json, os, re, subprocess, time
from vlib import build as B, p21_gen as G
from checks.c15 import build_schema, Harness, kv, parse_dump, check_schema_table, HARNESS, SUBST
from checks.c14 import Model, decode_insts

HERE = os.path.dirname(os.path.abspath(__file__))
VERIF = os.path.dirname(HERE)
EXTRACTORS = ["stepfile", "instmgr", "attrnull", "enums", "threading", "p21rw", "headerids"]
STATES = ["completeSE", "incompleteSE", "newSE", "deleteSE"]
LETTER = {"completeSE": "C", "incompleteSE": "I", "newSE": "N", "deleteSE": "D"}


def mask(text):
    """the only part of a saved file that may differ between two saves: FILE_NAME's time stamp"""
    return re.sub(r"(FILE_NAME\('(?:[^']|'')*',)'[^']*'", r"\1'<time>'", text)


def header_ents(text):
    """the header entities of a file, one text per entity, FILE_NAME's time stamp masked (the model holds them as opaque texts)"""
    return [x.strip() + ";" for x in G.header_of(text).split(";\n") if x.strip().rstrip(";")] and \
           [x.strip().rstrip(";") + ";" for x in re.split(r";\s*\n", G.header_of(text) + "\n") if x.strip()]


def partial_fill(rng, schema, pop, p=0.3):
    """some instances lose the value of one required attribute (top level of any part)"""
    out, holes = [], []
    for idx, inst in enumerate(pop):
        m = inst.copy()
        if rng.random() < p:
            cands = [(pi, ai, a) for pi in range(len(inst.parts)) for ai, a in enumerate(G.part_attrs(schema, inst, pi))
                     if not a.optional]
            if cands:
                pi, ai, a = rng.choice(cands)
                m.parts[pi][1][ai] = ("null",)
                holes.append((idx, pi, ai, a.base))
        out.append(m)
    return out, holes


def assign_states(rng, pop, mode):
    """states per instance; instances referenced by a surviving instance are not deleted (main stream)"""
    if mode == "complete":
        st = ["completeSE"] * len(pop)       # incl. the instances whose required values are still missing
    elif mode == "nodelete":
        st = [rng.choice(STATES[:3]) for _ in pop]
    elif mode == "uniform":
        st = [rng.choice(STATES[:4])] * len(pop)
        if st[0] == "deleteSE":
            st = ["deleteSE"] * len(pop)
    else:
        st = [rng.choice(STATES) for _ in pop]
    by_id = {i.id: k for k, i in enumerate(pop)}
    changed = True
    while changed:
        changed = False
        for k, i in enumerate(pop):
            if st[k] == "deleteSE":
                continue
            for r in G.inst_refs(i):
                j = by_id.get(r)
                if j is not None and st[j] == "deleteSE":
                    st[j] = rng.choice(STATES[:3])
                    changed = True
    return st


def entries_of(path):
    ft, header, es = G.parse_p21(open(path).read())
    return ft, es


def exact_equal(a, b):
    """same entry text-wise (no numeric tolerance), the Part 21 comment in front of it included: used for byte-level claims"""
    return G.render_inst(a) == G.render_inst(b)


def run_case(ctx, h, m, schema, pop, holes, states, strict, workdir, tag, reuse=False, wc=0, header=None, start="exchange"):
    """one history: load, (set states,) save, load, save, load, save.  returns (kind, what) or None.
    start="exchange": the population comes from an exchange file and the states are set through the API;
    start="working":  the population comes from a working-session file written elsewhere (letters = states; its `D` entries are
                      skipped by the reader) - with reuse=True this is ReadWorkingFile(A) followed by ReadWorkingFile(B).
    reuse=True: the STEPfile / InstMgr of the previous history are kept (no `reset`): one editing session that loads,
    saves and reloads several times.  wc: the writeComments argument of every save (instances may carry Part 21 comments).
    header: body of the HEADER section of the file the history starts from; every save must reproduce it."""
    base = os.path.join(workdir, f"{tag}_base.p21")

    def hdr_cmp(where):
        """file ids of the header instances: implementation = id model; never two instances under one id"""
        a, b = h.cmd("hdr"), m.cmd("hids")
        ids = [x.split("/")[0] for x in a.split()[1:]]
        if len(set(ids)) != len(ids):
            return ("property", f"{where}: two header instances carry the same file id: {a}")
        if a != b:
            return ("correspondence", f"{where}: header instances held: impl {a} model {b}")
        return None

    def hdr_written(where, path):
        """the header a save writes = what the id model says WriteHeader writes"""
        got = header_ents(open(path).read())
        want = [bytes.fromhex(x).decode("latin-1") for x in m.cmd("hwrite")[2:].split()]
        want = [re.sub(r"(FILE_NAME\('(?:[^']|'')*',)'[^']*'", r"\1'<time>'", x) for x in want]
        if got != want:
            return ("correspondence", f"{where}: header written {got}, id model {want}")
        return None

    w = [os.path.join(workdir, f"{tag}_w{k}.p21") for k in range(4)]
    x = [os.path.join(workdir, f"{tag}_x{k}.p21") for k in range(3)]
    if not reuse:
        for side in (h, m):
            side.cmd(f"reset {strict}")
    if start == "working":
        text = G.render(schema.name, pop, working=[LETTER[s_] for s_ in states], header=header)
        open(base, "w").write(text)
        m.cmd("fileheader " + " ".join(G.hx(x) for x in header_ents(text)))
        rh = kv(h.cmd(f"readwork {base}"))
        rm = kv(m.cmd("readwork " + " | ".join(LETTER[s_] + " " + G.encode_inst(i, schema) for s_, i in zip(states, pop))))
        # from here on the session holds the entries that were not marked deleted
        keep = [k for k, s_ in enumerate(states) if s_ != "deleteSE"]
        ren = {k: j for j, k in enumerate(keep)}
        holes = [(ren[i], a, b_, c) for i, a, b_, c in holes if i in ren]
        pop, states = [pop[k] for k in keep], [states[k] for k in keep]
        if not pop:
            return None
    else:
        text = G.render(schema.name, pop, header=header)
        open(base, "w").write(text)
        m.cmd("fileheader " + " ".join(G.hx(x) for x in header_ents(text)))
        rh = kv(h.cmd(f"read {base}"))
        rm = kv(m.cmd("read " + " | ".join(G.encode_inst(i, schema) for i in pop)))
    want_header = G.header_of(text)
    hdr_issues = [hdr_cmp("after the first load")]
    d0h, d0m = h.cmd("dump"), m.cmd("dump")
    if start == "working":
        d0 = parse_dump(d0h)
        if [int(a) for a, _, _ in d0] != [i.id for i in pop] or [c for _, _, c in d0] != states:
            return ("property", f"reading a working-session file: the session holds {[(a, c) for a, _, c in d0]}, the file's entries not "
                                f"marked deleted are {[(i.id, s_) for i, s_ in zip(pop, states)]}")
    if int(rh["n"]) != len(pop):
        return ("property", f"exchange read created {rh['n']} of {len(pop)} instances")
    for k, st in enumerate(states):
        if start == "working":
            break
        a, b = h.cmd(f"setstate {k} {st}"), m.cmd(f"setstate {k} {st}")
        if a != "R ok" or b != "R ok":
            return ("correspondence", f"setstate {k}: impl {a} model {b}")
    # exchange round trip of the same session (for "same values as an exchange round trip")
    h.cmd(f"write {x[0]} 0 {wc}")
    # save / load / save / load / save
    h.cmd(f"writework {w[0]} {wc}")
    mw0 = m.cmd(f"writework {wc}")
    mh0 = m.cmd("header")
    hdr_issues.append(hdr_written("first save", w[0]))
    m.cmd("fileheader " + mh0[2:])
    r1h = kv(h.cmd(f"readwork {w[0]}"))
    r1m = kv(m.cmd("readwork " + mw0[2:]))
    hdr_issues.append(hdr_cmp("after reading the first save back"))
    d1h, d1m = h.cmd("dump"), m.cmd("dump")
    h.cmd(f"writework {w[1]} {wc}")
    mw1 = m.cmd(f"writework {wc}")
    hdr_issues.append(hdr_written("second save", w[1]))
    m.cmd("fileheader " + m.cmd("header")[2:])
    h.cmd(f"readwork {w[1]}")
    m.cmd("readwork " + mw1[2:])
    hdr_issues.append(hdr_cmp("after reading the second save back"))
    d2h, d2m = h.cmd("dump"), m.cmd("dump")
    h.cmd(f"writework {w[2]} {wc}")
    mw2 = m.cmd(f"writework {wc}")
    mh2 = m.cmd("header")
    hdr_issues.append(hdr_written("third save", w[2]))
    hdr_issues = [x for x in hdr_issues if x]
    # exchange round trip in a fresh session, same mode
    h.cmd(f"reset {strict}")
    h.cmd(f"read {x[0]}")
    h.cmd(f"write {x[1]} 0 {wc}")
    # the model follows (a continued session starts from this object: `_headerId` depends on what it has read)
    m.cmd(f"reset {strict}")
    try:
        x0 = open(x[0]).read()
        m.cmd("fileheader " + " ".join(G.hx(y) for y in header_ents(x0)))
        m.cmd("read " + " | ".join(G.encode_inst(i, schema) for _, i in G.parse_p21(x0)[2]))
        hdr_issues.append(hdr_cmp("after the exchange round trip"))
        hdr_issues = [y for y in hdr_issues if y]
    except Exception as ex:
        return ("property", f"the exchange file written by the session cannot be parsed: {ex}")
    try:
        ft0, e0 = entries_of(w[0]); ft1, e1 = entries_of(w[1]); ft2, e2 = entries_of(w[2])
        _, _, ex1 = G.parse_p21(open(x[1]).read())
    except Exception as ex:
        return ("property", f"a saved file cannot be parsed: {ex}")
    # ---------------- oracle
    for x in hdr_issues:
        if x[0] == "property":
            return x
    # the header is part of the file: every save carries the header of the file the session was loaded from (time stamp aside)
    for k in range(3):
        got = G.header_of(open(w[k]).read())
        if got != want_header:
            return ("property", f"save {k + 1}: the HEADER section is not the one of the file the session was loaded from:\n{got}\n--- expected ---\n{want_header}")
    if ft0 != "working" or ft1 != "working":
        return ("property", "saved file is not in working-session format")
    # first save: every instance with its state letter
    if [(l, i.id) for l, i in e0] != [(LETTER[s], i.id) for s, i in zip(states, pop)]:
        return ("property", f"first save does not list every instance with its state letter: {[(l, i.id) for l, i in e0]} "
                            f"expected {[(LETTER[s], i.id) for s, i in zip(states, pop)]}")
    # ... and with the VALUES of the file the session was loaded from: loading changes no value, whatever state the instance is
    # saved in - an instance marked complete may still lack a required value, and in a strict STEPfile that `$` stays a `$`
    # (only a lenient one substitutes 0 / 0.0 / '' for an unset required INTEGER / REAL / NUMBER / STRING: C15)
    subst_ok = {(pop[idx].id, pi, ai) for idx, pi, ai, base in holes if not strict and base in SUBST}
    for (l, i), orig in zip(e0, pop):
        same = G.inst_equal(i, orig)
        if not same and subst_ok:
            j0, j1 = orig.copy(), i.copy()
            for pi in range(len(j0.parts)):
                for ai in range(len(j0.parts[pi][1])):
                    if (orig.id, pi, ai) in subst_ok and pi < len(j1.parts) and ai < len(j1.parts[pi][1]):
                        j1.parts[pi][1][ai] = j0.parts[pi][1][ai]
            same = G.inst_equal(j0, j1)
        if not same:
            return ("property", f"first save ({'strict' if strict else 'lenient'} STEPfile): instance #{orig.id} saved as {l}{G.render_inst(i)}, the file the session "
                                f"was loaded from ({start} file) has {G.render_inst(orig)} in state {states[pop.index(orig)]}")
    live = [(s, i) for s, i in zip(states, pop) if s != "deleteSE"]
    d1 = parse_dump(d1h)
    if [int(a) for a, _, _ in d1] != [i.id for _, i in live]:
        return ("property", f"after reading the saved session back the instances are {[a for a, _, _ in d1]}, "
                            f"expected exactly the not-deleted ones {[i.id for _, i in live]}")
    if [c for _, _, c in d1] != [s for s, _ in live]:
        return ("property", f"editing states after reading back: {[c for _, _, c in d1]}, saved {[s for s, _ in live]}")
    if [b for _, b, _ in d1] != [i.type_name() for _, i in live]:
        return ("property", f"types after reading back: {[b for _, b, _ in d1]}")
    # first save carries every instance's comment when comments are written
    if wc:
        for (l, i), orig in zip(e0, pop):
            if (i.comment or None) != (orig.comment or None):
                return ("property", f"first save (writeComments=1): instance #{i.id} carries comment {i.comment!r}, the session's instance has {orig.comment!r}")
    # values (and the comment that belongs to the instance) = those of an exchange round trip (same mode)
    exch = {i.id: i for _, i in ex1}
    for l, i in e1:
        if i.id not in exch or not G.inst_equal(i, exch[i.id]):
            return ("property", f"instance #{i.id}: working-session round trip gives {G.render_inst(i)}, exchange round trip "
                                f"{G.render_inst(exch[i.id]) if i.id in exch else 'nothing'}")
        if (i.comment or None) != (exch[i.id].comment or None):
            return ("property", f"instance #{i.id}: after the working-session round trip its Part 21 comment is {i.comment!r}, after an "
                                f"exchange round trip {exch[i.id].comment!r}")
    # second save = first save without its D entries (byte-identical entries), third = second byte for byte
    e0_live = [(l, i) for l, i in e0 if l != "D"]
    hole_pos = {(pop[idx].id, pi, ai) for idx, pi, ai, base in holes if not strict and base in SUBST}
    if len(e0_live) != len(e1):
        return ("property", f"second save has {len(e1)} entries, first had {len(e0_live)} not-deleted ones")
    for (l0, i0), (l1, i1) in zip(e0_live, e1):
        same = l0 == l1 and exact_equal(i0, i1)
        if not same and l0 == l1 and i0.id == i1.id and hole_pos:
            # lenient mode substitutes unset required INTEGER/REAL/NUMBER/STRING on reading (C15): allowed there only
            j0, j1 = i0.copy(), i1.copy()
            for pi in range(len(j0.parts)):
                for ai in range(len(j0.parts[pi][1])):
                    if (i0.id, pi, ai) in hole_pos and pi < len(j1.parts) and ai < len(j1.parts[pi][1]):
                        j1.parts[pi][1][ai] = j0.parts[pi][1][ai]
            same = exact_equal(j0, j1)
        if not same:
            return ("property", f"second save differs from the first at #{i0.id}: {l0}{G.render_inst(i0)} vs {l1}{G.render_inst(i1)}")
    t1, t2 = mask(open(w[1]).read()), mask(open(w[2]).read())
    if t1 != t2:
        return ("property", "third save is not byte-identical to the second (time stamp aside)")
    if not hole_pos and not any(s == "deleteSE" for s in states):
        if mask(open(w[0]).read()) != t1:
            return ("property", "second save is not byte-identical to the first (nothing deleted, time stamp aside)")
    # ---------------- correspondence
    for nm, a, b in (("after exchange read", d0h, d0m), ("after first load", d1h, d1m), ("after second load", d2h, d2m)):
        if a != b:
            return ("correspondence", f"dump {nm}: impl {a[:300]} model {b[:300]}")
    for nm, es, mw in (("first save", e0, mw0), ("second save", e1, mw1), ("third save", e2, mw2)):
        body = mw[2:].strip()
        ment = []
        for g in (body.split(" | ") if body else []):
            ws = g.split()
            inst, rest = G.decode_words(ws[1:])
            ment.append((ws[0], inst))
        if [(l, i.id, i.comment or None) for l, i in ment] != [(l, i.id, i.comment or None) for l, i in es] or \
                not all(G.inst_equal(a[1], b[1]) for a, b in zip(ment, es)):
            return ("correspondence", f"{nm}: impl {[(l, G.render_inst(i)) for l, i in es][:6]} model {[(l, G.render_inst(i)) for l, i in ment][:6]}")
    for nm, mh, path in (("first save", mh0, w[0]), ("third save", mh2, w[2])):
        mhe = [bytes.fromhex(x).decode("latin-1") if x != "-" else "" for x in mh[2:].split()]
        if mhe != header_ents(open(path).read()):
            return ("correspondence", f"{nm}: header impl {header_ents(open(path).read())} model {mhe}")
    for key in ("incr", "n", "max"):
        if r1h[key] != r1m[key]:
            return ("correspondence", f"readwork {key}: impl {r1h[key]} model {r1m[key]}")
    for x in hdr_issues:
        return x
    return None


HEADER_HISTORIES = [
    # (function, header entities) ...; D/N/S = FILE_DESCRIPTION / FILE_NAME / FILE_SCHEMA, l/c/p = SECTION_LANGUAGE / SECTION_CONTEXT /
    # FILE_POPULATION.  Every history starts from a new STEPfile object.  The orders that are not the one Part 21 prescribes are
    # compared with the id model only (theorem C16_header_order_witness says what happens there).
    [("readwork", "DNSlcpl")], [("readwork", "lDNS")], [("append", "DNlS"), ("append", "DNSlclc"), ("readwork", "DSNpp")],
    [("read", "DNSlcp"), ("read", "DNSlcp"), ("readwork", "DNSl"), ("readwork", "DNS"), ("readwork", "DNSllll")],
    [("append", "pDNS"), ("read", "cDNSl")], [("readwork", "DNSlcplcplcp"), ("append", "DNSp"), ("read", "DNS"), ("append", "DNSl")],
    [("append", "DNS"), ("append", "DNSlc"), ("appendwork", "DNSlcp")], [("readwork", "NSD")], [("readwork", "DS")], [("read", "l")],
]


def header_histories(h, m, schema, workdir):
    """file ids of the header instances and the header written, implementation against the id model, on hand-made histories"""
    ent = {"D": "FILE_DESCRIPTION(('a'),'2;1');", "N": "FILE_NAME('n','2000-01-01T00:00:00',('a'),('o'),'p','s','z');",
           "S": f"FILE_SCHEMA(('{schema.name.upper()}'));", "l": "SECTION_LANGUAGE($,'en');", "c": "SECTION_CONTEXT($,('x'));",
           "p": "FILE_POPULATION('a','b',$);"}
    n = 0
    for hist in HEADER_HISTORIES:
        for side in (h, m):
            side.cmd("reset 0")
        for k, (cmd, spec) in enumerate(hist):
            ents = [ent[ch] for ch in spec]
            working = cmd in ("readwork", "appendwork")
            text = ("STEP_WORKING_SESSION;" if working else "ISO-10303-21;") + "\nHEADER;\n" + "".join(e + "\n" for e in ents) + \
                "ENDSEC;\nDATA;\nENDSEC;\n" + ("END-STEP_WORKING_SESSION;" if working else "END-ISO-10303-21;") + "\n"
            f = os.path.join(workdir, "hh.p21")
            open(f, "w").write(text)
            m.cmd("fileheader " + " ".join(G.hx(x) for x in ents))
            h.cmd(f"{cmd} {f}")
            rm = m.cmd(cmd)
            if rm.startswith("R bad"):
                return f"header history {hist[:k + 1]}: the model does not know `{cmd}`"
            a, b_ = h.cmd("hdr"), m.cmd("hids")
            n += 1
            if a != b_:
                return f"header history {hist[:k + 1]}: header instances held: impl {a} model {b_}"
            out = os.path.join(workdir, "hh_out.p21")
            h.cmd(f"writework {out} 0")
            got = header_ents(open(out).read())
            want = [re.sub(r"(FILE_NAME\('(?:[^']|'')*',)'[^']*'", r"\1'<time>'", bytes.fromhex(x).decode("latin-1")) for x in m.cmd("hwrite")[2:].split()]
            names = ["FILE_DESCRIPTION", "FILE_NAME", "FILE_SCHEMA"]
            same = len(got) == len(want) and all(
                (g.split("(")[0] == names[j] if (w_ == "<default>" and j < 3) else g == w_) for j, (g, w_) in enumerate(zip(got, want)))
            if not same:
                return f"header history {hist[:k + 1]}: header written {got}, id model {want}"
    return None


WS_KINDS = ["INTEGER", "REAL", "STRING", "BOOLEAN", "LOGICAL", "BINARY", "ENUM", "DEF_REAL", "DEF_INT", "ENTITY", "SELECT_E", "SELECT_T",
            "SELECT_M", "AGG_INT", "AGG_REAL", "AGG_ENT", "AGG_ENTS", "AGG_SEL", "AGG_SELE", "AGG_AGG"]


def ws_bytes_correspondence(ctx, b, n_cases):
    """the byte-level working-session layer (lean/StepModel/WsBytes.lean on top of the C01/C03 reader; driver m_c16ws) against the code:
    a working-session file with every state letter (deleted entries included) is read by both; compared: the instances the session
    holds (ids, types, states), the counters, and the DATA section a save of that session writes (bytes)."""
    from vlib import p21_gen_rw as W
    ws_exe = ctx.model_exe("m_c16ws")
    if not os.path.exists(ws_exe):
        return "m_c16ws not built"
    s = G.gen_schema(ctx.rng, "wb", n_entities=5, kinds=WS_KINDS, cover_all_kinds=True, p_optional=0.4, with_complex=True)
    wd = os.path.join(ctx.work, "wb")
    exe, _ = build_schema(b, s, wd, False)
    dl = W.dict_lines(s)
    m = Harness(ws_exe, os.environ.copy())
    h = Harness(exe, b.env())
    first, n_ok, n_unmodelled = None, 0, 0
    try:
        for l in dl:
            if m.cmd(l) != "ok":
                return f"m_c16ws rejected dictionary line {l!r}"
        for ci in range(n_cases):
            pop = G.gen_population(ctx.rng, s, ctx.rng.randint(1, 6), p_null_optional=0.3)
            states = assign_states(ctx.rng, pop, ["any", "nodelete", "uniform"][ci % 3])
            strict = ci % 2
            text = G.render(s.name, pop, working=[LETTER[x] for x in states])
            path = os.path.join(wd, f"wb{ci}.wsf")
            open(path, "w").write(text)
            h.cmd(f"reset {strict}")
            rh = kv(h.cmd(f"readwork {path}"))
            dh = [(a, b_, c) for a, b_, c in parse_dump(h.cmd("dump"))]
            outp = os.path.join(wd, f"wb{ci}_out.wsf")
            h.cmd(f"writework {outp} 0")
            mr = m.cmd(f"readws {strict} " + (W.data_bytes(text).encode("latin-1").hex() or "-"))
            ctx.count(1, key=("wsbytes", ci))
            if mr.startswith("X unmodelled"):
                n_unmodelled += 1
                ctx.hist("byte-level working-session layer", "unmodelled by the C01 reader: " + mr[13:40])
                continue
            if not mr.startswith("R "):
                first = first or f"history {ci}: model reply {mr[:200]!r}"
                continue
            head, _, body = mr.partition("|")
            mk = kv(head)
            dm = [tuple(w.split("/")[:3]) for w in body.split()]
            diff = None
            if [(str(a), b_, c) for a, b_, c in dh] != [(a, b_, c) for a, b_, c in dm]:
                diff = f"session impl {dh} model {dm}"
            elif int(mk["created"]) != int(rh["n"]):
                diff = f"instances created impl {rh['n']} model {mk['created']}"
            else:
                wtext = open(outp, encoding="latin-1").read()
                a_ = wtext.index("DATA;\n") + 6
                data = wtext[a_:wtext.index("ENDSEC;", a_)]
                mw = m.cmd("writews")
                mbytes = bytes.fromhex(mw[2:]).decode("latin-1") if mw.startswith("W ") and mw[2:] != "-" else ""
                if data != mbytes:
                    diff = f"DATA section written by a save: impl {data[:300]!r} model {mbytes[:300]!r}"
            if diff:
                first = first or f"history {ci} (strict={strict}) file {text[-600:]!r}: {diff}"
            else:
                n_ok += 1
                ctx.hist("byte-level working-session layer", "agrees")
    finally:
        h.close(); m.close()
    ctx.cov["correspondence"]["ws_bytes"] = {"histories": n_cases, "agree": n_ok, "unmodelled": n_unmodelled}
    return first


K_MANY_DELETED = "ws:more-than-maxErrorCount-deleted-entries"
K_LONG_COMMENT = "ws:comment-above-8192"


def many_deleted(ctx, h, schema, workdir, n):
    """a saved session whose DATA section starts with n entries marked deleted, followed by one live instance, opened in a fresh
    STEPfile: the live instance must be there (oracle only; the model: DelBound, C16_deleted_not_counted)"""
    t0 = schema.targets[0].upper()
    pop = [G.Inst(j + 1, [(t0, [("tok", "1"), ("null",), ("null",)])]) for j in range(n + 1)]
    path = os.path.join(workdir, f"many_{n}.wsf")
    open(path, "w").write(G.render(schema.name, pop, working=["D"] * n + ["C"]))
    h.cmd("reset 1")
    r = kv(h.cmd(f"readwork {path}"))
    d = parse_dump(h.cmd("dump"))
    os.unlink(path)
    ctx.count(1, key=("many-deleted", n))
    ctx.hist("leading deleted instances", str(n))
    if [int(a) for a, _, _ in d] != [n + 1]:
        return (f"a working-session file with {n} entries marked deleted in front of `C#{n + 1}={t0}(1,$,$);`: after ReadWorkingFile the session "
                f"holds {[a for a, _, _ in d]} (severity {r['sev']}), expected exactly the not-deleted instance [{n + 1}]")
    return None


def closed_wrt(pop):
    ids = {i.id for i in pop}
    return all(r in ids for i in pop for r in G.inst_refs(i))


def run(ctx):
    ctx.trusted += [
        "tools/extract.d/stepfile.py, enums.py (regex translation of WriteWorkingData / EntityWfState / ReadData1/2 / ReadInstance tables)",
        "hand-written model lean/StepModel/Session.lean (modelled, tied by correspondence); a saved file is modelled as its list "
        "of entries (letter + instance); the bytes of an entry are produced by the same STEPwrite as in an exchange file",
        "harness/h_p21.cc, vlib/p21_gen.py (what they do not generate is not compared)",
    ]
    ctx.assumptions += [
        "no surviving instance refers to an instance marked deleted (then the saved population is not closed; the reader reports "
        "the dangling reference - C03/C05 territory)",
        "states are complete / incomplete / new / deleted; a node without state information (noStateSE) is not written at all "
        "(theorem C16_nostate_dropped_witness)",
        "'saving again reproduces the file' is read as: entries of deleted instances (prefix D) disappear once the deletion is "
        "carried out by loading; everything else is byte-identical, and from the second save on the whole file is",
        "lenient mode: unset required INTEGER/REAL/NUMBER/STRING values are substituted on reading (C15), in working-session "
        "files exactly as in exchange files",
    ]
    from checks.c15 import baseline_generated, GENERATED_FILES
    baseline_generated(GENERATED_FILES)
    proof_ok = ctx.lean("StepModel.Props.C16", exes=["m_c16", "m_c16ws"], extractors=EXTRACTORS)
    if not proof_ok:
        from vlib import lean as L
        L.lake_build(["m_c16"])
    b = ctx.build("asan" if ctx.tier == "thorough" else "plain")
    model_exe = ctx.model_exe("m_c16")
    if not os.path.exists(model_exe):
        return
    quick = ctx.tier == "quick"
    n_schemas, n_pops, n_assign = (3, 8, 6) if quick else (10, 20, 24)
    schemas = [G.gen_schema(ctx.rng, f"ws{si}", n_entities=ctx.rng.randint(3, 6), cover_all_kinds=(si == 0),
                            p_optional=0.4, with_complex=True, extra=(si % 2 == 1)) for si in range(n_schemas)]
    t0 = time.time()
    with cf.ThreadPoolExecutor(max_workers=8) as ex:
        built = list(ex.map(lambda s: build_schema(b, s, os.path.join(ctx.work, s.name), False), schemas))
    ctx.cov["correspondence"]["build_s"] = round(time.time() - t0, 1)
    stop = False
    for s, (exe, _) in zip(schemas, built):
        wd = os.path.join(ctx.work, s.name)
        h, m = Harness(exe, b.env()), Model(model_exe, s)
        t, n, corr = time.time(), 0, []
        try:
            check_schema_table(h, s)
            if s is schemas[0]:
                e = header_histories(h, m, s, wd)
                if e:
                    ctx.broken.append(("correspondence header id model vs STEPfile header instances", e))
                # ReadComment had a limit of 8192 characters (the record behind a longer comment was lost) until repair C01-9; the
                # comment theorems carry `CommentBound`, vacuous while `Generated.commentLengthLimit = none` (C16_comments_any_length).
                # Comments at, just above and far above the old limit must round-trip.
                t0 = s.targets[0].upper()
                for nlen in (8192, 8193, 20000):
                    lp = [G.Inst(1, [(t0, [("tok", "1"), ("null",), ("null",)])]),
                          G.Inst(2, [(t0, [("tok", "2"), ("null",), ("null",)])], comment="/*" + "c" * nlen + "*/")]
                    r = run_case(ctx, h, m, s, lp, [], ["completeSE", "completeSE"], 0, wd, "lc", wc=1)
                    ctx.hist("instance comment length", str(nlen))
                    if r and r[0] == "property":
                        ctx.violation(K_LONG_COMMENT if nlen > 8192 else "ws:comment-at-8192", f"instance comment of {nlen} characters: " + r[1],
                                      {"schema_express": s.express(), "schema_name": s.name, "strict": 0, "states": ["completeSE", "completeSE"],
                                       "file": G.render(s.name, lp), "writeComments": 1, "header": None, "start": "exchange",
                                       "how": "exp2cxx the schema, link harness/h_p21.cc; reset 0; read FILE; writework W 1; readwork W; dump"})
                    elif r:
                        ctx.broken.append(("correspondence Session model vs STEPfile working-session read/write", f"comment of {nlen} characters: " + r[1]))
            for pi_ in range(n_pops):
                pop0 = G.gen_population(ctx.rng, s, ctx.rng.randint(1, 5 if quick else 8), p_null_optional=0.3)
                pop, holes = partial_fill(ctx.rng, s, pop0, p=0.0 if pi_ % 3 == 0 else 0.35)
                if pi_ % 2 == 0:
                    pop = G.add_comments(ctx.rng, pop, 0.4)
                if pi_ % 4 != 3:
                    # strings with every delimiter of the file grammar inside (`;`, `'`, `#`, `(`, `)`, comment brackets,
                    # section keywords), in instances of EVERY state - also in the entries the reader only skips
                    pop = G.restring(ctx.rng, pop, G.TRICKY_STRS, 0.6)
                prev_case = None
                for ai in range(n_assign):
                    # "complete" on ai = 1, 5 (session loaded from a working-session file) and ai = 3 (from an exchange file, states set
                    # through the API): every instance marked complete although ~35 % of them lack a required value
                    mode = ["any", "complete", "nodelete", "complete", "uniform", "complete"][ai % 6]
                    states = assign_states(ctx.rng, pop, mode)
                    # a run of deleted instances in FRONT of everything else (boundary values of the reader's give-up rules)
                    nlead = [0, 0, 1, 49, 50, 51, 120, 0][(pi_ * n_assign + ai) % 8]
                    pop_h, holes_h, states_h = pop, holes, states
                    if nlead:
                        base_id = max(i.id for i in pop) + 1000
                        lead = [G.Inst(base_id + j, [(s.targets[0].upper(), [("tok", str(j % 7)), ("null",), ("tok", ctx.rng.choice(G.TRICKY_STRS))])])
                                for j in range(nlead)]
                        pop_h = lead + pop
                        states_h = ["deleteSE"] * nlead + states
                        holes_h = [(i + nlead, a, b_, c) for i, a, b_, c in holes]
                    ctx.hist("leading deleted instances", str(nlead))
                    pop, holes, states, saved = pop_h, holes_h, states_h, (pop, holes, states)
                    # sessions: ai%3 = 1, 2 continue in the STEPfile of the previous history, except ai%6 = 4: a working-session file
                    # opened in a FRESH STEPfile object (what a new process does), with optional header entities
                    reuse = ai % 3 != 0 and ai % 6 != 4
                    strict = pi_ % 2 if True else 0    # the mode is fixed when the STEPfile is made: constant per session
                    wc = 1 if ai % 4 != 3 else 0
                    header = G.gen_header(ctx.rng, s.name, n_extra=[0, 1, 3, 2, 6, 1, 4][ai % 7], repeat=ai % 7 in (4, 6))   # 3 and 4+ header entities (also more of them than `_headerId` starts with, repeated kinds), new contents every time
                    start = "working" if ai % 3 != 0 else "exchange"      # ai%3 = 1, 2: ReadWorkingFile(A) then ReadWorkingFile(B) in one STEPfile
                    r = run_case(ctx, h, m, s, pop, holes, states, strict, wd, "c", reuse=(reuse and ai > 0), wc=wc, header=header, start=start)
                    ctx.hist("history starts from", start + " file")
                    ctx.hist("header entities", str(header.count(";\n")))
                    ctx.hist("writeComments", str(wc))
                    ctx.hist("instances carrying a comment", str(sum(1 for i in pop if i.comment)))
                    ctx.hist("session", "continued" if (reuse and ai > 0) else "fresh")
                    if r and r[0] == "correspondence":
                        # oracle satisfied, model and code differ: remember, keep searching for a failing input first
                        corr.append((r, pop, holes, states, strict))
                        r = None
                    n += 1
                    if not r:
                        prev_case = (pop, holes, states, header, start)
                        pop, holes, states = saved
                    ctx.count(1, key=(s.name, pi_, ai))
                    ctx.hist("mode", "strict" if strict else "lenient")
                    for st in states:
                        ctx.hist("state", st)
                    ctx.hist("instances with an unset required attribute", str(len(holes)))
                    ctx.hist("deleted instances", str(sum(1 for x in states if x == "deleteSE")))
                    if r:
                        kind, what = r
                        # does it need the continued session?  (then the previous history is part of the failing input)
                        previous = None
                        if reuse and ai > 0 and prev_case is not None:
                            fresh = run_case(ctx, h, m, s, pop, holes, states, strict, wd, "s", wc=wc, header=header, start=start)
                            if not (fresh and fresh[0] == kind):
                                previous = prev_case
                        # shrink: drop instances while the same kind of problem persists
                        cur = (pop, holes, states)

                        def fails(p_, h_, s_):
                            if previous is not None:
                                run_case(ctx, h, m, s, previous[0], previous[1], previous[2], strict, wd, "sp", wc=wc, header=previous[3], start=previous[4])
                            rr = run_case(ctx, h, m, s, p_, h_, s_, strict, wd, "s", reuse=previous is not None, wc=wc, header=header, start=start)
                            return rr is not None and rr[0] == kind
                        changed, budget = True, 40
                        while changed and budget > 0:
                            changed = False
                            p_, h_, s_ = cur
                            for j in range(len(p_)):
                                cand = p_[:j] + p_[j + 1:]
                                if not cand or not closed_wrt(cand):
                                    continue
                                hc = [(i - (1 if i > j else 0), a, b_, c) for i, a, b_, c in h_ if i != j]
                                sc = s_[:j] + s_[j + 1:]
                                budget -= 1
                                if fails(cand, hc, sc):
                                    cur, changed = (cand, hc, sc), True
                                    break
                        p_, h_, s_ = cur
                        rr = (None if previous is not None else run_case(ctx, h, m, s, p_, h_, s_, strict, wd, "s", wc=wc, header=header, start=start)) or r
                        rep = {"schema_express": s.express(), "schema_name": s.name, "strict": strict,
                               "file": G.render(s.name, p_), "states": s_, "writeComments": wc, "header": header, "start": start,
                               "holes": [[i, a, b_, c] for i, a, b_, c in h_],
                               "previous_history_in_same_session": None if previous is None else {
                                   "file": G.render(s.name, previous[0]), "states": previous[2], "header": previous[3], "start": previous[4],
                                   "holes": [[i, a, b_, c] for i, a, b_, c in previous[1]]},
                               "how": "exp2cxx the schema, link harness/h_p21.cc; reset <strict>; read FILE; setstate i <state>...; "
                                      "writework W0 <writeComments>; readwork W0; dump; writework W1 <wc>; readwork W1; writework W2 <wc>"}
                        if kind == "property":
                            key = "ws:" + ("strict" if strict else "lenient") + ":" + ",".join(
                                f"{LETTER[x]}{i.type_name()}" for x, i in zip(s_, p_))
                            ctx.violation(key[:300], rr[1], rep)
                        else:
                            ctx.broken.append(("correspondence Session model vs STEPfile working-session read/write",
                                               f"{rr[1]}; minimal: {json.dumps(rep['file'])[-900:]} states {s_} (the oracle finds the property intact on it)"))
                        stop = True
                        break
                if stop:
                    break
            if not stop and corr:
                (kind, what), p_, h_, s_, strict = corr[0]
                ctx.broken.append(("correspondence Session model vs STEPfile working-session read/write",
                                   f"{what}; {len(corr)} disagreeing histories; first: {json.dumps(G.render(s.name, p_))[-900:]} states {s_} "
                                   "(the oracle finds the property intact on every generated history)"))
                stop = True
        finally:
            h.close(); m.close()
        ctx.cov["correspondence"][s.name] = {"histories": n, "disagreements": len(corr), "wall_s": round(time.time() - t, 1)}
        if stop:
            break
    if not stop:
        e = ws_bytes_correspondence(ctx, b, 40 if quick else 300)
        if e:
            ctx.broken.append(("correspondence byte-level working-session layer (WsBytes) vs ReadWorkingFile / WriteWorkingFile", e))
    ctx.sample({"schema": schemas[0].express()[:1000]})
    ctx.cov["rule"] = ("per generated schema: conforming populations, two thirds of them with ~35% of the instances missing one "
                       "required value; state assignments complete/incomplete/new/deleted (random, no-deletion, uniform; deleted "
                       "only when unreferenced by survivors); strict and lenient alternate; each history = exchange read, setstate*, "
                       "save, load, save, load, save + an exchange round trip of the same session")


def replay(ctx, path):
    d = json.load(open(path))
    r = d.get("replay", d)
    ctx.lean("StepModel.Props.C16", exes=["m_c16"], extractors=EXTRACTORS)
    b = ctx.build("plain")
    wd = os.path.join(ctx.work, "replay")
    os.makedirs(wd, exist_ok=True)
    exp = os.path.join(wd, r["schema_name"] + ".exp")
    open(exp, "w").write(r["schema_express"])
    exe = os.path.join(wd, "h_p21")
    B.gen_schema_lib(b, exp, os.path.join(wd, "gen"), [HARNESS], exe)
    schema = _SchemaFromExpress(r["schema_express"])
    if "leading_deleted" in r:
        h = Harness(exe, b.env())
        try:
            e = many_deleted(ctx, h, schema, wd, int(r["leading_deleted"]))
            print("result:", e)
            if e:
                ctx.violation(d.get("key", "replay"), e, r)
        finally:
            h.close()
        return
    pop = [i for _, i in G.parse_p21(r["file"])[2]]
    h = Harness(exe, b.env())
    m = Model(ctx.model_exe("m_c16"), schema)
    try:
        pv = r.get("previous_history_in_same_session")
        if pv:
            ppop = [i for _, i in G.parse_p21(pv["file"])[2]]
            run_case(ctx, h, m, schema, ppop, [tuple(x) for x in pv.get("holes", [])], pv["states"], r["strict"], wd, "rp",
                     wc=r.get("writeComments", 0), header=pv.get("header"), start=pv.get("start", "exchange"))
        rr = run_case(ctx, h, m, schema, pop, [tuple(x) for x in r.get("holes", [])], r["states"], r["strict"], wd, "r",
                      reuse=bool(pv), wc=r.get("writeComments", 0), header=r.get("header"), start=r.get("start", "exchange"))
        print("result:", rr)
        if rr and rr[0] == "property":
            ctx.violation(d.get("key", "replay"), rr[1], r)
    finally:
        h.close(); m.close()


def _SchemaFromExpress(text):
    """rebuild the p21_gen.Schema from the EXPRESS text the generator wrote (replays carry only the text)"""
    name = re.search(r"SCHEMA (\w+);", text).group(1)
    inv = {}
    for k in list(G.KIND_POOL) + list(G.EXTRA_KINDS) + ["SELECT_S"]:
        if k not in ("ENTITY", "AGG_ENT", "AGG_ENTS"):
            inv[G.Attr("x", k).express_type()] = k

    def attr(nm, opt, ty):
        ty = ty.strip()
        if ty in inv:
            return G.Attr(nm, inv[ty], opt)
        m = re.match(r"(LIST|SET) \[0:\?\] OF (\w+)$", ty)
        if m:
            return G.Attr(nm, "AGG_ENT" if m.group(1) == "LIST" else "AGG_ENTS", opt, m.group(2))
        return G.Attr(nm, "ENTITY", opt, ty)
    ents = []
    for m in re.finditer(r"ENTITY (\w+)(.*?)END_ENTITY;", text, re.S):
        nm, body = m.group(1), m.group(2)
        sup = re.search(r"SUBTYPE OF \((\w+)\)", body)
        attrs = [attr(am.group(1), bool(am.group(2)), am.group(3))
                 for am in re.finditer(r"^\s+(\w+) : (OPTIONAL )?([^;]+);", body, re.M)]
        redecl = [(rm.group(1), attr(rm.group(2), False, rm.group(3)))
                  for rm in re.finditer(r"^\s+SELF\\(\w+)\.(\w+) : ([^;]+);", body, re.M)]
        ents.append(G.Entity(nm, sup.group(1) if sup else None, attrs, andor_root=" ANDOR " in body, redecl=redecl))
    return G.Schema(name, ents, ["t0", "t1"])

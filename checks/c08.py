"""C08 — complex instances are accepted exactly when the supertype constraints allow them.

proof:           lean/StepModel/Props/C08.lean (order irrelevance; tree meaning vs. the declarative rule; witnesses)
regenerated tie: tools/extract.d/c08_complex.py -> Generated/ComplexGen.lean (LISTEND, enum orders, OrList start values,
                 null-safety of the backwards step in MultList::tryNext)
correspondence:  for generated inheritance graphs the scratch exp2cxx writes compstructs.cc; it is compiled unchanged with
                 harness/h_complex.cc; (1) the real tree is compared with Lean `collectOf`; (2) ALL 2^n subsets x several
                 part orders go to the real ComplexCollect::supports and to the Lean matcher model (m_c08) on the real tree;
                 (3) a sample goes end-to-end through STEPfile with a generated schema library (harness/h_complex_e2e.cc)
oracle:          `Spec.Legal` (Lean, cross-checked by an independent Python evaluation) vs the real verdict on every subset;
                 a crash/sanitizer abort of the real matcher is a failing input by itself; verdicts must not depend on order
"""
import concurrent.futures as cf, glob, json, os, subprocess, sys, time
from vlib import build as B

HERE = os.path.dirname(os.path.abspath(__file__))
VERIF = os.path.dirname(HERE)
sys.path.insert(0, os.path.join(VERIF, "tools"))
import c08_gen as G  # noqa: E402

PROPS = "StepModel.Props.C08"
FLAVOR = "asan"   # the unchecked null member call in trynext.cc is only *observable* under UBSan in a -O0 build


# ---------------------------------------------------------------- fixed shapes (always run, before the random graphs)
def E(name, supers=(), expr=None, abstract=False):
    return {"name": name, "abstract": abstract, "supers": list(supers), "expr": expr}


def ent(n):
    return ("ent", n)


FIXED = [
    ("oneof-andor", [E("a", expr=("andor", ("oneof", [ent("b"), ent("c")]), ent("d"))), E("b", "a"), E("c", "a"), E("d", "a")]),
    ("oneof-flat", [E("a", expr=("oneof", [ent("b"), ent("c")])), E("b", "a"), E("c", "a")]),
    ("and-implicit", [E("a", expr=("and", ent("b"), ent("c")), abstract=True), E("b", "a"), E("c", "a"), E("d", "a"), E("e", "a")]),
    ("nested", [E("a", expr=("oneof", [("and", ent("b"), ent("c")), ("andor", ent("d"), ("oneof", [ent("e"), ent("f")]))])),
                E("b", "a"), E("c", "a"), E("d", "a"), E("e", "a"), E("f", "a")]),
    ("sub-supertype", [E("a", expr=("oneof", [ent("b"), ent("c")])), E("b", "a"),
                       E("c", "a", expr=("oneof", [ent("f"), ent("g")])), E("f", "c"), E("g", "c"),
                       E("d", "a"), E("e", "a")]),
    ("abstract-chain", [E("a", abstract=True), E("b", "a", abstract=True), E("c", "b"), E("d", "b")]),
    ("diamond", [E("a", expr=("andor", ent("b"), ent("c"))), E("b", "a"), E("c", "a"), E("d", ["b", "c"])]),
    ("two-roots", [E("a", expr=("oneof", [ent("c"), ent("d")])), E("b"), E("c", ["a", "b"]), E("d", "a"), E("e", "b")]),
    ("two-trees", [E("a"), E("b", "a"), E("c"), E("d", "c"), E("e")]),
    ("first-child-or", [E("h", expr=("and", ent("g"), ent("b"))), E("g", "h", expr=("oneof", [ent("a"), ent("c")])),
                        E("b", "h"), E("a", "g"), E("c", "g")]),
]
for _nm, _s in FIXED:
    for _e in _s:
        if isinstance(_e["supers"], str):
            _e["supers"] = [_e["supers"]]


# ---------------------------------------------------------------- building the real side
class Real:
    """compstructs.cc of every schema compiled unchanged into one harness binary"""

    def __init__(self, ctx, b, schemas, tag):
        self.b, self.schemas = b, schemas
        self.dir = os.path.join(ctx.work, tag)
        os.makedirs(self.dir, exist_ok=True)
        self.fail = {}
        with cf.ThreadPoolExecutor(int(B.NPROC)) as ex:
            res = list(ex.map(self._prep, range(len(schemas))))
        for k, err in res:
            if err:
                self.fail[k] = err
        good = [k for k in range(len(schemas)) if k not in self.fail]
        self.index = {k: i for i, k in enumerate(good)}
        tbl = '#include "clstepcore/complexSupport.h"\n' + "".join(f"ComplexCollect *gencomplex_{k}();\n" for k in good)
        tbl += "typedef ComplexCollect*(*gcfn)();\ngcfn gc_table[] = {" + ",".join(f"gencomplex_{k}" for k in good) + (",0" if not good else "") + "};\n"
        tbl += f"int gc_count = {len(good)};\n"
        open(os.path.join(self.dir, "gc_table.cc"), "w").write(tbl)
        self.exe = os.path.join(self.dir, "h_complex")
        B.compile_driver(b, [os.path.join(VERIF, "harness", "h_complex.cc"), os.path.join(self.dir, "gc_table.cc")] +
                         [os.path.join(self.dir, f"cs{k}.o") for k in good], self.exe)

    def sdir(self, k):
        return os.path.join(self.dir, f"s{k}")

    def _prep(self, k):
        d = self.sdir(k)
        os.makedirs(d, exist_ok=True)
        open(os.path.join(d, "s.exp"), "w").write(G.render_schema(self.schemas[k]))
        r = subprocess.run([self.b.tool("exp2cxx"), "s.exp"], cwd=d, env=self.b.env(), capture_output=True, text=True)
        cs = os.path.join(d, "compstructs.cc")
        if r.returncode != 0 or not os.path.exists(cs):
            return k, f"exp2cxx rc={r.returncode}: {(r.stdout + r.stderr)[-600:]}"
        cmd = (["g++", "-O0", "-c"] + self.b.cxxflags() + self.b.inc_flags() +
               [f"-Dgencomplex=gencomplex_{k}", cs, "-o", os.path.join(self.dir, f"cs{k}.o")])
        r = subprocess.run(cmd, capture_output=True, text=True)
        if r.returncode != 0:
            return k, "emitted compstructs.cc does not compile: " + r.stderr[-600:]
        return k, None

    def run(self, k, lines):
        """-> (tree line or None, replies); a reply 'CRASH …' stands for a query that killed the process"""
        out, todo, tree = [], list(lines), None
        while True:
            inp = f"use {self.index[k]}\n" + "".join(x + "\n" for x in todo)
            r = subprocess.run([self.exe], input=inp, capture_output=True, text=True, env=self.b.env(), timeout=3600)
            rep = [x for x in r.stdout.split("\n") if x]
            if not rep:
                return None, [f"CRASH rc={r.returncode} while building the collect: {r.stderr[-1500:]}"]
            tree, rep = rep[0], rep[1:]
            out += rep[:len(todo)]
            if len(rep) < len(todo):
                out.append(f"CRASH rc={r.returncode} {sanitizer_site(r.stderr)} :: {r.stderr[-1200:]}")
                todo = todo[len(rep) + 1:]
                if not todo:
                    break
            else:
                break
        return tree, out


def sanitizer_site(err):
    for line in err.split("\n"):
        if "runtime error:" in line or "ERROR: AddressSanitizer" in line:
            s = line.strip()
            i = s.find("/src/src/")
            return s[i + 9:] if i >= 0 else s
    return "signal"


def run_model(ctx, lines):
    r = subprocess.run([ctx.model_exe("m_c08")], input="".join(x + "\n" for x in lines), capture_output=True, text=True,
                       timeout=3600)
    out = r.stdout.split("\n")
    if out and out[-1] == "":
        out.pop()
    return r.returncode, out, r.stderr


# ---------------------------------------------------------------- name <-> rank
def ranks(schema):
    names = sorted(e["name"] for e in schema)
    return {n: i for i, n in enumerate(names)}, names


def num_tree(t, num):
    return str(num[t]) if isinstance(t, str) else (t[0], [num_tree(c, num) for c in t[1]])


def name_tree(t, names):
    return names[int(t)] if isinstance(t, str) else (t[0], [name_tree(c, names) for c in t[1]])


def first_leaf(t):
    return t if isinstance(t, str) else first_leaf(t[1][0])


def all_nodes(t):
    yield t
    if not isinstance(t, str):
        for c in t[1]:
            yield from all_nodes(c)


def observed_sub_order(schema, trees):
    """order of every entity's subtype list as far as the emitted tree shows it: expression order, then the implicit
    subtypes in the order they were appended to the wrapping ANDOR (that order comes from the resolver's hash iteration,
    which is modelled in C02/C12, not here)."""
    subs = G.subs_of(schema)
    out = {}
    for e in schema:
        mentioned = G.expr_ents(e["expr"])
        impl = [s for s in subs[e["name"]] if s not in mentioned]
        order = [s for s in mentioned if s in subs[e["name"]]]
        if impl:
            found = None
            for tr in trees:
                for nd in all_nodes(tr):
                    if (not isinstance(nd, str) and nd[0] == "A" and len(nd[1]) == 2 and nd[1][0] == e["name"]
                            and not isinstance(nd[1][1], str) and nd[1][1][0] == "X" and len(nd[1][1][1]) >= len(impl)):
                        tail = [first_leaf(c) for c in nd[1][1][1][-len(impl):]]
                        if sorted(tail) == sorted(impl):
                            found = tail
                            break
                if found:
                    break
            impl = found or impl
        out[e["name"]] = order + impl
    return out


# ---------------------------------------------------------------- classification of a failing input
def classify(schema, X, what):
    """finding key: one per root cause that is understood; anything else is keyed on the input itself"""
    ms = G.mult_supers(schema) & set(X)
    if what.startswith("crash"):
        if "trynext.cc" in what and "null pointer" in what:
            return "crash:trynext-firstCandidate-null"
        if "entnode.cc" in what and "null pointer" in what:
            return SORT_KEY
        return None
    if what == "refuses-legal" and len(X) == 1:
        return "single-part-refused"
    subs = G.subs_of(schema)
    if what == "accepts-illegal" and any(e["abstract"] and not subs[e["name"]] and e["name"] in X for e in schema):
        return "abstract-without-subtypes:accepts-illegal"
    if ms and what == "accepts-illegal":
        return "several-supertypes:accepts-illegal"
    if ms and what == "refuses-legal":
        return "several-supertypes:refuses-legal"
    return None


def input_key(schema, X):
    return "in:" + G.enc_schema(schema).replace(" ", ",") + "|" + ",".join(sorted(X))


# ---------------------------------------------------------------- one batch of schemas
def evaluate(ctx, b, schemas, labels, norders, tag):
    """returns list of problems: (kind, schema index, detail dict)
    kinds: property (real verdict != Spec.Legal while real == model), mismatch (real != model on a request: always an alarm),
           correspondence (tree construction / hypotheses), evallegal, machinery"""
    real = Real(ctx, b, schemas, tag)
    problems = []
    for k, err in real.fail.items():
        problems.append(("machinery", k, {"what": err}))
    # ---- phase 1 (sequential, all randomness from ctx.rng): the requests of every schema
    jobs = {}
    for k, schema in enumerate(schemas):
        if k in real.fail:
            continue
        num, names = ranks(schema)
        ms = G.mult_supers(schema)
        subsets = list(G.all_subsets(names))
        qlines, qidx = [], []
        for xi, X in enumerate(subsets):
            os_ = [list(X)]
            if norders >= 2:
                o = list(X); ctx.rng.shuffle(o); os_.append(o)
            if norders >= 3:
                os_.append(list(reversed(X)))
            for extra in range(3, norders):
                o = list(X); ctx.rng.shuffle(o); os_.append(o)
            for o in os_:
                qlines.append("q " + " ".join(n + ("*" if n in ms else "") for n in o))
                qidx.append(xi)
        # shuffled so that state left behind by one request would show in another
        perm = list(range(len(qlines)))
        ctx.rng.shuffle(perm)
        jobs[k] = dict(num=num, names=names, ms=ms, subsets=subsets, qlines=qlines, qidx=qidx, perm=perm)

    # ---- phase 2 (parallel): real matcher, then the Lean driver on the real tree
    def work(k):
        j, schema = jobs[k], schemas[k]
        num, names, ms, subsets, qlines, perm = j["num"], j["names"], j["ms"], j["subsets"], j["qlines"], j["perm"]
        tree_line, rep_p = real.run(k, [qlines[i] for i in perm])
        if tree_line is None:
            return dict(dead=rep_p[0])
        rep = [None] * len(qlines)
        for jj, i in enumerate(perm):
            rep[i] = rep_p[jj] if jj < len(rep_p) else "CRASH missing"
        out = dict(tree_line=tree_line, rep=rep)
        if "<" in tree_line:
            return out
        trees = G.parse_tree(tree_line[2:])
        sub_order = observed_sub_order(schema, trees)
        nschema = [{"name": str(num[e["name"]]), "abstract": e["abstract"], "supers": [str(num[s]) for s in e["supers"]],
                    "expr": _num_expr(e["expr"], num)} for e in schema]
        nsub = {str(num[n]): [str(num[s]) for s in v] for n, v in sub_order.items()}
        mlines = ["tree " + G.show_collect([num_tree(t, num) for t in trees]),
                  "mult " + " ".join(str(num[n]) for n in sorted(ms)),
                  G.enc_schema(nschema, nsub), "collect", "wf", "implok", "forest"]
        for X in subsets:
            xs = " ".join(str(num[n]) for n in X)
            mlines += ["legal " + xs, "eval " + xs]
        for q in qlines:
            mlines.append("q " + " ".join(str(num[w.rstrip("*")]) for w in q.split()[1:]))
        rc, mout, merr = run_model(ctx, mlines)
        out.update(trees=trees, mlines=mlines, rc=rc, mout=mout, merr=merr,
                   pylegal=[G.legal(schema, X) for X in subsets])
        return out
    with cf.ThreadPoolExecutor(int(B.NPROC)) as ex:
        results = dict(zip(jobs, ex.map(work, list(jobs))))

    # ---- phase 3 (sequential): compare
    for k, res in results.items():
        schema, j = schemas[k], jobs[k]
        names, ms, subsets, qlines, qidx = j["names"], j["ms"], j["subsets"], j["qlines"], j["qidx"]
        if "dead" in res:
            problems.append(("property", k, {"X": [], "what": "crash-building", "reply": res["dead"], "order": []}))
            continue
        tree_line, rep = res["tree_line"], res["rep"]
        if "<" in tree_line:
            problems.append(("correspondence", k, {"what": f"emitted tree has inconsistent links: {tree_line}"}))
            continue
        trees, mlines, rc, mout, merr = res["trees"], res["mlines"], res["rc"], res["mout"], res["merr"]
        if rc != 0 or len(mout) != len(mlines):
            problems.append(("machinery", k, {"what": f"model driver rc={rc} lines={len(mout)}/{len(mlines)} {merr[-300:]}"}))
            continue
        if any(x == "bad-op" for x in mout):
            problems.append(("machinery", k, {"what": "model driver answered bad-op to " + mlines[mout.index('bad-op')][:200]}))
            continue
        # (1) tree construction
        if mout[3] == "T none":
            problems.append(("correspondence", k, {"what": "collectOf ran out of fuel / unknown entity"}))
        else:
            mtrees = [name_tree(t, names) for t in G.parse_tree(mout[3][2:])]
            if mtrees != trees:
                problems.append(("correspondence", k, {"what": "tree construction: exp2cxx emitted " + G.show_collect(trees) +
                                                       " but collectOf gives " + G.show_collect(mtrees)}))
        # hypotheses of C08_no_crash / C08_head_meaning on the emitted tree
        if mout[4] != "W 1":
            problems.append(("correspondence", k, {"what": "emitted tree does not have the shape C08_no_crash assumes (headWF): " + tree_line}))
        if mout[5] != "I 1":
            problems.append(("correspondence", k, {"what": "hypothesis ImplicitAgree of C08_head_meaning fails for this schema (addImplicitSubs and the declarations disagree on the implicit subtypes)"}))
        # hypothesis ForestWF of C08_eval_legal_partial: must hold exactly for the generated single-supertype schemas
        # without an ABSTRACT entity that has no subtype
        subs_map0 = G.subs_of(schema)
        expect_forest = (not ms) and not any(e["abstract"] and not subs_map0[e["name"]] for e in schema)
        if (mout[6] == "F 1") != expect_forest:
            problems.append(("correspondence", k, {"what": f"ForestWF (hypothesis of C08_eval_legal_partial) is {mout[6]} for this schema, expected {expect_forest}"}))
        if expect_forest:
            ctx.hist("schemas", "forest (C08_eval_legal_partial applies)")
        else:
            ctx.hist("schemas", "outside the forest fragment")
        leaves_all = {n for t in trees for n in all_nodes(t) if isinstance(n, str)}
        if not ms <= leaves_all:
            problems.append(("correspondence", k, {"what": f"entities with several supertypes {sorted(ms - leaves_all)} occur in no list of {tree_line} (coverage hypothesis of C08_no_crash)"}))
        legal = [mout[7 + 2 * i] == "L 1" for i in range(len(subsets))]
        evalv = [mout[8 + 2 * i] == "E 1" for i in range(len(subsets))]
        mq = mout[7 + 2 * len(subsets):]
        subs_map = G.subs_of(schema)
        abstract_leaves = {e["name"] for e in schema if e["abstract"] and not subs_map[e["name"]]}
        for xi, X in enumerate(subsets):
            pl = res["pylegal"][xi]
            if pl != legal[xi]:
                problems.append(("machinery", k, {"what": f"Lean Spec.Legal={legal[xi]} but the independent Python rule says {pl} for {X}"}))
            if legal[xi] != evalv[xi]:
                if evalv[xi] and not legal[xi] and abstract_leaves & set(X):
                    # the recorded defect abstract-without-subtypes:accepts-illegal seen from the tree side: the emitted
                    # tree has a plain SimpleList for an ABSTRACT entity without subtypes (reported through the real verdict)
                    ctx.hist("eval-vs-legal", "differ-abstract-without-subtypes")
                elif not ms and len(X) >= 2:
                    problems.append(("evallegal", k, {"X": list(X), "what": f"plain meaning of the emitted tree says {evalv[xi]}, Spec.Legal says {legal[xi]}"}))
                else:
                    ctx.hist("eval-vs-legal", "differ" + ("-several-supertypes" if ms & set(X) else "-single-part"))
            else:
                ctx.hist("eval-vs-legal", "agree")
        # C08_sound_complete_partial on the real code: an emitted collect without OrList, request without multiply-inheriting
        # member -> the real verdict is the plain meaning of the tree
        orfree_tree = ("(O" not in tree_line) and not ms
        if orfree_tree:
            ctx.hist("schemas", "OR-free collect (C08_sound_complete_partial applies)")
        # (2)+(3) every request
        seen_x = {}
        enc = G.enc_schema(schema)
        for qi, q in enumerate(qlines):
            xi = qidx[qi]
            X = subsets[xi]
            order = q.split()[1:]
            r, m = rep[qi], mq[qi]
            ctx.count(1, key=(labels[k], enc, q))
            if r.startswith("CRASH"):
                what, verdict = "crash " + r[:400], None
            else:
                verdict = (r == "R 1")
                what = None if verdict == legal[xi] else ("accepts-illegal" if verdict else "refuses-legal")
            if xi in seen_x and seen_x[xi] != verdict and what is None and seen_x[xi] is not None and verdict is not None:
                what = "order-dependent"
            seen_x.setdefault(xi, verdict)
            ctx.hist("verdicts", ("crash" if verdict is None else ("accepted" if verdict else "refused")) +
                     ("/legal" if legal[xi] else "/illegal"))
            if orfree_tree and verdict is not None and verdict != evalv[xi]:
                problems.append(("correspondence", k, {"X": list(X), "what": f"OR-free collect {tree_line}: real matcher answers {r!r} on {order} but the plain meaning of the tree is {evalv[xi]} (contradicts C08_sound_complete_partial)"}))
            rm = "CRASH" if r.startswith("CRASH") else r
            mm = "CRASH" if m.startswith("R crash") else m
            base = {"X": list(X), "order": order, "reply": r[:1500], "model": m, "legal": legal[xi], "tree": tree_line}
            if rm != mm:
                # the model pins the behaviour of the code as it is (incl. the recorded defects): any departure is an alarm
                problems.append(("mismatch", k, dict(base, what=what, detail=f"real matcher answers {r[:200]!r}, the Lean matcher model {m!r}")))
            elif what:
                problems.append(("property", k, dict(base, what=what)))
        ctx.hist("shapes", labels[k])
        ctx.hist("entities", str(len(schema)))
        for e in schema:
            for op in _ops(e["expr"]):
                ctx.hist("operators", op)
            if e["abstract"]:
                ctx.hist("operators", "ABSTRACT")
            if len(e["supers"]) > 1:
                ctx.hist("operators", "several-supertypes")
            mentioned = G.expr_ents(e["expr"])
            if any(s not in mentioned for s in subs_map[e["name"]]):
                ctx.hist("operators", "implicit-subtypes")
    return problems, real


def _num_expr(e, num):
    if e is None:
        return None
    if e[0] == "ent":
        return ("ent", str(num[e[1]]))
    if e[0] == "oneof":
        return ("oneof", [_num_expr(x, num) for x in e[1]])
    return (e[0], _num_expr(e[1], num), _num_expr(e[2], num))


def _ops(e):
    if e is None or e[0] == "ent":
        return []
    if e[0] == "oneof":
        return ["ONEOF"] + [o for x in e[1] for o in _ops(x)]
    return [e[0].upper()] + _ops(e[1]) + _ops(e[2])


# ---------------------------------------------------------------- end to end through STEPfile
P21_HEAD = ["ISO-10303-21;", "HEADER;", "FILE_DESCRIPTION((''),'2;1');", "FILE_NAME('','',(''),(''),'','','');",
            "FILE_SCHEMA(('C08'));", "ENDSEC;", "DATA;"]


def e2e_exe(ctx, b, schema, label):
    d = os.path.join(ctx.work, f"e2e-{label}")
    os.makedirs(d, exist_ok=True)
    open(os.path.join(d, "s.exp"), "w").write(G.render_schema(schema))
    exe = os.path.join(d, "drv")
    B.gen_schema_lib(b, os.path.join(d, "s.exp"), os.path.join(d, "gen"), [os.path.join(VERIF, "harness", "h_complex_e2e.cc")], exe)
    return exe, d


def e2e_file(ctx, b, exe, d, schema, orders):
    """one exchange file with one complex instance per entry of `orders`; returns the problems found"""
    lines = list(P21_HEAD)
    for i, o in enumerate(orders):
        lines.append(f"#{i + 1}=(" + "".join(n.upper() + "()" for n in o) + ");")
    lines += ["ENDSEC;", "END-ISO-10303-21;"]
    text = "\n".join(lines) + "\n"
    open(os.path.join(d, "in.p21"), "w").write(text)
    r = subprocess.run([exe, os.path.join(d, "in.p21"), os.path.join(d, "out.p21"), str(len(orders))], capture_output=True,
                       text=True, env=b.env(), timeout=600)
    created = {int(l.split()[1]): l.split()[2] == "1" for l in r.stdout.split("\n") if l.startswith("I ")}
    written = {int(l.split()[1]): l.split()[2] == "1" for l in r.stdout.split("\n") if l.startswith("W ")}
    if r.returncode != 0 or len(written) != len(orders):
        if len(orders) > 1:   # find the instance(s) the reader dies on
            out = []
            for o in orders:
                out += e2e_file(ctx, b, exe, d, schema, [o])
            return out
        return [{"X": sorted(orders[0]), "order": orders[0], "legal": G.legal(schema, orders[0]), "file": text,
                 "what": f"crash {sanitizer_site(r.stderr)} (the reader died, rc={r.returncode}, reading {lines[7]})",
                 "reply": r.stderr[-1500:]}]
    problems = []
    for i, o in enumerate(orders):
        X = sorted(o)
        L = G.legal(schema, X)
        c, w = created.get(i + 1), written.get(i + 1)
        ctx.count(1, key=("e2e", G.enc_schema(schema), tuple(o)))
        ctx.hist("end-to-end", ("created" if c else "refused") + ("/legal" if L else "/illegal"))
        base = {"X": X, "order": o, "legal": L, "file": text}
        if c != w:
            problems.append(dict(base, what=f"instance created={c} but present in the written file={w}", reply=r.stdout[-600:]))
        elif c != L:
            problems.append(dict(base, what="accepts-illegal" if c else "refuses-legal", reply="end-to-end: " + r.stderr[-600:]))
        elif not c and "does not represent a legal complex entity" not in (r.stderr + r.stdout):
            problems.append(dict(base, what="refused without the 'not a legal complex entity' message", reply=r.stderr[-600:]))
    return problems


def end_to_end(ctx, b, schema, label, nsets):
    num, names = ranks(schema)
    exe, d = e2e_exe(ctx, b, schema, label)
    subsets = [X for X in G.all_subsets(names) if len(X) >= 2]
    ctx.rng.shuffle(subsets)
    legal_ones = [X for X in subsets if G.legal(schema, X)][:nsets // 2 + 1]
    others = [X for X in subsets if X not in legal_ones][:nsets - len(legal_ones)]
    orders = []
    for X in legal_ones + others:
        o = list(X); ctx.rng.shuffle(o); orders.append(o)
    ctx.rng.shuffle(orders)
    return e2e_file(ctx, b, exe, d, schema, orders)


# ---------------------------------------------------------------- EntNode::sort after renaming (Initialize's name path)
SORT_KEY = "crash:entnode-sort-equal-names"


def sort_stream(ctx, real, nrandom):
    """EntNode::sort on request lists in which some nodes were renamed (USE/REFERENCE ... AS aliases resolved to the original
    names): real code vs `sortNodes`; oracle: no crash, result = the names in ascending order."""
    import itertools
    from vlib import findings as F
    rc, out, _ = run_model(ctx, ["consts"])
    nonstrict = bool(out) and "sortns=1" in out[0]
    with_equal = nonstrict or bool(F.lookup("C08", SORT_KEY))
    letters = "abcdefghijklmnop"
    cases = []
    for n in (2, 3, 4):
        base = ["b", "d", "f", "h"][:n]
        for tgt in itertools.product("abc", repeat=n):
            cases.append((base, list(enumerate(tgt))))
    for _ in range(nrandom):
        n = ctx.rng.randint(1, 8)
        base = sorted(ctx.rng.sample(letters[::2], n))
        k = ctx.rng.randint(1, n)
        cases.append((base, [(i, ctx.rng.choice(letters[:10])) for i in ctx.rng.sample(range(n), k)]))
    lines, mlines, exps = [], [], []
    for base, ren in cases:
        exp = list(base)
        for i, nw in ren:
            exp[i] = nw
        if len(set(exp)) != len(exp) and not with_equal:
            continue
        lines.append("rs " + " ".join(f"{i}={nw}" for i, nw in ren) + " | " + " ".join(base))
        mlines.append("rs " + " ".join(str(ord(c) - 97) for c in exp))
        exps.append(exp)
    k0 = next(iter(real.index))
    _, rep = real.run(k0, lines)
    rc, mout, merr = run_model(ctx, mlines)
    problems = []
    if rc != 0 or len(mout) != len(mlines):
        return [("machinery", k0, {"what": f"model driver (sort stream) rc={rc} lines={len(mout)}/{len(mlines)}"})]
    for exp, line, r, m in zip(exps, lines, rep, mout):
        ctx.count(1, key=("sort", line))
        equal = len(set(exp)) != len(exp)
        ctx.hist("sort-after-renaming", "equal names" if equal else "distinct names")
        rr = "CRASH" if r.startswith("CRASH") else " ".join(r.split()[1:])
        mm = "CRASH" if m.startswith("R crash") else " ".join(chr(97 + int(x)) for x in m.split()[1:])
        good = rr == " ".join(sorted(exp))
        d = {"X": exp, "order": exp, "reply": r[:600], "model": m, "legal": None, "tree": None, "sort": line}
        if rr != mm:
            problems.append(("mismatch", k0, dict(d, what=None if good else ("crash " + r[:300] if rr == "CRASH" else "not-sorted"),
                                                  detail=f"EntNode::sort on {exp}: real {rr!r}, model {mm!r}")))
        elif not good:
            problems.append(("property", k0, dict(d, what=("crash " + r[:300]) if rr == "CRASH" else f"EntNode::sort leaves {rr!r} for {exp}")))
    return problems


# ---------------------------------------------------------------- an OrList with as many children as LISTEND
HANG_KEY = "hang:listend-is-a-child-index"


def big_oneof_probe(ctx, b):
    """a ONEOF of 1000 alternatives: `choice` reaches the value LISTEND had (999).  Hypothesis `smallOr` of
    C08_retry_terminates put to the real code; run once LISTEND is no child index any more, or the finding is listed."""
    from vlib import findings as F
    rc, out, _ = run_model(ctx, ["consts"])
    listend = 999
    if out and "listend=" in out[0]:
        listend = int(out[0].split("listend=")[1].split()[0])
    if listend < 100000 and not F.lookup("C08", HANG_KEY):
        ctx.hist("probes", "oneof-1000 skipped (LISTEND is a child index and the finding is not listed)")
        return []
    n = 1000
    names = [f"x{i:04d}" for i in range(n)]
    d = os.path.join(ctx.work, "big")
    os.makedirs(d, exist_ok=True)
    text = ("SCHEMA big;\nENTITY a SUPERTYPE OF (ONEOF(" + ", ".join(names) + "));\nEND_ENTITY;\n" +
            "".join(f"ENTITY {x} SUBTYPE OF (a);\nEND_ENTITY;\n" for x in names) + "END_SCHEMA;\n")
    open(os.path.join(d, "s.exp"), "w").write(text)
    r = subprocess.run([b.tool("exp2cxx"), "s.exp"], cwd=d, env=b.env(), capture_output=True, text=True)
    if r.returncode != 0:
        return [("machinery", 0, {"what": "oneof-1000 probe: exp2cxx failed " + (r.stdout + r.stderr)[-300:]})]
    open(os.path.join(d, "gc.cc"), "w").write('#include "clstepcore/complexSupport.h"\nComplexCollect *gencomplex();\n'
                                             'typedef ComplexCollect*(*gcfn)();\ngcfn gc_table[]={gencomplex};int gc_count=1;\n')
    exe = os.path.join(d, "h")
    B.compile_driver(b, [os.path.join(VERIF, "harness", "h_complex.cc"), os.path.join(d, "gc.cc"), os.path.join(d, "compstructs.cc")], exe)
    reqs = [(["a", "x0005"], True), (["a", "x0999"], True), (["a", "x0001", "x0002"], False), (["a", "x0997", "x0998"], False),
            (["a", "x0998", "x0999"], False), (["a", "x0999", "x0000"], False)]
    rank = {nm: i for i, nm in enumerate(["a"] + names)}
    tree = "tree C[ (A 0 (O " + " ".join(str(rank[x]) for x in names) + ")) ]"
    rc, mout, _ = run_model(ctx, [tree, "mult"] + ["q " + " ".join(str(rank[x]) for x in q) for q, _ in reqs])
    problems = []
    for qi, (q, legal) in enumerate(reqs):
        try:
            rr = subprocess.run([exe], input="use 0\nq " + " ".join(q) + "\n", capture_output=True, text=True, env=b.env(), timeout=30)
            lines = [x for x in rr.stdout.split("\n") if x]
            real = lines[1] if len(lines) > 1 else f"CRASH rc={rr.returncode} {rr.stderr[-300:]}"
        except subprocess.TimeoutExpired:
            real = "HANG (no answer within 30 s)"
        model = mout[2 + qi] if len(mout) > 2 + qi else "?"
        ctx.count(1, key=("oneof-1000", tuple(q)))
        ctx.hist("probes", "oneof-1000 " + ("hang" if real.startswith("HANG") else "answered"))
        rm = "NOANSWER" if real.startswith("HANG") else real
        mm = "NOANSWER" if model == "R fuel" else model
        d0 = {"X": q, "order": q, "reply": real, "model": model, "legal": legal, "tree": "(A a (O x0000 .. x0999))",
              "schema_note": "a SUPERTYPE OF (ONEOF(x0000 .. x0999)); 1000 subtypes"}
        verdict_ok = (real == ("R 1" if legal else "R 0"))
        if rm != mm:
            problems.append(("mismatch", 0, dict(d0, what=None if verdict_ok else ("hang" if rm == "NOANSWER" else "wrong verdict"),
                                                  detail=f"oneof-1000 probe: real {real!r}, model {model!r}")))
        elif not verdict_ok:
            problems.append(("hang", -1, dict(d0, what="the matcher does not terminate" if rm == "NOANSWER" else "wrong verdict " + real)))
    return problems


# ---------------------------------------------------------------- request sequences through one collect
def pair_stream(ctx, real, schemas, picks, only=None):
    """Ordered pairs of requests through ONE ComplexCollect (as the instances of one file go through one Registry): for every
    ordered pair (X1, X2) of non-empty subsets `use k; q X1; q X2` — oracle: the verdict on X2 equals the verdict X2 gets from a
    freshly built collect, i.e. it does not depend on the request before it (ComplexList::matches ends with reset() +
    unmarkAll(); model counterpart: C08_matches_restores_marks).  A request that kills the process is a failing input too."""
    def lines_of(out):
        return [x for x in out.split("\n") if x]

    def work(k):
        schema = schemas[k]
        num, names = ranks(schema)
        ms = G.mult_supers(schema)
        subsets = [sorted(X, key=lambda n: num[n]) for X in G.all_subsets(names)]
        q = ["q " + " ".join(n + ("*" if n in ms else "") for n in X) for X in subsets]
        use = f"use {real.index[k]}\n"
        env = real.b.env()
        # verdict of every subset on a fresh collect
        r = subprocess.run([real.exe], input="".join(use + x + "\n" for x in q), capture_output=True, text=True, env=env, timeout=3600)
        rep = lines_of(r.stdout)
        fresh = [rep[2 * i + 1] if 2 * i + 1 < len(rep) else "CRASH" for i in range(len(q))]
        pairs = [(i, j) for i in range(len(q)) for j in range(len(q))]
        if only is not None:
            pairs = [(i, j) for i, j in pairs if set(subsets[i]) == set(only[0]) and set(subsets[j]) == set(only[1])]
        res, todo = [], pairs
        while todo:
            r = subprocess.run([real.exe], input="".join(use + q[i] + "\n" + q[j] + "\n" for i, j in todo),
                               capture_output=True, text=True, env=env, timeout=3600)
            rep = lines_of(r.stdout)
            done = len(rep) // 3
            for t in range(done):
                res.append((todo[t], rep[3 * t + 1], rep[3 * t + 2]))
            if done < len(todo):          # the process died inside pair number `done`
                part = rep[3 * done:]
                first = part[1] if len(part) > 1 else "CRASH"
                res.append((todo[done], first, f"CRASH rc={r.returncode} {sanitizer_site(r.stderr)}" if len(part) > 1 else "-"))
                if len(part) <= 1:
                    res[-1] = (todo[done], f"CRASH rc={r.returncode} {sanitizer_site(r.stderr)}", "-")
                todo = todo[done + 1:]
            else:
                todo = []
        bad = []
        for (i, j), r1, r2 in res:
            ctx.count(1, key=("pair", k, i, j))
            if r1 != fresh[i] or (r2 != "-" and r2 != fresh[j]):
                bad.append({"first": subsets[i], "second": subsets[j], "reply_first": r1, "reply_second": r2,
                            "fresh_first": fresh[i], "fresh_second": fresh[j]})
        return k, len(res), bad

    problems, npairs = [], 0
    with cf.ThreadPoolExecutor(int(B.NPROC)) as ex:
        for k, n, bad in ex.map(work, [k for k in picks if k not in real.fail]):
            npairs += n
            for d in sorted(bad, key=lambda d: (len(d["first"]) + len(d["second"]), d["first"], d["second"]))[:3]:
                problems.append(("sequence", k, dict(d, nbad=len(bad))))
    ctx.hist("probes", "ordered request pairs through one collect", npairs)
    return problems


# ---------------------------------------------------------------- reporting
def report(ctx, problems, schemas, labels):
    nviol = 0
    # (0) real matcher != Lean matcher model on a request: always an alarm, whatever class the request falls in —
    # the recorded findings are pinned by the model, so a verdict that departs from the model is a *different* behaviour
    mism = [(k, d) for kind, k, d in problems if kind == "mismatch"]
    if mism:
        ctx.hist("failing-classes", "real-matcher != matcher-model", len(mism))
        # the ones on which the property itself fails first, then smallest input
        mism.sort(key=lambda kd: (kd[1]["what"] is None, len(schemas[kd[0]]), len(kd[1]["X"]), G.render_schema(schemas[kd[0]])))
        shown = set()
        for k, d in mism:
            schema = schemas[k]
            key = "real-vs-model:" + input_key(schema, d["X"])
            if key in shown or len(shown) >= 3:
                continue
            shown.add(key)
            rep = {"schema": schema, "express": G.render_schema(schema), "X": d["X"], "order": d.get("order"),
                   "what": d["what"], "reply": d.get("reply"), "model": d.get("model"), "tree": d.get("tree"),
                   "how": "./check C08 --replay <this file>"}
            desc = (f"{d['detail']} on parts {d.get('order')} of schema [{G.render_schema(schema).strip()}]; Spec.Legal={d.get('legal')}"
                    f" ({len(mism)} requests differ in this run)")
            if d["what"] is not None:
                ctx.violation(key, f"{d['what'][:200]} and not the behaviour the matcher model pins: " + desc, rep)
                nviol += 1
            else:
                ctx.broken.append(("correspondence real matcher vs Lean matcher model (the property holds on this request)",
                                   desc + " replay: " + json.dumps(rep)[:3000]))
    for kind, k, d in problems:
        if kind == "sequence":
            schema = schemas[k]
            ctx.hist("failing-classes", "verdict-depends-on-earlier-request", 1)
            key = "sequence:" + input_key(schema, d["second"]) + "|after|" + ",".join(d["first"])
            what = ("the verdict on a request depends on the request before it" if not str(d["reply_second"]).startswith("CRASH") and
                    not str(d["reply_first"]).startswith("CRASH") else "crash in a sequence of requests through one collect")
            ctx.violation(key, f"{what}: schema [{G.render_schema(schema).strip()}], first {d['first']} -> {d['reply_first']!r} "
                               f"(fresh collect: {d['fresh_first']!r}), then {d['second']} -> {d['reply_second']!r} "
                               f"(fresh collect: {d['fresh_second']!r}); {d['nbad']} ordered pairs of this schema differ",
                          {"schema": schema, "express": G.render_schema(schema), "sequence": [d["first"], d["second"]],
                           "X": d["second"], "how": "./check C08 --replay <this file>  (harness: `use 0`, `q <first>`, `q <second>`)"})
    for kind, k, d in problems:
        if kind == "hang":
            ctx.hist("failing-classes", HANG_KEY, 1)
            ctx.violation(HANG_KEY, f"{d['what']}: request {d['X']} on {d['schema_note']} — real {d['reply']!r}, model {d['model']!r}",
                          {"note": d["schema_note"], "X": d["X"], "reply": d["reply"], "model": d["model"],
                           "how": "generate the schema (tools/c08_gen is not needed: ONEOF of x0000..x0999 under a), run exp2cxx, "
                                  "compile compstructs.cc with harness/h_complex.cc, `use 0` then `q " + " ".join(d["X"]) + "`"})
    by_class = {}
    for kind, k, d in problems:
        if kind != "property":
            continue
        schema = schemas[k]
        what = d["what"]
        cls = classify(schema, d["X"], what)
        key = cls or input_key(schema, d["X"])
        by_class.setdefault(key, []).append((k, d))
    # understood classes first, then inputs that fit no class (at most 5 of those: one root cause tends to fail many inputs)
    keys = sorted(by_class, key=lambda k: (k.startswith("in:"), len(schemas[by_class[k][0][0]]), len(by_class[k][0][1]["X"]), k))
    unclassified = 0
    for key in keys:
        items = by_class[key]
        if key.startswith("in:"):
            unclassified += 1
            if unclassified > 5:
                ctx.hist("failing-classes", "further unclassified failing inputs (not written as replays)", len(items))
                continue
        # smallest input of the class: fewest entities, then fewest parts
        items.sort(key=lambda kd: (len(schemas[kd[0]]), len(kd[1]["X"]), G.render_schema(schemas[kd[0]])))
        k, d = items[0]
        schema = schemas[k]
        ctx.hist("failing-classes", key, len(items))
        desc = (f"{d['what'][:300]}: parts {d.get('order') or d['X']} of schema [{G.render_schema(schema).strip()}]"
                f" — Spec.Legal={d.get('legal')}, real answer {d.get('reply', '')[:200]!r}; {len(items)} failing inputs of this class in this run")
        ctx.violation(key, desc, {"schema": schema, "express": G.render_schema(schema), "X": d["X"], "order": d.get("order"),
                                  "what": d["what"], "reply": d.get("reply"), "tree": d.get("tree"), "p21": d.get("file"),
                                  "how": "./check C08 --replay <this file>  (runs exp2cxx on the schema, compiles compstructs.cc with "
                                         "harness/h_complex.cc under ASan/UBSan and asks `q <parts>`; `*` marks entities with several supertypes)"})
        nviol += 1
    if not ctx.violations:
        for kind, k, d in problems:
            if kind == "correspondence":
                ctx.broken.append(("correspondence matcher/tree model vs real code", d["what"][:1500] +
                                   f" [schema: {G.render_schema(schemas[k]).strip()}] (the oracle finds the property intact on this input)"))
                break
        for kind, k, d in problems:
            if kind == "evallegal":
                ctx.broken.append(("plain meaning of the emitted tree vs Spec.Legal (C08_eval_legal)", f"{d['what']} for {d['X']} "
                                   f"[schema: {G.render_schema(schemas[k]).strip()}]"))
                break
    for kind, k, d in problems:
        if kind == "machinery":
            ctx.broken.append(("check machinery", f"schema #{k} ({labels[k] if k < len(labels) else '?'}): {d['what'][:1200]}"))
            break


def load_corpus():
    out = []
    for f in sorted(glob.glob(os.path.join(VERIF, "corpus", "C08", "*.json"))):
        d = json.load(open(f))
        out.append((os.path.basename(f), d["schema"]))
    return out


def run(ctx):
    ctx.trusted += [
        "tools/extract.d/c08_complex.py (regex extraction of LISTEND, enum orders, OrList start values, null test in trynext.cc)",
        "hand-written models lean/StepModel/ComplexMatch.lean (run-time matcher) and ComplexBuild.lean (exp2cxx tree construction): "
        "modelled, tied by exhaustive-subset correspondence, not verified against the C++",
        "harness/h_complex.cc, harness/h_complex_e2e.cc, tools/c08_gen.py (what they do not generate is not compared)",
        "the order of implicit subtypes inside the wrapping ANDOR is read off the emitted tree (resolver hash order is not modelled here)",
    ]
    ctx.assumptions += [
        "entity names are abstracted to their alphabetical rank (the matcher only compares names, after lower-casing)",
        "Spec.Legal adds 'non-empty and connected' to the statement's three conditions (one instance is one object)",
        "graphs where an entity is a subtype of both an entity and one of that entity's ancestors are not generated",
        "renamed entities (USE/REFERENCE … AS) and names unknown to the registry are outside the quantifier",
    ]
    proof_ok = ctx.lean(PROPS, exes=["m_c08"], extractors=["c08_complex"])
    # the driver must be rebuilt against the regenerated constants even when a theorem no longer checks
    from vlib import lean as L
    ok, out = L.lake_build(["m_c08"])
    if not ok or not os.path.exists(ctx.model_exe("m_c08")):
        ctx.broken.append(("lake build m_c08", out[-1500:]))
        return
    b = ctx.build(FLAVOR)
    quick = ctx.tier == "quick"
    schemas, labels = [], []
    for nm, s in load_corpus():
        schemas.append(s); labels.append("corpus:" + nm)
    for nm, s in FIXED:
        schemas.append(s); labels.append("fixed:" + nm)
    # an ABSTRACT entity that has no subtype at all (never instantiable): exp2cxx ignores ABSTRACT there and the matcher
    # accepts it.  The shape is exercised once the finding is listed (it must then reproduce as that known finding).
    from vlib import findings as F
    if F.lookup("C08", "abstract-without-subtypes:accepts-illegal"):
        schemas.append([E("a", expr=("oneof", [ent("b"), ent("c")])), E("b", ["a"]), E("c", ["a"], abstract=True)])
        labels.append("fixed:abstract-leaf")
    nrand, ndirected, nmulti, norders = (270, 96, 56, 2) if quick else (1600, 720, 400, 3)
    # directed stream: shapes on which single statements of the matcher decide the verdict (two roots with asymmetric
    # sides; sub-supertypes with their own ONEOF/AND/ANDOR next to later siblings), names permuted so that every
    # alphabetical sibling order occurs
    dshapes = sorted(G.DIRECTED)
    for i in range(ndirected):
        shape = dshapes[i % len(dshapes)]
        schemas.append(G.directed_schema(ctx.rng, shape)); labels.append("directed:" + shape)
    # several multiply-inheriting entities in one graph, inside one root or spanning two/three (the combo list of
    # ComplexCollect::supports is joined per such member, in name order)
    for i in range(nmulti):
        schemas.append(G.multi_schema(ctx.rng)); labels.append("directed:multi-supertype-members")
    # the OR-free fragment (C08_sound_complete_partial): no ONEOF, every sub-supertype ABSTRACT
    for i in range(24 if quick else 240):
        schemas.append(G.orfree_schema(ctx.rng)); labels.append("directed:or-free")
    shapes = ["tree", "diamond", "tworoots", "free"]
    sizes = [5, 6, 7, 7, 8, 8] if quick else [4, 5, 6, 7, 7, 8, 8, 8]
    for i in range(nrand):
        shape = shapes[i % len(shapes)]
        schemas.append(G.random_schema(ctx.rng, n=ctx.rng.choice(sizes), shape=shape)); labels.append("random:" + shape)
    t = time.time()
    problems, real = evaluate(ctx, b, schemas, labels, norders, "main")
    ctx.cov["correspondence"]["all-subsets"] = {"schemas": len(schemas), "orders_per_subset": norders,
                                                "problems": len(problems), "wall_s": round(time.time() - t, 1)}
    # EntNode::sort after renaming
    t = time.time()
    problems += sort_stream(ctx, real, 600 if quick else 6000)
    ctx.cov["correspondence"]["sort-after-renaming"] = {"wall_s": round(time.time() - t, 1)}
    problems += big_oneof_probe(ctx, b)
    # request sequences: all ordered pairs through one collect, on the corpus, the fixed shapes and a sample of small graphs
    t = time.time()
    small = [i for i, sc in enumerate(schemas) if len(sc) <= 6 and not labels[i].startswith(("corpus", "fixed"))]
    picks = [i for i, l in enumerate(labels) if l.startswith(("corpus", "fixed")) and len(schemas[i]) <= 7]
    picks += small[::max(1, len(small) // (10 if quick else 80))][:(10 if quick else 80)]
    problems += pair_stream(ctx, real, schemas, picks)
    ctx.cov["correspondence"]["ordered-pairs"] = {"schemas": len(picks), "wall_s": round(time.time() - t, 1)}
    # end to end on a sample
    t = time.time()
    ne2e = 2 if quick else 12
    picks = [i for i, l in enumerate(labels) if l.startswith("fixed:oneof-andor")] + \
            [i for i, l in enumerate(labels) if l.startswith("random")][:ne2e - 1]
    with cf.ThreadPoolExecutor(min(8, len(picks) or 1)) as ex:
        futs = {ex.submit(end_to_end, ctx, b, schemas[i], str(i), 10 if quick else 24): i for i in picks}
        for fu, i in futs.items():
            try:
                for p in fu.result():
                    if p:
                        problems.append(("property", i, p))
            except B.BuildError as e:
                problems.append(("machinery", i, {"what": f"end-to-end build: {e}"[:800]}))
    ctx.cov["correspondence"]["end-to-end"] = {"schemas": len(picks), "wall_s": round(time.time() - t, 1)}
    report(ctx, problems, schemas, labels)
    ctx.sample({"express": G.render_schema(schemas[-1]), "subsets": 2 ** len(schemas[-1]) - 1, "orders": norders})
    ctx.sample({"express": G.render_schema(FIXED[0][1]), "request": "q a b c  (ONEOF violated)"})
    ctx.cov["rule"] = ("inheritance graphs of 2..8 entities (fixed shapes + random trees, diamonds, two roots, free DAGs; random nesting of "
                       "ONEOF/AND/ANDOR over a random subset of the direct subtypes, the rest implicit; ABSTRACT at random); for each "
                       "graph ALL non-empty subsets of the entity names, each in several part orders; distinct = (schema, ordered request)")


def replay(ctx, path):
    d = json.load(open(path))
    r = d.get("replay", d)
    schema = r["schema"]
    ctx.lean(PROPS, exes=["m_c08"], extractors=["c08_complex"])
    from vlib import lean as L
    L.lake_build(["m_c08"])
    b = ctx.build(FLAVOR)
    problems, real = evaluate(ctx, b, [schema], ["replay"], 2, "replay")
    X = set(r.get("X") or [])
    if X:
        problems = [p for p in problems if p[0] != "property" or set(p[2]["X"]) == X]
    if r.get("sequence"):
        problems += pair_stream(ctx, real, [schema], [0], only=r["sequence"])
    if r.get("p21"):
        exe, dd = e2e_exe(ctx, b, schema, "replay")
        for p in e2e_file(ctx, b, exe, dd, schema, [r.get("order") or sorted(X)]):
            problems.append(("property", 0, p))
    report(ctx, problems, [schema], ["replay"])

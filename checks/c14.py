"""C14 - appending a file keeps both populations whole and their references separate.

proof:           lean/StepModel/Props/C14.lean (offset above every earlier id; result = p1 ++ shift k p2 with every
                 reference at every depth shifted; no capture; invariant preserved over any history)
                 model: lean/StepModel/Session.lean (two-pass reader of STEPfile::AppendFile over an InstMgr)
regenerated tie: tools/extract.d/stepfile.py (SetFileIdIncrement expression and guard, IncrementFileId, ReadInstance
                 plumbing, state switch), tools/extract.d/instmgr.py (NextFileId, reset value of maxFileId)
correspondence:  harness/h_p21.cc (read A; append B; [append C]; dump; write) vs lean exe m_c14
oracle:          the statement evaluated on the file the implementation writes after Read + Append(s)
"""
import concurrent.futures as cf
import json, os, random, re, subprocess, time
from vlib import build as B, p21_gen as G
from checks.c15 import build_schema, Harness, kv, parse_dump, check_schema_table, HARNESS


def _SchemaFromExpress(text):
    from checks.c16 import _SchemaFromExpress as S
    return S(text)

HERE = os.path.dirname(os.path.abspath(__file__))
VERIF = os.path.dirname(HERE)
EXTRACTORS = ["stepfile", "instmgr", "attrnull", "enums", "threading", "headerids"]


def schema_lines(schema):
    out = []
    for e in schema.entities:
        full = " ".join(f"{a.base}:{1 if a.optional else 0}:{1 if a.type_ref else 0}" for a in schema.all_attrs(e.name))
        own = " ".join(f"{a.base}:{1 if a.optional else 0}:{1 if a.type_ref else 0}" for a in e.attrs)
        out.append(f"attrs full {e.name.upper()} {full}".rstrip())
        out.append(f"attrs own {e.name.upper()} {own}".rstrip())
    return out


class Model:
    def __init__(self, exe, schema):
        self.p = subprocess.Popen([exe], stdin=subprocess.PIPE, stdout=subprocess.PIPE, text=True)
        for l in schema_lines(schema):
            if self.cmd(l) != "R ok":
                raise RuntimeError("model rejected schema line " + l)

    def cmd(self, line):
        self.p.stdin.write(line + "\n")
        self.p.stdin.flush()
        r = self.p.stdout.readline()
        if not r:
            raise RuntimeError(f"model driver died on {line[:100]!r}")
        return r.rstrip("\n")

    def close(self):
        try:
            self.p.stdin.close()
            self.p.wait(timeout=10)
        except Exception:
            self.p.kill()


def decode_insts(reply):
    body = reply[2:].strip()
    if not body:
        return []
    out = []
    for g in body.split(" | "):
        i, rest = G.decode_words(g.split())
        assert not rest
        out.append(i)
    return out


# ------------------------------------------------------------------ id schemes
def id_scheme(rng, name, n, prev_ids=None):
    if name == "identical" and prev_ids:
        ids = list(prev_ids)
        rng.shuffle(ids)
        while len(ids) < n:
            ids.append(max(ids) + 1 + len(ids))
        return ids[:n]
    if name == "dense":
        return rng.sample(range(1, n + 3), n)
    if name == "sparse":
        return rng.sample(range(1, 5000), n)
    if name == "near1000":
        pool = [v for c in (1000, 2000, 3000) for v in range(c - 3, c + 4)] + [900, 901, 902, 1899, 1900, 1901, 1902, 2900, 2901]
        pool = sorted(set(pool))
        return rng.sample(pool, min(n, len(pool))) + rng.sample(range(1, 800), max(0, n - len(pool)))
    if name == "big":
        base = rng.choice([99_000, 999_001, 12_345_678])
        return [base + x for x in rng.sample(range(0, 3 * n + 5), n)]
    raise ValueError(name)


def boundary_files(rng, schema):
    """the largest manager id for which the offset still fits a 32-bit int (theorem C14_offset_fits_int32): max id 2147481901
    -> offset 2147483000; the appended file keeps its ids <= 600 so that id + offset <= 2^31 - 1"""
    def renumber(pop, ids):
        ren = {i.id: new for i, new in zip(pop, ids)}
        return [G.Inst(ren[i.id], [(nm, [G.map_refs(v, lambda r: ren[r]) for v in vs]) for nm, vs in i.parts]) for i in pop]
    a = G.gen_population(rng, schema, rng.randint(1, 4), p_null_optional=0.3, min_targets=1)
    ids = rng.sample(range(2147481901 - 400, 2147481901), len(a) - 1) + [2147481901]
    rng.shuffle(ids)
    b = G.gen_population(rng, schema, rng.randint(1, 4), p_null_optional=0.3, min_targets=1)
    return [("int32-boundary", renumber(a, ids)), ("small", renumber(b, rng.sample(range(1, 600), len(b))))]


def gen_files(rng, schema, quick):
    nfiles = rng.choice([2, 2, 3])
    files, prev = [], None
    for fi in range(nfiles):
        n = rng.randint(1, 5 if quick else 9)
        shapes = None
        scheme = rng.choice(["identical", "identical", "dense", "sparse", "near1000", "near1000", "big"]) if fi else \
            rng.choice(["dense", "sparse", "near1000", "near1000", "big"])
        # population first (to know its size), then ids
        pop = G.gen_population(rng, schema, n, p_null_optional=0.3, min_targets=1)
        ids = id_scheme(rng, scheme, len(pop), prev)
        ren = {i.id: new for i, new in zip(pop, ids)}
        pop = [G.Inst(ren[i.id], [(nm, [G.map_refs(v, lambda r: ren[r]) for v in vs]) for nm, vs in i.parts]) for i in pop]
        if files and rng.random() < 0.5:
            pop = align_first_ref(files[-1][1], pop)
            scheme += "+first-ref=prev-last-ref"
        prev = [i.id for i in pop]
        files.append((scheme, pop))
    return files


def align_first_ref(prev_pop, pop):
    """renumber `pop` so that the first reference it contains (in reading order) bears the same number as the last
    reference of the previous file - the situation in which any state the reader carries from one reference to the
    next, or from one file to the next, shows"""
    last = [r for i in prev_pop for r in G.inst_refs(i)]
    first = [r for i in pop for r in G.inst_refs(i)]
    if not last or not first or last[-1] == first[0]:
        return pop
    a, b = first[0], last[-1]
    ren = {a: b, b: a}        # swap (b may or may not be an id of pop; ids stay distinct either way)
    f = lambda x: ren.get(x, x)
    return [G.Inst(f(i.id), [(nm, [G.map_refs(v, f) for v in vs]) for nm, vs in i.parts]) for i in pop]


# ------------------------------------------------------------------ redeclared attributes / the population in memory
def unhide_redeclared(schema, written, want):
    """the exchange writer prints `*` at a redeclared position (the value lives in the redefining attribute); such a
    position tells nothing in the written file - its value is checked in memory (`vals`) instead"""
    if len(written.parts) != len(want.parts):
        return written
    out = written.copy()
    for pi in range(len(out.parts)):
        if out.is_complex:
            continue
        attrs = G.part_attrs(schema, want, pi)
        for ai, a in enumerate(attrs):
            if a.redef_name and ai < len(out.parts[pi][1]) and out.parts[pi][1][ai] == ("derived",) and ai < len(want.parts[pi][1]):
                out.parts[pi][1][ai] = want.parts[pi][1][ai]
    return out


def refs_in_text(t):
    t = re.sub(r"'(?:[^']|'')*'", "", t)
    return [int(x) for x in re.findall(r"#(\d+)", t)]


def memory_check(h, schema, expected):
    """every reference the SESSION holds (asStr of every attribute of every part, redeclared ones through their redefining
    attribute) against the expected (shifted) population; returns None or what is wrong"""
    for idx, want in enumerate(expected):
        r = h.cmd(f"vals {idx}")
        if not r.startswith("V"):
            return f"instance {idx}: no values ({r})"
        parts = {}
        for g in r[1:].split("|"):
            ws = g.split()
            if not ws:
                continue
            ent = []
            for w in ws[1:]:
                nm, red, hx_ = w.rsplit("/", 2)
                ent.append((nm, red == "1", "" if hx_ == "-" else bytes.fromhex(hx_).decode("latin-1")))
            parts[ws[0]] = ent
        for pi, (pname, vals) in enumerate(want.parts):
            ent = parts.get(pname)
            if ent is None:
                return f"instance #{want.id}: part {pname} not in the session"
            pos = [e for e in ent if not e[1]]
            byname = {e[0]: e for e in ent}
            for ai, a in enumerate(G.part_attrs(schema, want, pi)):
                exp = G.refs_of(vals[ai])
                src = byname.get(a.redef_name) if a.redef_name else (pos[ai] if ai < len(pos) else None)
                if src is None:
                    return f"instance #{want.id}: attribute {a.redef_name or a.name} not in the session"
                got = refs_in_text(src[2])
                if got != exp:
                    return (f"instance #{want.id} ({pname}), attribute {src[0]}{' (redeclared)' if a.redef_name else ''}: the session holds "
                            f"reference(s) {got}, expected {exp}" + (" - they point at earlier instances" if any(g not in exp for g in got) else ""))
    return None


# ------------------------------------------------------------------ the statement on the implementation's output
K_NESTED = "append:nested-aggregate-reference-not-renumbered"


def flat_shift(inst, k):
    """shift_inst as the reader of the code at hand does it while `Generated.threading.aggrNested = false`: the elements of an
    aggregate of aggregates are kept as text, the references inside keep their numbers (KNOWN_FINDINGS K_NESTED)"""
    def sv(v, in_aggr):
        t = v[0]
        if t == "ref":
            return ("ref", v[1] + k)
        if t == "aggr":
            return v if in_aggr else ("aggr", [sv(x, True) for x in v[1]])
        if t == "typed":
            return ("typed", v[1], sv(v[2], False))
        return v
    return G.Inst(inst.id + k, [(n, [sv(v, False) for v in vs]) for n, vs in inst.parts], inst.comment)


def oracle(files, reads, final_dump, written, schema=None, shift=None):
    """files: [(scheme, pop)], reads: the `R ...` dicts of read/append, final_dump: [(id, type, state)], written: [Inst]"""
    total = sum(len(p) for _, p in files)
    if len(final_dump) != total or len(written) != total:
        return f"{total} instances were read/appended, the session holds {len(final_dump)} and writes {len(written)}"
    pos, earlier_ids = 0, []
    for fi, (_, pop) in enumerate(files):
        seg = written[pos:pos + len(pop)]
        if fi == 0:
            for a, b in zip(pop, seg):
                if schema is not None:
                    b = unhide_redeclared(schema, b, a)
                if not G.inst_equal(a, b):
                    return f"instance #{a.id} of the first file was changed by reading/appending: wrote {G.render_inst(b)}"
        else:
            # earlier instances keep ids and values: checked by the loop above on every later iteration (seg of file 0)
            ks = {b.id - a.id for a, b in zip(pop, seg)}
            if len(ks) != 1:
                return f"appended file {fi}: instances were not shifted by one common offset (offsets {sorted(ks)})"
            k = ks.pop()
            if earlier_ids and k <= max(earlier_ids):
                return f"appended file {fi}: offset {k} is not larger than every earlier id (max {max(earlier_ids)})"
            for a, b in zip(pop, seg):
                want = (shift or G.shift_inst)(a, k)
                if schema is not None:
                    b = unhide_redeclared(schema, b, want)
                if not G.inst_equal(want, b):
                    bad_refs = [r for r in G.inst_refs(b) if r in earlier_ids]
                    extra = f"; reference(s) {bad_refs} point at earlier instances" if bad_refs else ""
                    return (f"appended file {fi}: instance #{a.id} should be {G.render_inst(want)} "
                            f"(everything shifted by {k}), wrote {G.render_inst(b)}{extra}")
        # earlier segments must still be what they were
        earlier_ids += [i.id for i in seg]
        pos += len(pop)
    # re-check that earlier segments were not modified by later appends: compare with expected shifts
    return None


def run_case(ctx, h, m, schema, files, strict, workdir, tag, layout_seed=None, known=None):
    """returns (kind, detail) or None; kind in property/correspondence.  known: list that receives the oracle's complaint when it
    is exactly the recorded class K_NESTED (everything as demanded except that references inside aggregates of aggregates
    kept their numbers); the history is then judged against that behaviour and the correspondence is still demanded"""
    reads_h, reads_m = [], []
    h.cmd(f"reset {strict}")
    m.cmd(f"reset {strict}")
    dumps = []
    for fi, (scheme, pop) in enumerate(files):
        path = os.path.join(workdir, f"{tag}_{fi}.p21")
        # layout_seed: white space / line breaks around every token (also inside aggregates, typed values, complex parts) and
        # comments between instances, reproducible for shrinking and replay
        open(path, "w").write(G.render(schema.name, pop, None if layout_seed is None else random.Random(layout_seed * 31 + fi)))
        op = "read" if fi == 0 else "append"
        reads_h.append(kv(h.cmd(f"{op} {path}")))
        reads_m.append(kv(m.cmd(f"{op} " + " | ".join(G.encode_inst(i, schema) for i in pop))))
        dumps.append((h.cmd("dump"), m.cmd("dump")))
    outp = os.path.join(workdir, f"{tag}_out.p21")
    wr = kv(h.cmd(f"write {outp} 0"))
    try:
        _, _, parsed = G.parse_p21(open(outp).read())
        written = [i for _, i in parsed]
    except Exception as ex:
        return ("property", f"written file cannot be parsed ({ex})")
    final = parse_dump(dumps[-1][0])
    # --- oracle on the implementation
    e = oracle(files, reads_h, final, written, schema)
    shift = G.shift_inst
    if e:
        if known is None:
            return ("property", e)
        e2 = oracle(files, reads_h, final, written, schema, shift=flat_shift)
        if e2:      # something else than the recorded class: report that
            return ("property", e2)
        known.append(e)
        shift = flat_shift
    # the same for the population as the session holds it (what an application sees; the only place where a
    # redeclared attribute's value shows)
    expected, seen = [], []
    for fi, (_, pop) in enumerate(files):
        k = 0 if fi == 0 else written[len(expected)].id - pop[0].id
        expected += [shift(i, k) for i in pop]
    e = memory_check(h, schema, expected)
    if e:
        if known is not None and shift is G.shift_inst:
            exp2, n2 = [], 0
            for fi, (_, pop) in enumerate(files):
                k = 0 if fi == 0 else written[n2].id - pop[0].id
                exp2 += [flat_shift(i, k) for i in pop]
                n2 += len(pop)
            if memory_check(h, schema, exp2) is None:
                known.append(e)
                e = None
        if e:
            return ("property", e)
    for r in reads_h:
        if r["sev"] not in ("NULL", "USERMSG"):
            return ("property", f"conforming file not read cleanly: severity {r['sev']} ({r})")
    # earlier instances untouched after every step: compare dumps prefix + states
    if any(st != "completeSE" for _, _, st in final):
        return ("property", f"instances not complete after reading conforming files: {final}")
    # --- correspondence
    for fi, (a, b) in enumerate(zip(reads_h, reads_m)):
        for key in ("incr", "n", "max"):
            if a[key] != b[key]:
                return ("correspondence", f"file {fi}: {key} impl {a[key]} model {b[key]}")
    for fi, (dh, dm) in enumerate(dumps):
        if dh != dm:
            return ("correspondence", f"after file {fi}: dump impl {dh[:300]} model {dm[:300]}")
    mi = decode_insts(m.cmd("insts"))
    written = [unhide_redeclared(schema, w_, x_) for w_, x_ in zip(written, mi)] if len(mi) == len(written) else written
    if len(mi) != len(written) or not all(G.inst_equal(x, y) for x, y in zip(mi, written)):
        first = next((j for j, (x, y) in enumerate(zip(mi, written)) if not G.inst_equal(x, y)), None)
        return ("correspondence", f"written instance {first}: impl {G.render_inst(written[first]) if first is not None else len(written)} "
                                  f"model {G.render_inst(mi[first]) if first is not None else len(mi)}")
    return None


def closed(pop):
    ids = {i.id for i in pop}
    return all(r in ids for i in pop for r in G.inst_refs(i))


def shrink(files, fails):
    files = [(s, list(p)) for s, p in files]
    changed = True
    budget = 60
    while changed and budget > 0:
        changed = False
        for fi in range(len(files)):
            s, pop = files[fi]
            for j in range(len(pop)):
                cand = pop[:j] + pop[j + 1:]
                if not cand or not closed(cand):
                    continue
                trial = files[:fi] + [(s, cand)] + files[fi + 1:]
                budget -= 1
                if fails(trial):
                    files = trial
                    changed = True
                    break
            if changed or budget <= 0:
                break
        if not changed and len(files) > 2 and budget > 0:
            trial = files[:-1]
            budget -= 1
            if fails(trial):
                files, changed = trial, True
    return files


def run(ctx):
    ctx.trusted += [
        "tools/extract.d/stepfile.py, instmgr.py (regex translation of SetFileIdIncrement / NextFileId / switch tables to Lean)",
        "hand-written model lean/StepModel/Session.lean of STEPfile::AppendFile/ReadData1/ReadData2/CreateInstance/ReadInstance "
        "and of ReadEntityRef's addFileId at every depth (modelled, tied by correspondence); literal values are opaque tokens",
        "harness/h_p21.cc, vlib/p21_gen.py (what they do not generate is not compared)",
    ]
    ctx.assumptions += [
        "ids and offsets stay below 2^31 (the model uses unbounded Int; `(int)(ceil(...)*1000.0)` is exact below 2^52); "
        "populations are conforming: distinct positive ids, every reference resolves inside its own file to an instance of an admissible type",
        "entity names exist in the schema and complex combinations are legal (C08's subject)",
    ]
    from checks.c15 import baseline_generated, GENERATED_FILES
    baseline_generated(GENERATED_FILES)
    proof_ok = ctx.lean("StepModel.Props.C14", exes=["m_c14"], extractors=EXTRACTORS)
    if not proof_ok:
        from vlib import lean as L
        L.lake_build(["m_c14"])
    b = ctx.build("asan" if ctx.tier == "thorough" else "plain")
    model_exe = ctx.model_exe("m_c14")
    if not os.path.exists(model_exe):
        return
    quick = ctx.tier == "quick"
    n_schemas, n_cases = (3, 60) if quick else (24, 250)
    sel_kinds = ["SELECT_L", "SELECT_N", "SELECT_R", "AGG_SELL", "SELECT_E", "SELECT_M", "AGG_SEL", "AGG_SELE", "ENTITY",
                 "AGG_ENT", "INTEGER", "STRING", "D2_REAL"]
    schemas = []
    for si in range(n_schemas):
        if si == 1:     # select-heavy: typed select values carrying entity references, nested and renamed selects
            schemas.append(G.gen_schema(ctx.rng, f"ap{si}", n_entities=5, kinds=sel_kinds, cover_all_kinds=True,
                                        p_optional=0.3, with_complex=True, with_redecl=True))
        else:
            schemas.append(G.gen_schema(ctx.rng, f"ap{si}", n_entities=ctx.rng.randint(3, 6), cover_all_kinds=(si == 0),
                                        p_optional=0.4, with_complex=True, extra=(si % 2 == 0), with_redecl=(si % 2 == 0)))
    t0 = time.time()
    with cf.ThreadPoolExecutor(max_workers=8) as ex:
        built = list(ex.map(lambda s: build_schema(b, s, os.path.join(ctx.work, s.name), False), schemas))
    ctx.cov["correspondence"]["build_s"] = round(time.time() - t0, 1)
    nested_seen = []
    for s, (exe, _) in zip(schemas, built):
        wd = os.path.join(ctx.work, s.name)
        h, m = Harness(exe, b.env()), Model(model_exe, s)
        t, bad, corr = time.time(), None, []
        try:
            check_schema_table(h, s)
            for ci in range(n_cases):
                files = boundary_files(ctx.rng, s) if ci % 20 == 7 else gen_files(ctx.rng, s, quick)
                strict = ci % 2
                layout = ctx.rng.randrange(1 << 30) if ci % 3 == 2 else None
                kn = []
                r = run_case(ctx, h, m, s, files, strict, wd, f"c{ci}", layout, known=kn)
                if kn and not nested_seen:
                    nested_seen.append((kn[0], s, files, strict, layout, exe))
                ctx.hist("references inside aggregates of aggregates (appended files)",
                         "some" if any(G.inst_refs(flat_shift(i, 1)) != G.inst_refs(G.shift_inst(i, 1)) for _, p in files[1:] for i in p) else "none")
                ctx.hist("layout", "white space everywhere" if layout is not None else "compact")
                ctx.count(1, key=(s.name, ci))
                ctx.hist("files per history", str(len(files)))
                for sch, pop in files[1:]:
                    ctx.hist("id scheme of appended file", sch)
                ctx.hist("instances per history", str(min(30, sum(len(p) for _, p in files)) // 5 * 5) + "+")
                overlap = len({i.id for i in files[0][1]} & {i.id for i in files[1][1]})
                ctx.hist("ids shared by file 1 and 2", "0" if overlap == 0 else "1+" if overlap < len(files[1][1]) else "all")
                nref = sum(len(G.inst_refs(i)) for _, p in files[1:] for i in p)
                ctx.hist("references in appended files", "0" if nref == 0 else "1-5" if nref <= 5 else "6+")
                if r and r[0] == "property":
                    bad = (r, files, strict, ci, layout)
                    break
                if r and bad is None:
                    # model and code disagree while the oracle is satisfied: remember it, but keep looking for an input on
                    # which the implementation fails the property itself (FRAMEWORK: violation search first)
                    first_disagreement = (r, files, strict, ci, layout)
                    bad_corr = first_disagreement
                    corr.append(bad_corr)
        finally:
            pass
        if bad is None and corr:
            bad = corr[0]
        ctx.cov["correspondence"][s.name] = {"histories": ci + 1, "problem": bad[0][0] if bad else None,
                                             "disagreements": len(corr), "wall_s": round(time.time() - t, 1)}
        if bad:
            (kind, what), files, strict, ci, layout = bad

            def fails(fs, kind=kind):
                rr = run_case(ctx, h, m, s, fs, strict, wd, "shr", layout)
                return rr is not None and rr[0] == kind
            mini = shrink(files, fails)
            rr = run_case(ctx, h, m, s, mini, strict, wd, "shr", layout)
            if not rr or rr[0] != kind:
                rr = (kind, what)
            rep = {"schema_express": s.express(), "schema_name": s.name, "strict": strict,
                   "files": [G.render(s.name, p, None if layout is None else random.Random(layout * 31 + fi)) for fi, (_, p) in enumerate(mini)],
                   "how": "exp2cxx the schema, link harness/h_p21.cc; `reset <strict>`, `read files[0]`, `append files[1..]`, `dump`, `write OUT 0`"}
            if kind == "property":
                key = "append:" + ";".join(",".join(f"{i.id}{i.type_name()}" for i in p) for _, p in mini)
                ctx.violation(key[:300], rr[1], rep)
            else:
                ctx.broken.append(("correspondence Session model vs STEPfile::AppendFile",
                                   f"{rr[1]}; minimal history: {json.dumps(rep['files'])[:1500]} (the oracle finds the property intact on it)"))
            h.close(); m.close()
            break
        h.close(); m.close()
    if nested_seen:
        # the recorded class, once per run, with a minimal history
        what, s, files, strict, layout, exe = nested_seen[0]
        wd = os.path.join(ctx.work, s.name)
        h, m = Harness(exe, b.env()), Model(model_exe, s)
        try:
            def shows(fs):
                kn = []
                run_case(ctx, h, m, s, fs, strict, wd, "shn", layout, known=kn)
                return bool(kn)
            mini = shrink(files, shows)
            kn = []
            run_case(ctx, h, m, s, mini, strict, wd, "shn", layout, known=kn)
            if kn:
                what = kn[0]
            else:
                mini = files
        finally:
            h.close(); m.close()
        ctx.violation(K_NESTED, what,
                      {"schema_express": s.express(), "schema_name": s.name, "strict": strict,
                       "files": [G.render(s.name, p, None if layout is None else random.Random(layout * 31 + fi)) for fi, (_, p) in enumerate(mini)],
                       "how": "exp2cxx the schema, link harness/h_p21.cc; `reset <strict>`, `read files[0]`, `append files[1..]`, `dump`, `write OUT 0`"})
    ctx.sample({"schema": schemas[0].express()[:1000]})
    ex_files = gen_files(ctx.rng, schemas[0], True)
    ctx.sample({"history": [G.render(schemas[0].name, p)[-400:] for _, p in ex_files]})
    ctx.cov["rule"] = ("histories read A; append B[; append C] over conforming closed populations of generated schemas "
                       "(all attribute kinds incl. references in plain attributes, entity aggregates, selects, select "
                       "aggregates, complex parts); id schemes: identical to the previous file, dense, sparse, around "
                       "multiples of 1000, large, the int32 boundary; strict and lenient alternate; every 3rd history with white space / line breaks around every token incl. inside aggregates and comments between instances")


def replay(ctx, path):
    d = json.load(open(path))
    r = d.get("replay", d)
    ctx.lean("StepModel.Props.C14", exes=["m_c14"], extractors=EXTRACTORS)
    b = ctx.build("plain")
    wd = os.path.join(ctx.work, "replay")
    os.makedirs(wd, exist_ok=True)
    exp = os.path.join(wd, r["schema_name"] + ".exp")
    open(exp, "w").write(r["schema_express"])
    exe = os.path.join(wd, "h_p21")
    B.gen_schema_lib(b, exp, os.path.join(wd, "gen"), [HARNESS], exe)
    h = Harness(exe, b.env())
    try:
        files = []
        h.cmd(f"reset {r['strict']}")
        reads = []
        for fi, txt in enumerate(r["files"]):
            p = os.path.join(wd, f"f{fi}.p21")
            open(p, "w").write(txt)
            files.append(("replay", [i for _, i in G.parse_p21(txt)[2]]))
            reads.append(kv(h.cmd(("read " if fi == 0 else "append ") + p)))
        final = parse_dump(h.cmd("dump"))
        outp = os.path.join(wd, "out.p21")
        h.cmd(f"write {outp} 0")
        written = [i for _, i in G.parse_p21(open(outp).read())[2]]
        print("reads:", reads)
        print("written:", [G.render_inst(i) for i in written])
        schema = _SchemaFromExpress(r["schema_express"])
        e = oracle(files, reads, final, written, schema)
        if not e:
            expected = []
            for fi, (_, pop) in enumerate(files):
                k = 0 if fi == 0 else written[len(expected)].id - pop[0].id
                expected += [G.shift_inst(i, k) for i in pop]
            e = memory_check(h, schema, expected)
        if e:
            ctx.violation(d.get("key", "replay"), e, r)
    finally:
        h.close()

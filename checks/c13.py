"""C13 — the instance manager stays consistent under any sequence of operations.

proof:           lean/StepModel/Props/C13.lean (invariant on every reachable state + the statement's clauses)
regenerated tie: tools/extract.d/instmgr.py -> Generated/InstMgrGen.lean (NextFileId rule, reset values, sentinel)
correspondence:  harness/h_instmgr.cc (real InstMgr, in-process) vs lean exe m_c13 on identical op streams
oracle:          the statement's clauses evaluated on the *implementation's* answers (oracle() below)
"""
import itertools, json, os, subprocess, sys, time
from vlib import build as B

HERE = os.path.dirname(os.path.abspath(__file__))
VERIF = os.path.dirname(HERE)
STATES = ["completeSE", "incompleteSE", "deleteSE", "newSE", "noStateSE"]


# ---------------------------------------------------------------- generation
def enabled_ops(alive, live, nh, ids):
    """ops that are inside the API contract in abstract state (alive handles, live handle list)"""
    ops = []
    for h in range(nh):
        if h not in alive:
            for i in ids:
                ops.append(("new", h, i))
        else:
            ops.append(("append", h, "completeSE"))
            if h in live:
                ops.append(("delinst", h))
    for i in range(min(len(live), 2)):
        ops.append(("delnode", i))
    if live:
        ops.append(("state", 0, "incompleteSE"))
        ops.append(("state", len(live) - 1, "noStateSE"))
    ops.append(("clear",))
    ops.append(("deleteall",))
    return ops


def apply_abs(alive, live, op):
    alive, live = set(alive), list(live)
    k = op[0]
    if k == "new":
        alive.add(op[1])
    elif k == "append":
        if op[1] not in live:
            live.append(op[1])
    elif k == "delinst":
        live.remove(op[1]); alive.discard(op[1])
    elif k == "delnode":
        h = live.pop(op[1]); alive.discard(h)
    elif k == "clear":
        live = []
    elif k == "deleteall":
        for h in live:
            alive.discard(h)
        live = []
    return alive, live


def op_line(op):
    k = op[0]
    if k == "new":
        return f"new {op[1]} {op[2]} {op[1] % 3}"
    if k == "append":
        return f"append {op[1]} " + (op[2] if len(op) > 2 else "completeSE")
    if k == "state":
        return f"state {op[1]} {op[2]}"
    if k in ("delinst", "delnode", "peek"):
        return f"{k} {op[1]}"
    return k


def exhaustive(depth, nh, ids, peeks=False):
    """all op sequences of exactly `depth` enabled ops (DFS), as lists of ops; with `peeks` also look-ups by index
    below, at and beyond the count (and beyond the default capacity)"""
    out = []

    def rec(alive, live, seq):
        if len(seq) == depth:
            out.append(list(seq)); return
        ops = enabled_ops(alive, live, nh, ids)
        if peeks:
            ops = ops + [("peek", 0), ("peek", len(live)), ("peek", 1024)]
        for op in ops:
            a2, l2 = apply_abs(alive, live, op)
            seq.append(op); rec(a2, l2, seq); seq.pop()
    rec(set(), [], [])
    return out


def random_seq(rng, length, nh, ids, p_del=0.3):
    alive, live, seq = set(), [], []
    for _ in range(length):
        r = rng.random()
        dead = [h for h in range(nh) if h not in alive]
        if dead and r < 0.30:
            op = ("new", rng.choice(dead), rng.choice(ids))
        elif alive and r < 0.62:
            op = ("append", rng.choice(sorted(alive)), rng.choice(STATES[:4]))
        elif live and r < 0.62 + p_del / 2:
            op = ("delnode", rng.randrange(len(live)))
        elif live and r < 0.62 + p_del:
            op = ("delinst", rng.choice(live))
        elif live and r < 0.97:
            op = ("state", rng.randrange(len(live)), rng.choice(STATES))
        elif r < 0.982:
            op = ("clear",)
        elif r < 0.99:
            op = ("deleteall",)
        else:
            # look-up by index anywhere: below the count, at it, far above it and beyond the default capacity
            op = ("peek", rng.choice([0, len(live), len(live) + 1, max(0, len(live) - 1), 1023, 1024, 1500, 5000]))
        if op[0] == "append" and len(op) == 2:
            op = op + ("completeSE",)
        alive, live = apply_abs(alive, live, op)
        seq.append(op)
    return seq


def growth_seq(n):
    """more live instances than ARRAY_DEFAULT_SIZE: exercises GenNodeArray::Check growth + memmove on removal"""
    seq = []
    for h in range(n):
        seq.append(("new", h, 0 if h % 3 else 5 * h + 1))
        seq.append(("append", h, "completeSE"))
    for i in [0, n // 2, n - 3]:
        seq.append(("delnode", i))
    for i in [0, n - 4, n - 3, n, 2 * n + 5, 10 * n]:
        seq.append(("peek", i))
    seq.append(("new", n, 0)); seq.append(("append", n, "completeSE"))
    seq.append(("deleteall",)); seq.append(("peek", 0)); seq.append(("peek", n))
    return seq


# ---------------------------------------------------------------- running both sides
def stream_for(histories, own, dump_every=1):
    lines, index = [], []     # index: (history#, op# or -1 for reset, kind)
    for hi, seq in enumerate(histories):
        lines.append(f"reset {own}"); index.append((hi, -1, "reset"))
        for oi, op in enumerate(seq):
            lines.append(op_line(op)); index.append((hi, oi, "op"))
            if dump_every == 1 or (oi + 1) % dump_every == 0 or oi == len(seq) - 1:
                lines.append("dump"); index.append((hi, oi, "dump"))
    return lines, index


def run_proc(cmd, lines, env=None, timeout=1800):
    r = subprocess.run(cmd, input="\n".join(lines) + "\n", capture_output=True, text=True, env=env,
                       timeout=timeout)
    return r.returncode, r.stdout.split("\n")[:-1] if r.stdout.endswith("\n") else r.stdout.split("\n"), r.stderr


# ---------------------------------------------------------------- the property oracle on real output
def parse_dump(line):
    # D cnt=N max=M | h/id/name/st/idx ... | find k>h ... | kw a b c | none 0- ... | by x x x; ... | above -- -- --
    parts = [p.strip() for p in line[2:].split("|")]
    head = dict(kv.split("=") for kv in parts[0].split())
    nodes = []
    for t in parts[1].split():
        h, i, nm, st, idx = t.split("/")
        nodes.append(dict(h=int(h), id=int(i), name=int(nm), st=st, idx=int(idx)))
    find = {}
    for t in parts[2].split()[1:]:
        k, h = t.split(">")
        find[int(k)] = h
    kw = [int(x) for x in parts[3].split()[1:]]
    none = parts[4].split()[1:]
    by = [g.split() for g in parts[5][2:].strip().split(";") if g.strip() != ""]
    above = parts[6].split()[1:] if len(parts) > 6 else []
    return dict(cnt=int(head["cnt"]), max=int(head["max"]), nodes=nodes, find=find, kw=kw, by=by, above=above, none=none)


class Oracle:
    """C13's statement, clause by clause, over the answers of one manager for one history."""

    def __init__(self):
        self.live = []          # handles in insertion order
        self.state = {}
        self.ids = {}           # last id each alive instance is known to carry
        self.seen = set()       # ids seen since the manager was last emptied

    def op(self, op, res):
        """returns an error string if the *result* of op contradicts the statement"""
        k = op[0]
        if res.startswith("R crash") or res.startswith("R bad-op"):
            return f"operation {op} answered {res!r}"
        if res == "R skipped":
            return None
        if k == "new":
            self.ids[op[1]] = op[2]
        elif k == "append":
            h = op[1]
            if res == "R null":
                if h not in self.live:
                    return f"Append of an instance that is not in the manager returned no node ({op})"
                return None
            _, _, idx, fid = res.split()
            idx, fid = int(idx), int(fid)
            if h in self.live:
                return f"Append of an instance already in the manager created a second node (count would exceed live instances) ({op})"
            prior = self.ids.get(h)
            live_ids = {self.ids[x] for x in self.live}
            if prior == 0 or prior in live_ids:
                if any(fid <= s for s in self.seen):
                    return f"automatically assigned id {fid} is not above every id seen since last emptied {sorted(self.seen)}"
            elif fid != prior:
                return f"explicit id {prior} was changed to {fid} although no live instance carried it"
            if idx != len(self.live):
                return f"appended node reports index {idx}, expected {len(self.live)}"
            self.ids[h] = fid
            self.live.append(h)
            self.state[h] = op[2]
            self.seen.add(fid)
        elif k == "delnode":
            h = self.live.pop(op[1]); self.ids.pop(h, None)
        elif k == "delinst":
            self.live.remove(op[1]); self.ids.pop(op[1], None)
        elif k == "state":
            if op[2] != "noStateSE":
                self.state[self.live[op[1]]] = op[2]
        elif k == "peek":
            want = str(self.live[op[1]]) if op[1] < len(self.live) else "-"
            got = res.split()[-1]
            if got != want:
                return (f"look-up by index {op[1]} (count {len(self.live)}) answers {got!r}, the statement requires "
                        f"{want!r} (the i-th surviving instance, nothing at or above the count)")
        elif k == "clear":
            self.live = []; self.seen = set()
        elif k == "deleteall":
            for h in self.live:
                self.ids.pop(h, None)
            self.live = []; self.seen = set()
        return None

    def dump(self, d):
        if d["cnt"] != len(self.live):
            return f"count {d['cnt']} != number of live instances {len(self.live)}"
        got = [n["h"] for n in d["nodes"]]
        if got != self.live:
            return f"instances by index {got} != surviving instances in insertion order {self.live}"
        for i, n in enumerate(d["nodes"]):
            if n["idx"] != i:
                return f"instance at position {i} reports index {n['idx']}"
            if n["st"] != self.state.get(n["h"]):
                return f"instance at position {i} has state {n['st']}, expected {self.state.get(n['h'])}"
            if n["id"] != self.ids.get(n["h"]):
                return f"instance {n['h']} carries id {n['id']}, last assigned {self.ids.get(n['h'])}"
        if any("X" in a for a in d["above"]):
            return (f"look-up by index at/above the count ({d['cnt']}) answers an instance or node "
                    f"(GetApplication_instance/GetMgrNode at count+0..2: {d['above']}): there is no such live instance")
        if any(x != "0-" for x in d["none"]):
            return (f"look-up by a keyword that names no entity (a proper prefix of a name, a name with a suffix, the empty "
                    f"keyword) counts or returns instances: {d['none']} (count, first match from 0)")
        ids = [n["id"] for n in d["nodes"]]
        if len(set(ids)) != len(ids):
            return f"two live instances carry the same id: {ids}"
        exp = {n["id"]: str(n["h"]) for n in d["nodes"] if -2 <= n["id"] <= d["max"] + 2}
        if d["find"] != exp:
            return f"look-up by id answers {d['find']}, live ids are {exp}"
        if any(i > d["max"] for i in ids):
            return f"maximum id {d['max']} is below a live id {ids}"
        for a in range(3):
            c = sum(1 for n in d["nodes"] if n["name"] == a)
            if d["kw"][a] != c:
                return f"EntityKeywordCount(name {a}) = {d['kw'][a]}, expected {c}"
            for st in range(d["cnt"] + 1):
                exp_h = next((str(n["h"]) for n in d["nodes"][st:] if n["name"] == a), "-")
                if d["by"][a][st] != exp_h:
                    return f"look-up by name {a} from {st} = {d['by'][a][st]}, first match at/after is {exp_h}"
        return None


def evaluate(ctx, histories, own, real_cmd, model_cmd, env, dump_every=1, label=""):
    """run one batch; returns list of (history#, kind, detail) problems: kind in {'property','correspondence'}"""
    lines, index = stream_for(histories, own, dump_every)
    rc_r, out_r, err_r = run_proc(real_cmd, lines, env=env)
    rc_m, out_m, err_m = run_proc(model_cmd, lines)
    problems = []
    if rc_m != 0 or len(out_m) != len(lines):
        problems.append((0, "correspondence", f"model driver rc={rc_m} lines={len(out_m)}/{len(lines)} {err_m[-300:]}"))
        return problems
    real_ok = (rc_r == 0 and len(out_r) == len(lines))
    # walk
    orc, bad_h, corr_h = None, set(), set()
    for j, (hi, oi, kind) in enumerate(index):
        if hi in bad_h:
            continue
        if j >= len(out_r):
            problems.append((hi, "property", f"implementation died (rc={rc_r}) at op {oi} of history: {err_r[-400:]}"))
            bad_h.add(hi)
            break
        if kind == "reset":
            orc = Oracle()
        elif kind == "op":
            e = orc.op(histories[hi][oi], out_r[j])
            if e:
                problems.append((hi, "property", f"after op #{oi}: {e}")); bad_h.add(hi); continue
        else:
            try:
                e = orc.dump(parse_dump(out_r[j]))
            except Exception as ex:  # unparsable real output
                e = f"unparsable answer {out_r[j][:200]!r} ({ex})"
            if e:
                problems.append((hi, "property", f"after op #{oi}: {e}")); bad_h.add(hi); continue
        if out_r[j] != out_m[j] and hi not in corr_h:
            # keep judging this history with the oracle: the disagreement may be the first sign of a violation
            problems.append((hi, "correspondence", f"op #{oi}: impl {out_r[j][:300]!r} vs model {out_m[j][:300]!r}"))
            corr_h.add(hi)
    if not real_ok and not problems:
        problems.append((0, "property", f"implementation exited rc={rc_r}: {err_r[-400:]}"))
    for hi, seq in enumerate(histories):
        ctx.count(1, key=(own,) + tuple(seq))
        for op in seq:
            ctx.hist("operations", op[0])
    return problems


def shrink(ctx, seq, own, real_cmd, model_cmd, env, kind, budget_s=90):
    """delta-debug the op list (chunks of n/2, n/4, … 1 ops) while the same kind of problem persists; bounded in time so
    that a tree on which thousands of long histories fail still reports within minutes"""
    t_end = time.time() + budget_s
    def fails(s):
        pr = evaluate(_NullCtx(), [s], own, real_cmd, model_cmd, env)
        return any(k == kind for _, k, _ in pr)
    cur = list(seq)
    chunk = max(1, len(cur) // 2)
    while len(cur) > 1 and time.time() < t_end:
        changed = False
        i = 0
        while i < len(cur) and time.time() < t_end:
            cand = cur[:i] + cur[i + chunk:]
            # keep the sequence inside the API contract
            if cand and in_contract(cand) and fails(cand):
                cur = cand; changed = True
            else:
                i += chunk
        if chunk == 1 and not changed:
            break
        if not changed or chunk > 1:
            chunk = max(1, chunk // 2)
    return cur


def in_contract(seq):
    alive, live = set(), []
    for op in seq:
        k = op[0]
        if k == "new" and op[1] in alive: return False
        if k == "append" and op[1] not in alive: return False
        if k == "delinst" and op[1] not in live: return False
        if k in ("delnode", "state") and op[1] >= len(live): return False
        alive, live = apply_abs(alive, live, op)
    return True


class _NullCtx:
    def count(self, *a, **k): pass
    def hist(self, *a, **k): pass


def key_of(seq):
    """canonical form of a history: handles renamed in order of first use"""
    ren = {}
    out = []
    for op in seq:
        if op[0] in ("new", "append", "delinst"):
            h = ren.setdefault(op[1], len(ren))
            op = (op[0], h) + tuple(op[2:])
        out.append("-".join(str(x) for x in op))
    return "ops:" + ",".join(out)


def report(ctx, problems, histories, own, real_cmd, model_cmd, env):
    seen_kinds = set()
    for hi, kind, detail in problems:
        if kind != "property":
            continue
        seq = shrink(ctx, histories[hi], own, real_cmd, model_cmd, env, "property")
        pr = evaluate(_NullCtx(), [seq], own, real_cmd, model_cmd, env)
        det = next((d for _, k, d in pr if k == "property"), detail)
        ctx.violation(key_of(seq), det, {"owning": own, "ops": [op_line(o) for o in seq],
                                          "how": "feed the lines (after `reset <owning>`, with `dump` after each) to harness/h_instmgr.cc built against /repo"})
        seen_kinds.add("property")
        if len(ctx.violations) >= 3:
            break



# ---------------------------------------------------------------------------------------------------------------
# state lists (GenNodeList / MgrNodeList / GenericNode::Remove): model lean/StepModel/GenNodeList.lean, theorems
# C13_state_lists_* ; harness/h_gennodelist.cc vs m_c13l on identical op streams, plus a plain-list reference.
SL_NN = 8


def sl_ref_lines(seq):
    a, b, out = [], [], []
    for op in seq:
        n = op[-1]
        if op[0] == "c":
            if n == 1: b = []
            else: a = []
        else:
            if n in a: a.remove(n)
            if n in b: b.remove(n)
        if op[0] == "a":
            (b if op[1] == 1 else a).append(n)
        u = [x for x in range(2, SL_NN + 2) if x not in a and x not in b]
        f = lambda l: "".join(" %d" % x for x in l)
        out.append("F0:%s | R0:%s | F1:%s | R1:%s | U:%s" % (f(a), f(a[::-1]), f(b), f(b[::-1]), f(u)))
    return out


def sl_line(op):
    return "a %d %d" % (op[1], op[2]) if op[0] == "a" else "%s %d" % (op[0], op[1])


def sl_exhaustive(depth, nodes):
    ops = [("a", l, n) for l in (0, 1) for n in nodes] + [("r", n) for n in nodes] + [("c", 0), ("c", 1)]
    res = [[]]
    allh = []
    for _ in range(depth):
        res = [h + [o] for h in res for o in ops]
        allh += res
    return allh


def state_lists(ctx, b):
    exe = os.path.join(ctx.work, "h_gennodelist")
    B.compile_driver(b, [os.path.join(VERIF, "harness", "h_gennodelist.cc")], exe)
    model = ctx.model_exe("m_c13l")
    if not os.path.exists(model):
        return
    quick = ctx.tier == "quick"
    hist = sl_exhaustive(4 if quick else 5, [2, 3, 4])
    nr, rl = (300, 60) if quick else (3000, 200)
    for _ in range(nr):
        h = []
        for _ in range(ctx.rng.randint(1, rl)):
            n = ctx.rng.randint(2, SL_NN + 1)
            u = ctx.rng.random()
            h.append(("c", ctx.rng.randint(0, 1)) if u < 0.06 else ("r", n) if u < 0.33 else ("a", ctx.rng.randint(0, 1), n))
        hist.append(h)
    lines = []
    for h in hist:
        lines.append("reset")
        lines += [sl_line(o) for o in h]
    t = time.time()
    real = run_proc([exe], lines, env=b.env())[1]
    mod = run_proc([model], lines)[1]
    bad = None
    i = 0
    for hi, h in enumerate(hist):
        want = ["ok"] + sl_ref_lines(h)
        r, m = real[i:i + len(h) + 1], mod[i:i + len(h) + 1]
        i += len(h) + 1
        for k in range(len(h) + 1):
            rk = r[k] if k < len(r) else "<no output>"
            mk = m[k] if k < len(m) else "<no output>"
            if rk != want[k] or mk != want[k]:
                who = ("implementation" if rk != want[k] else "") + ("+model" if mk != want[k] else "")
                bad = (h[:k], who, want[k], rk, mk)
                break
        if bad:
            break
    for h in hist:
        ctx.count(1, key=("state-lists", tuple(h)))
    ctx.cov["correspondence"]["state-lists"] = {"histories": len(hist), "ops": len(lines) - len(hist), "problems": 0 if bad is None else 1,
                                                "wall_s": round(time.time() - t, 1),
                                                "rule": "every history of <= %d ops over {Append to A, Append to B, Remove} x 3 nodes + ClearEntries of A or B, plus %d random histories of up to %d ops over %d nodes; after every op the forward and backward traversal of both lists and the set of unlinked nodes, compared three ways (real MgrNodeList/MgrNode, Lean model, plain-list reference)" % (4 if quick else 5, nr, rl, SL_NN)}
    if bad:
        pre, who, want, rk, mk = bad
        ctx.broken.append(("correspondence GenNodeList model vs src/clutils/gennodelist.cc, include/clutils/gennode.h, src/clstepcore/mgrnodelist.cc",
                           "%s deviates from the list reference after %s: expected '%s', implementation '%s', model '%s' (state lists are outside the clauses of the statement, so no failing input of the property itself is claimed)"
                           % (who, [sl_line(o) for o in pre], want, rk, mk)))


def run(ctx):
    ctx.trusted += [
        "tools/extract.d/instmgr.py (regex translation of NextFileId/reset values/sentinel to Lean)",
        "hand-written model lean/StepModel/InstMgr.lean of instmgr.cc, mgrnodearray.cc, gennodearray.cc (modelled, tied by correspondence)",
        "harness/h_instmgr.cc and the op generators in checks/c13.py (what they do not generate is not compared)",
        "hand-written model lean/StepModel/GenNodeList.lean of gennodelist.cc / gennode.h / mgrnodelist.cc (state lists; tied by the correspondence of harness/h_gennodelist.cc)",
    ]
    ctx.assumptions += ["file ids stay below 2^31 (the model uses unbounded Int)",
                        "entity names are compared after PrettyTmpName normalisation; the model abstracts names to tags",
                        "API contract: indices < InstanceCount(), instances alive, Delete(instance) only for instances in the manager"]
    proof_ok = ctx.lean("StepModel.Props.C13", exes=["m_c13", "m_c13l"], extractors=["instmgr", "enums"])
    b = ctx.build("asan" if ctx.tier == "thorough" else "plain")
    exe = os.path.join(ctx.work, "h_instmgr")
    B.compile_driver(b, [os.path.join(VERIF, "harness", "h_instmgr.cc")], exe)
    real_cmd, model_cmd, env = [exe], [ctx.model_exe("m_c13")], b.env()
    if not os.path.exists(model_cmd[0]):
        return  # build failure already recorded
    quick = ctx.tier == "quick"
    nh, ids = 3, [0, 1, 2]
    batches = []
    # corpus first
    cdir = os.path.join(VERIF, "corpus", "C13")
    corpus = []
    if os.path.isdir(cdir):
        for f in sorted(os.listdir(cdir)):
            corpus.append([tuple(int(x) if isinstance(x, int) or str(x).lstrip("-").isdigit() else x for x in o) for o in json.load(open(os.path.join(cdir, f)))["ops"]])
    if corpus:
        batches.append(("corpus", corpus, 1))
    depth = 5 if quick else 6
    for d in range(1, depth + 1):
        batches.append((f"exhaustive-{d}", exhaustive(d, nh, ids), 1))
    batches.append(("exhaustive-with-lookups-4", exhaustive(4, 2, [0, 1], peeks=True), 1))
    nrand, rlen = (150, 120) if quick else (2500, 400)
    rnd = [random_seq(ctx.rng, rlen, 5, [0, 0, 1, 2, 3, 7, 1000, -4]) for _ in range(nrand)]
    batches.append(("random", rnd, 1))
    batches.append(("growth", [growth_seq(1100 if quick else 2300)], 64))
    corr = None          # first model/implementation disagreement (kept while the search goes on)
    stop = False
    for label, hist, de in batches:
        for own in (0, 1):
            t = time.time()
            pr = evaluate(ctx, hist, own, real_cmd, model_cmd, env, dump_every=de, label=label)
            ctx.cov["correspondence"][f"{label}/own={own}"] = {"histories": len(hist), "problems": len(pr),
                                                               "wall_s": round(time.time() - t, 1)}
            if any(k == "property" for _, k, _ in pr):
                report(ctx, pr, hist, own, real_cmd, model_cmd, env)
                stop = True
                break
            if pr and corr is None:
                hi, kind, detail = pr[0]
                seq = shrink(ctx, hist[hi], own, real_cmd, model_cmd, env, "correspondence")
                corr = (detail, [op_line(o) for o in seq])
                # violation search: the remaining batches still run, judged by the oracle alone
        if stop:
            break
    if not ctx.violations:
        state_lists(ctx, b)
    if corr is not None and not ctx.violations:
        ctx.cov["search"] = "model/implementation disagreement; every remaining history batch was still judged by the property oracle and satisfied it"
        ctx.broken.append(("correspondence InstMgr model vs src/clstepcore/instmgr.cc",
                           f"{corr[0]}; minimal disagreeing history: {corr[1]} (the property oracle is satisfied on every history explored)"))
    if hist:
        ctx.sample({"owning": 0, "ops": [op_line(o) for o in rnd[0][:25]]})
        ex = exhaustive(3, nh, ids)
        ctx.sample({"ops": [op_line(o) for o in ex[len(ex) // 2]]})
    ctx.cov["rule"] = ("op sequences inside the API contract: exhaustive DFS over enabled ops up to the depth shown "
                       "(3 handles, ids {0,1,2}), random long sequences (5 handles, ids incl. 0, negative, 1000), and a "
                       "growth history above ARRAY_DEFAULT_SIZE; each for owning and non-owning managers; distinct = distinct (owning, op list)")
    if not proof_ok and not ctx.violations:
        # a theorem no longer checks and the search above found no failing input -> reported by finish()
        pass


def replay(ctx, path):
    d = json.load(open(path))
    r = d.get("replay", d)
    seq = []
    for l in r["ops"]:
        w = l.split()
        if w[0] == "new":
            seq.append(("new", int(w[1]), int(w[2])))
        elif w[0] == "append":
            seq.append(("append", int(w[1]), w[2]))
        elif w[0] == "state":
            seq.append(("state", int(w[1]), w[2]))
        elif w[0] in ("delnode", "delinst"):
            seq.append((w[0], int(w[1])))
        else:
            seq.append((w[0],))
    ctx.lean("StepModel.Props.C13", exes=["m_c13"], extractors=["instmgr", "enums"])
    b = ctx.build("plain")
    exe = os.path.join(ctx.work, "h_instmgr")
    B.compile_driver(b, [os.path.join(VERIF, "harness", "h_instmgr.cc")], exe)
    pr = evaluate(ctx, [seq], r.get("owning", 0), [exe], [ctx.model_exe("m_c13")], b.env())
    report(ctx, pr, [seq], r.get("owning", 0), [exe], [ctx.model_exe("m_c13")], b.env())

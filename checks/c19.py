"""C19 — the Python aggregates (ARRAY/LIST/BAG/SET) enforce EXPRESS aggregate semantics.

proof:           lean/StepModel/Props/C19.lean — the model of AggregationDataTypes.py (lean/StepModel/PyAgg.lean) refines
                 Spec.Aggregate (lean/StepModel/PyAggSpec.lean) for all declarations and all histories
regenerated tie: tools/extract.d/pyagg.py -> Generated/PyAggGen.lean (ARRAY slot count / get_size, BAG/SET capacity test,
                 get_loindex values, parsed from the Python source with `ast`)
correspondence:  harness/h_pyagg.py (bundled runtime, in-process) vs `m_c19 model` on identical histories
oracle:          `m_c19 spec` = the executable Spec.Aggregate: every answer of the implementation must be the answer
                 EXPRESS gives (accept/refuse, value read, size, bounds, indices, uniqueness)
"""
import itertools, json, os, re, subprocess, sys, time
from concurrent.futures import ThreadPoolExecutor
from vlib import build as B

HERE = os.path.dirname(os.path.abspath(__file__))
VERIF = os.path.dirname(HERE)
HARNESS = os.path.join(VERIF, "harness", "h_pyagg.py")
QUERIES = [("size",), ("hiindex",), ("loindex",), ("hibound",), ("lobound",), ("unique",)]
EXTRACTORS = ["pyagg"]
BUILTINS = [("bi", f) for f in ("SIZEOF", "HIINDEX", "LOINDEX", "HIBOUND", "LOBOUND", "VALUE_UNIQUE")]

# a history: (decl, ops) ; decl = (kind, lo, hi|None, base, unique, optional, byname) ; op = tuple


def nlines(h):
    return len(h[1]) + 2          # reset, new, ops


def decl_line(d):
    k, lo, hi, base, u, o, n = d
    return f"new {k} {lo} {'?' if hi is None else hi} {base} {int(u)} {int(o)} {int(n)}"


def op_line(op):
    if op[0] == "new":
        return decl_line(op[1:])
    return " ".join(str(x) for x in op)


def hist_lines(h):
    """`reset` forgets the containers of the previous history; the interpreter (and whatever module-level state the
    runtime keeps) lives on: many histories run in one process"""
    return ["reset", decl_line(h[0])] + [op_line(o) for o in h[1]]


def key_of(h):
    d = h[0]
    return (f"{d[0]}[{d[1]}:{'?' if d[2] is None else d[2]}]b{d[3]}" + ("U" if d[4] else "") + ("O" if d[5] else "")
            + "|" + ";".join(op_line(o).replace(" ", ",") for o in h[1]))


# ---------------------------------------------------------------- generation
def is_nested(base):
    return isinstance(base, str) and base[:1] in "ALBS"


def is_select(base):
    return isinstance(base, str) and base[:1] == "s"


def select_tags(base):
    m = int(base[1:])
    return [i for i in range(8) if m >> i & 1]


FLIP = {"A": "L", "L": "A", "B": "S", "S": "B"}


def values(base):
    """two values of the base type (for element aggregates: payload 0 = built over the declaration's own base-type object,
    payload 1 = over a fresh, structurally equal one), then ill-typed ones"""
    if is_nested(base):
        k, inner = base[0], base[1:]
        out = [(base, 0), (base, 1)]
        if len(inner) == 1:
            b = int(inner)
            return out + [(f"{k}{(b + 1) % 3}", 0), (f"{FLIP[k]}{b}", 0), (0 if b == 5 else b, 0)]
        return out + [(k + FLIP[inner[0]] + inner[1:], 1),                        # the kind of an inner level differs
                      (k + FLIP[inner[0]] + inner[1:], 0),
                      (k + inner[:-1] + str((int(inner[-1]) + 1) % 3), 1),        # the simple type at the bottom differs
                      (FLIP[k] + inner, 1),                                       # the outermost kind differs
                      (k + inner[1:], 1)]                                         # one level missing
    if is_select(base):       # SELECT: values of every member type; then a value of a type outside the select
        tags = select_tags(base)
        bad = next(t for t in (3, 0, 2, 1, 4) if t not in tags)      # python-equal to a member where possible
        return [(tags[0], 0), (tags[-1], 0), (tags[0], 1), (bad, 0)]
    base = int(base)
    if base == 5:     # NUMBER: INTEGER and REAL values are both of the base type; INTEGER(0) == REAL(0.0) is ONE element
        return [(0, 0), (2, 0), (0, 1), (3, 0)]
    # the ill-typed value is one that python considers EQUAL to a value of the base type where such a type exists:
    # INTEGER(0) == REAL(0.0) == False; a membership test taken before the type check would let it through
    # (STRING / BINARY: each other's nearest relative - both python strings)
    other = {0: 2, 1: 8, 2: 0, 3: 0, 4: 3, 6: 7, 7: 6, 8: 1}[base]
    return [(base, 0), (base, 1), (other, 0)]


def good_tags(base):
    """the type tags whose values are of the (simple) base type"""
    if is_select(base):
        return select_tags(base)
    return [0, 2] if str(base) == "5" else [int(base)]


NUMERIC = [0, 2, 3]        # INTEGER, REAL (whole numbers), BOOLEAN: python-equal across types for the same number


def cross_type_alphabet(d):
    """two values of the base type and every differently typed value python-equal to one of them (plus unrelated ones),
    offered to the mutator of the aggregate"""
    k, lo, hi, base = d[0], d[1], d[2], d[3]
    offers = [(t, v) for t in good_tags(base) for v in (0, 1)]
    offers += [(t, v) for t in NUMERIC if t not in good_tags(base) for v in (0, 1)] + [(1, 0), (4, 0), (4, 1), (8, 0)]
    offers = list(dict.fromkeys(offers))
    if k == "ARRAY":
        return [("set", i) + v for i in range(lo, hi + 1) for v in offers]
    if k == "LIST":
        return [("set", i) + v for i in (1, 2) for v in offers]
    return [("add",) + v for v in offers]


def alphabet(d, rich=True):
    k, lo, hi, base = d[0], d[1], d[2], d[3]
    vs = values(base) if rich else values(base)[:2]
    if k == "ARRAY":
        idx = list(range(lo - 1, (hi if hi is not None else lo) + 2))
    elif k == "LIST":
        top = 3 if hi is None else min(hi, 3)
        idx = list(range(0, top + 2))
    else:
        third = [] if (str(base) in ("3", "5") or is_select(base)) else [(base, 2)]    # BOOLEAN: two values; NUMBER/SELECT: none of their own
        return [("add",) + v for v in vs + third]                   # a third value of the base type
    ops = [("set", i) + v for i in idx for v in vs]
    ops += [("get", i) for i in idx]
    return ops


def exhaustive(d, depth, rich=True, tail=None):
    """every op sequence of exactly `depth` ops over the declaration's alphabet, each followed by all queries"""
    al = alphabet(d, rich)
    tail = QUERIES if tail is None else tail
    return [(d, list(seq) + tail) for seq in itertools.product(al, repeat=depth)]


def array_decls(bounds, base=0):
    return [("ARRAY", lo, hi, base, u, o, 0) for (lo, hi) in bounds for u in (0, 1) for o in (0, 1)]


def list_decls(bounds, base=0):
    return [("LIST", lo, hi, base, u, 0, 0) for (lo, hi) in bounds for u in (0, 1)]


def coll_decls(bounds, base=0):
    return [(k, lo, hi, base, 0, 0, 0) for k in ("BAG", "SET") for (lo, hi) in bounds]


NESTED = ["A2", "L0", "B1", "S2", "A0", "L2"]
DEEP = ["LS2", "AL0", "SB1", "LAS2", "ASL1"]           # the container is nested three and four levels deep


ILLEGAL = [("ARRAY", 2, 1, 0, 0, 0, 0), ("ARRAY", 1, None, 0, 0, 0, 0), ("ARRAY", 0, -1, 0, 1, 1, 0),
           ("LIST", -1, 2, 0, 0, 0, 0), ("LIST", 3, 2, 0, 0, 0, 0), ("LIST", -1, None, 0, 1, 0, 0),
           ("BAG", -1, 1, 0, 0, 0, 0), ("BAG", 2, 1, 0, 0, 0, 0), ("SET", -2, None, 0, 0, 0, 0), ("SET", 4, 3, 0, 0, 0, 0)]


def random_decl(rng):
    k = rng.choice(["ARRAY", "LIST", "LIST", "BAG", "SET"])
    r = rng.random()
    base = (rng.choice(DEEP) if r < 0.12 else rng.choice(NESTED + ["A5", "S5", "L6"]) if r < 0.35
            else rng.choice([0, 1, 2, 3, 4, 5, 6, 7, 8, "s5", "s3", "s65", "s192", "s13"]))
    if k == "ARRAY":
        lo = rng.choice([-3, -1, 0, 1, 1, 2, 5])
        hi = lo + rng.choice([0, 1, 2, 3, 5, 8])
    else:
        lo = rng.choice([0, 0, 1, 2, 4])
        hi = None if rng.random() < 0.35 else lo + rng.choice([0, 1, 2, 3, 6])
    byname = int(rng.random() < 0.3 and isinstance(base, int) and base < 6)
    return (k, lo, hi, base, int(rng.random() < 0.5), int(rng.random() < 0.5), byname)


class Cursor:
    """generates the next operation for one container, aiming indices at interesting places"""
    def __init__(self, rng, d):
        self.rng, self.d, self.size = rng, d, 0
        self.nvals = rng.choice([2, 3, 6, 12])

    def val(self):
        rng, base = self.rng, self.d[3]
        def payload(t):
            return rng.randrange(2 if str(t) == "3" else self.nvals)       # BOOLEAN: False / True
        if rng.random() < (0.25 if is_nested(base) else 0.15):
            if is_nested(base):
                t = rng.choice(values(base)[2:])[0]
            else:
                t = rng.choice([x for x in (0, 1, 2, 3, 4, 6, 7, 8) if x not in good_tags(base)])   # often python-equal to a member
            return (t, payload(t))
        if is_nested(base):
            return (base, payload(base))
        t = rng.choice(good_tags(base))
        return (t, payload(t))

    def op(self):
        rng, (k, lo, hi) = self.rng, self.d[:3]
        r = rng.random()
        if k in ("BAG", "SET"):
            if r < 0.7:
                self.size += 1
                return ("add",) + self.val()
            return rng.choice(QUERIES + BUILTINS + self.mem())
        if k == "ARRAY":
            i = rng.randint(lo - 1, hi + 1)
        else:
            i = rng.choice([self.size + 1, self.size + 1, rng.randint(0, self.size + 2), rng.randint(1, max(1, self.size))])
        if r < 0.5:
            if i == self.size + 1:
                self.size += 1
            return ("set", i) + self.val()
        if r < 0.8:
            return ("get", i)
        return rng.choice(QUERIES + BUILTINS + [("biv", "SIZEOF", 0, 1)] + self.mem())

    def mem(self):
        """`value in container`, only when the containers define the membership test (else the probe reports the class)"""
        return [("mem",) + self.val(), ("mem",) + self.val()] if MEMBERSHIP["defined"] else []


MEMBERSHIP = {"defined": False}


def random_history(rng, length):
    d = random_decl(rng)
    c = Cursor(rng, d)
    return (d, [c.op() for _ in range(length)] + QUERIES)


def random_world(rng, length, n=3):
    """n containers side by side in one interpreter, their operations interleaved at random"""
    decls = [random_decl(rng) for _ in range(n)]
    if rng.random() < 0.7:          # same nested base type in two containers: shared-type state would show
        b = rng.choice(NESTED + DEEP)
        decls[0] = decls[0][:3] + (b,) + decls[0][4:6] + (0,)
        decls[1] = decls[1][:3] + (b,) + decls[1][4:6] + (0,)
    cur = [Cursor(rng, d) for d in decls]
    ops = []
    for i in range(1, n):
        ops += [("use", i), ("new",) + decls[i]]
    at = n - 1
    for _ in range(length):
        i = rng.randrange(n)
        if i != at:
            ops.append(("use", i)); at = i
        ops.append(cur[i].op())
    for i in range(n):
        ops += [("use", i)] + QUERIES
    return (decls[0], ops)


# ---------------------------------------------------------------- running the three sides
def canon(reply):
    return "refused" if reply.startswith("refused") else reply


def run_side(cmd, text, env=None):
    r = subprocess.run(cmd, input=text, capture_output=True, text=True, env=env, timeout=3600)
    out = r.stdout.split("\n")
    if out and out[-1] == "":
        out.pop()
    return r.returncode, out, r.stderr


class Sides:
    def __init__(self, ctx):
        self.model = [ctx.model_exe("m_c19"), "model"]
        self.spec = [ctx.model_exe("m_c19"), "spec"]
        self.impl = [sys.executable, "-B", HARNESS]
        self.env = dict(os.environ)
        self.env["VERIF_REPO"] = B.REPO

    def run(self, histories, workers=14):
        """-> per history: (impl replies, model replies, spec replies) ; raises on a dead side"""
        chunks, cur, n = [], [], 0
        target = max(2000, sum(nlines(h) for h in histories) // (workers * 2) + 1)
        for h in histories:
            cur.append(h); n += nlines(h)
            if n >= target:
                chunks.append(cur); cur, n = [], 0
        if cur:
            chunks.append(cur)

        def job(args):
            side, ci = args
            text = "\n".join(l for h in chunks[ci] for l in hist_lines(h)) + "\n"
            cmd = getattr(self, side)
            rc, out, err = run_side(cmd, text, self.env if side == "impl" else None)
            want = sum(nlines(h) for h in chunks[ci])
            if rc != 0 or len(out) != want:
                raise RuntimeError(f"{side} side died: rc={rc} lines={len(out)}/{want} {err[-400:]}")
            return side, ci, out
        res = {}
        with ThreadPoolExecutor(max_workers=workers) as ex:
            for side, ci, out in ex.map(job, [(s, i) for i in range(len(chunks)) for s in ("impl", "model", "spec")]):
                res[(side, ci)] = out
        outs = []
        for ci, ch in enumerate(chunks):
            p = 0
            for h in ch:
                m = nlines(h)
                outs.append(tuple(res[(s, ci)][p:p + m] for s in ("impl", "model", "spec")))
                p += m
        self.last_chunks = chunks
        return outs


def judge(h, outs):
    """-> None | ('property'|'correspondence', line#, detail)"""
    impl, model, spec = outs
    lines = hist_lines(h)
    for j, (a, s) in enumerate(zip(impl, spec)):
        if canon(a) != s:
            return ("property", j, f"step {j} `{lines[j]}`: the runtime answered `{a}`, EXPRESS requires `{s}`")
    for j, (a, m) in enumerate(zip(impl, model)):
        if canon(a) != m:
            return ("correspondence", j, f"step {j} `{lines[j]}`: the runtime answered `{a}`, the Lean model `{m}`")
    return None


class Distinct:
    """distinct (declaration, op list) counter: exhaustive batches are distinct by construction (counted), the others
    are remembered by hash"""
    def __init__(self):
        self.n, self.seen = 0, set()

    def add(self, key):
        self.seen.add(hash(key))

    def __len__(self):
        return self.n + len(self.seen)


def evaluate(ctx, sides, histories, label, slice_size=60000):
    """histories: iterable; evaluated in slices so that memory stays bounded"""
    import collections
    t = time.time()
    problems, nh, nl = [], 0, 0
    opc, ansc, declc = collections.Counter(), collections.Counter(), collections.Counter()
    it = iter(histories)
    exhaustive_batch = label.startswith("exhaustive")
    while True:
        part = list(itertools.islice(it, slice_size))
        if not part:
            break
        outs = sides.run(part)
        before = []                      # for every history: the histories run earlier in the same interpreter process
        for ch in sides.last_chunks:
            for pos in range(len(ch)):
                before.append((ch, pos))
        for (h, o), (ch, pos) in zip(zip(part, outs), before):
            d = h[0]
            declc[d[0] + ("[?]" if d[2] is None else "") + ("U" if d[4] else "") + ("O" if d[5] and d[0] == "ARRAY" else "")] += 1
            if o[1] != o[2] or any(a != m and canon(a) != m for a, m in zip(o[0], o[1])):
                j = judge(h, o)
                if j:
                    problems.append((h, j, ch[:pos]))
            if not exhaustive_batch and hasattr(ctx, "distinct"):
                ctx.distinct.add((h[0], tuple(h[1])))
        for h in part:
            opc.update(op[0] for op in h[1])
        for o in outs:
            ansc.update(o[0])
        nh += len(part); nl += sum(nlines(h) for h in part)
        if len(problems) > 5000:
            break
    if hasattr(ctx, "cov"):
        ctx.evals += nh
        if exhaustive_batch:
            ctx.distinct.n += nh
        for c, bucket in ((opc, "operations"), (declc, "declarations")):
            for k, v in c.items():
                ctx.hist(bucket, k, v)
        ctx.hist("operations", "new", nh)
        for k, v in ansc.items():
            w = k.split()
            ctx.hist("answers", w[0] + (" " + w[1] if w[0] in ("refused", "logical") else ""), v)
        ctx.cov["correspondence"][label] = {"histories": nh, "lines": nl, "problems": len(problems),
                                            "wall_s": round(time.time() - t, 1)}
    return problems


def still(sides, h, kind):
    j = judge(h, sides.run([h], workers=3)[0])
    return j if (j and j[0] == kind) else None


def shrink(sides, h, kind):
    """smallest history with the same kind of problem: cut after the failing step, then drop ops one by one,
    then pull indices and payloads towards small numbers"""
    d, ops = h
    j = still(sides, h, kind)
    if not j:
        return h, None
    ops = list(ops[:max(j[1] - 1, 0)])          # line j is op j-2 (line 0 = reset, line 1 = new)
    changed = True
    while changed and len(ops) > 0:
        changed = False
        for i in range(len(ops) - 1):          # keep the last (failing) op
            cand = ops[:i] + ops[i + 1:]
            if still(sides, (d, cand), kind):
                ops = cand; changed = True; break
    d = tuple(d[:6]) + (0,) if still(sides, (tuple(d[:6]) + (0,), ops), kind) else d
    return (d, ops), still(sides, (d, ops), kind)


def signature(h, j):
    """coarse class of a failure, used only to pick *different* failures for reporting"""
    impl_vs = j[2].split("answered `")[1].split("`")[0].split()[0], j[2].split("requires `")[-1].split("`")[0].split()[0]
    d = h[0]
    line = hist_lines(h)[j[1]].split()[0]
    return (d[0], d[2] is None, bool(d[4]), line) + impl_vs


def normalise(h):
    """rename payloads in order of first use (per type tag) so that equal failures get equal keys"""
    d, ops = h
    ren, out = {}, []
    for op in ops:
        if op[0] in ("set", "add"):
            t, v = op[-2], op[-1]
            m = ren.setdefault(t, {})
            nv = m.setdefault(v, len(m))
            op = op[:-1] + (nv,)
        out.append(op)
    return (d, out)


def in_company(sides, company, h, kind):
    """run `company` then `h` in ONE interpreter process; the verdict on h"""
    text_hist = list(company) + [h]
    res = {}
    for side in ("impl", "model", "spec"):
        text = "\n".join(l for x in text_hist for l in hist_lines(x)) + "\n"
        rc, out, err = run_side(getattr(sides, side), text, sides.env if side == "impl" else None)
        res[side] = out
    m = nlines(h)
    o = tuple(res[side][-m:] for side in ("impl", "model", "spec"))
    j = judge(h, o)
    return j if (j and j[0] == kind) else None


def interference(ctx, sides, h, j, prefix):
    """h fails after other histories ran in the same interpreter but not in a fresh one: that is a violation by itself
    (`C19_noninterference`: a container's answers depend on its own operations only)"""
    culprit = None
    for p in reversed(prefix[-400:]):
        if in_company(sides, [p], h, j[0]):
            culprit = [p]
            break
    if culprit is None:
        culprit = list(prefix)
        if not in_company(sides, culprit, h, j[0]):
            return False
    lines = [l for x in culprit + [h] for l in hist_lines(x)]
    key = "interference:" + key_of(h) + "<-" + (key_of(culprit[0]) if len(culprit) == 1 else f"{len(culprit)}-histories")
    ctx.violation(key, "the answer depends on what another container did earlier in the same interpreter (in a fresh process the "
                  "same history is answered as EXPRESS requires): " + j[2],
                  {"lines": lines, "how": "feed ALL lines to one `VERIF_REPO=<tree> python3 harness/h_pyagg.py` process and to "
                   "`m_c19 spec`; then feed only the lines from the last `reset` on to a fresh process: the last answer differs"})
    return True


def report(ctx, sides, problems, cap=8):
    seen, sigs = set(), set()
    props = [p for p in problems if p[1][0] == "property"]
    for h, j, prefix in sorted(props, key=lambda p: len(p[0][1])):
        sg = signature(h, j)
        if sg in sigs:
            continue
        sigs.add(sg)
        sh, sj = shrink(sides, h, "property")
        if not sj:
            # not reproducible in a fresh interpreter process
            if not interference(ctx, sides, h, j, prefix):
                ctx.broken.append(("flaky implementation answer", f"{j[2]} was observed once and reproduces neither alone nor after the same predecessors"))
            if len(ctx.violations) >= cap:
                break
            continue
        nh = normalise(sh)
        nj = still(sides, nh, "property")
        if nj:
            sh, sj = nh, nj
        k = key_of(sh)
        if k in seen:
            continue
        seen.add(k)
        ctx.violation(k, sj[2], {"lines": hist_lines(sh),
                                 "how": "feed the lines to `VERIF_REPO=<tree> python3 harness/h_pyagg.py` (implementation) and to "
                                        "`lean/.lake/build/bin/m_c19 spec` (EXPRESS); the answers differ at the last line"})
        if len(ctx.violations) >= cap:
            break
    if not props:
        for h, j, prefix in problems[:1]:
            sh, sj = shrink(sides, h, "correspondence")
            ctx.broken.append(("correspondence PyAgg model vs stepcode/AggregationDataTypes.py",
                               f"{(sj or j)[2]}; minimal history: {hist_lines(sh)} (the implementation's answers equal EXPRESS's on it)"))


# ---------------------------------------------------------------- the run
def corpus():
    out = []
    cdir = os.path.join(VERIF, "corpus", "C19")
    if os.path.isdir(cdir):
        for f in sorted(os.listdir(cdir)):
            if f.endswith(".json"):
                out.append(parse_lines(json.load(open(os.path.join(cdir, f)))["lines"]))
    return out


def _tok(x):
    return int(x) if re.fullmatch(r"-?\d+", x) else x


def _decl(w):
    return (w[1], int(w[2]), None if w[3] == "?" else int(w[3]), _tok(w[4]), int(w[5]), int(w[6]), int(w[7]))


def parse_lines(lines):
    lines = [l for l in lines if l.split() != ["reset"]]
    w = lines[0].split()
    assert w[0] == "new"
    d = _decl(w)
    ops = []
    for l in lines[1:]:
        t = l.split()
        ops.append(("new",) + _decl(t) if t[0] == "new" else tuple([t[0]] + [_tok(x) for x in t[1:]]))
    return (d, ops)


def gen(decls, depth, rich=True):
    return (h for d in decls for h in exhaustive(d, depth, rich))


def batches(ctx):
    quick = ctx.tier == "quick"
    yield "corpus", corpus()
    yield "illegal-declarations", [(d, [("size",)]) for d in ILLEGAL] + [(d[:6] + (1,), [("size",)]) for d in ILLEGAL]
    tiny_arr = [(0, 0), (1, 1)]
    small_arr = tiny_arr + [(1, 2), (-1, 0), (2, 3)]
    big_arr = [(0, 2), (1, 3), (-1, 1)]
    lst_b = [(0, 0), (0, 1), (0, 2), (1, 2), (2, 3), (1, 3), (0, None), (1, None), (3, None)]
    col_b = [(0, 0), (0, 1), (0, 2), (1, 1), (1, 2), (2, 3), (3, 3), (2, 5), (0, None), (2, None)]
    da, dl, dc = (3, 3, 6) if quick else (4, 4, 8)
    for depth in range(1, da + 1):
        yield f"exhaustive-ARRAY-{depth}", gen(array_decls(small_arr + big_arr), depth)
    if quick:
        yield "exhaustive-ARRAY-tiny-4", gen(array_decls(tiny_arr), 4)
    else:
        yield "exhaustive-ARRAY-tiny-5", gen(array_decls(tiny_arr), 5)
        yield "exhaustive-ARRAY-small-5-two-values", gen(array_decls([(1, 2)]), 5, rich=False)
    for depth in range(1, dl + 1):
        yield f"exhaustive-LIST-{depth}", gen(list_decls(lst_b), depth)
    if quick:
        yield "exhaustive-LIST-4-two-values", gen(list_decls([(0, 1), (1, 2)]), 4, rich=False)
    else:
        yield "exhaustive-LIST-5-two-values", gen(list_decls([(0, 1), (1, 2), (0, None)]), 5, rich=False)
    for depth in range(1, dc + 1):
        yield f"exhaustive-BAG-SET-{depth}", gen(coll_decls(col_b), depth)
    yield "exhaustive-byname", gen([d[:6] + (1,) for d in array_decls([(1, 2)]) + list_decls([(0, 2), (1, None)]) + coll_decls([(1, 2)])], 2)
    # aggregates of aggregates: check_type against an aggregate base type (class + base type of the element)
    def nested(bases, depth, full=True):
        return (h for b in bases
                for d in (array_decls([(1, 2)], b) + list_decls([(0, None), (0, 2)], b) + coll_decls([(0, None), (0, 2)], b) if full
                          else array_decls([(1, 2)], b)[1:3] + list_decls([(0, None)], b) + coll_decls([(0, None)], b))
                for h in exhaustive(d, depth))
    for depth in (1, 2):
        yield f"exhaustive-nested-{depth}", nested(NESTED[:4] if quick else NESTED, depth)
    if quick:
        yield "exhaustive-nested-3", nested(NESTED[:2], 3, full=False)
    else:
        yield "exhaustive-nested-3", nested(NESTED, 3)
        yield "exhaustive-nested-4", nested(NESTED[:1], 4, full=False)
    # values of another type that python considers equal to a member, offered to every mutator of every kind
    ct_decls = [d for b in (0, 2, 3, 4, 1, 5, "s5", "s9")
                for d in array_decls([(1, 2)], b) + list_decls([(0, None), (0, 2)], b) + coll_decls([(0, None), (0, 1), (0, 2)], b)]
    for depth in ((1, 2) if quick else (1, 2, 3)):
        yield f"exhaustive-cross-type-equal-{depth}", ((d, list(seq) + QUERIES) for d in ct_decls
                                                      for seq in itertools.product(cross_type_alphabet(d), repeat=depth))
    # LOGICAL and BOOLEAN base types (Unknown, False/True) through the ordinary alphabets
    for depth in (1, 2, 3):
        yield f"exhaustive-logical-boolean-number-enum-select-{depth}", (h for b in ((3, 4, 5, 6, 1, 8, "s3", "s65", "s13") if (depth < 3 or not quick) else (4, 5, 8, "s13"))
                                                     for d in array_decls([(1, 2)], b) + list_decls([(0, None), (0, 2)], b) + coll_decls([(0, None), (0, 2)], b)
                                                     for h in exhaustive(d, depth))
    # the built-in functions of Builtin.py on every state reached by short histories
    for depth in (1, 2, 3):
        yield f"exhaustive-builtins-{depth}", (h for d in array_decls([(1, 2)]) + list_decls([(0, 2), (1, None)]) + coll_decls([(0, 2), (2, None)])
                                              for h in exhaustive(d, depth, tail=BUILTINS + [("biv", "HIBOUND", 1, 0)] + QUERIES))
    # three and four levels: the comparison of the element's base type with the declared one at every level
    for depth in ((1, 2) if quick else (1, 2, 3)):
        yield f"exhaustive-deep-nested-{depth}", (h for b in (DEEP[:4] if quick else DEEP)
                                                 for d in (array_decls([(1, 2)], b)[1:3] + list_decls([(0, None)], b)
                                                           + coll_decls([(0, None), (0, 2)], b))
                                                 for h in exhaustive(d, depth))
    n, ln = (400, 40) if quick else (20000, 50)
    yield "random", [random_history(ctx.rng, ln) for _ in range(n)]
    # several containers side by side in one interpreter, operations interleaved
    nw = 300 if quick else 6000
    yield "interleaved-containers", [random_world(ctx.rng, 60 if quick else 90) for _ in range(nw)]
    # the same histories again, in another order and in other company (each chunk = one interpreter process)
    again = [random_history(ctx.rng, 25) for _ in range(300 if quick else 4000)]
    yield "company-a", again
    shuffled = list(again); ctx.rng.shuffle(shuffled)
    yield "company-b-shuffled", shuffled


def probe_element_bounds(ctx, sides):
    """element aggregates with their own bounds: the runtime's answer vs EXPRESS's specialization rule, for every pair of
    (kind, bounds) from a small table.  `check_type` does not look at bounds (its own @TODO): where the runtime accepts
    and EXPRESS refuses the difference is the class `element-bounds-ignored` (one finding); anything else is reported
    under its own key."""
    B = [(0, 2), (1, 2), (0, 3), (1, 5), (0, None), (2, None)]
    kinds = ["ARRAY", "LIST", "BAG", "SET"]
    lines = ["reset"]
    for k in kinds:
        for k2 in kinds:
            for (lo, hi) in B:
                for (lo2, hi2) in B:
                    if "ARRAY" in (k, k2) and (hi is None or hi2 is None):
                        continue
                    lines.append(f"fits {k} {lo} {'?' if hi is None else hi} {k2} {lo2} {'?' if hi2 is None else hi2}")
    text = "\n".join(lines) + "\n"
    out = {side: run_side(getattr(sides, side), text, sides.env if side == "impl" else None)[1] for side in ("impl", "model", "spec")}
    n_ignored = 0
    for i, l in enumerate(lines[1:], 1):
        a, m, sp = canon(out["impl"][i]), out["model"][i], out["spec"][i]
        ctx.count(1, key=l); ctx.hist("element-bounds", f"{a}/{sp}")
        if a != m:
            ctx.broken.append(("correspondence PyAgg model vs TypeChecker.check_type on element aggregates", f"`{l}`: runtime `{a}`, model `{m}`"))
            return
        if a == "ok" and sp == "refused":
            n_ignored += 1
            if n_ignored == 1:
                w = l.split()
                ctx.violation("element-bounds-ignored", f"`{l}`: the runtime stores a {w[1]} [{w[2]}:{w[3]}] OF REAL object where the declared element "
                              f"type is {w[4]} [{w[5]}:{w[6]}] OF REAL; EXPRESS (9.2.6/13.3.2) requires conforming bounds",
                              {"lines": ["reset", l], "how": "feed to harness/h_pyagg.py and to `m_c19 spec`"})
        elif a != sp:
            ctx.violation("element-bounds:" + l.replace(" ", ","), f"`{l}`: the runtime answered `{a}`, EXPRESS requires `{sp}`",
                          {"lines": ["reset", l], "how": "feed to harness/h_pyagg.py and to `m_c19 spec`"})
    ctx.cov["correspondence"]["element-bounds-probe"] = {"pairs": len(lines) - 1, "runtime_accepts_expresss_refuses": n_ignored}


def probe_specialization(ctx, sides):
    """the simple types: which value types the runtime stores for which base type, against EXPRESS's assignment
    compatibility (specializations included).  Where the runtime refuses what EXPRESS allows because of a specialization
    (INTEGER for REAL, BOOLEAN for LOGICAL) the difference is the class `simple-specialization-refused` (one finding);
    any other difference is reported under its own key."""
    tags = ["0", "1", "2", "3", "4", "6", "7", "8"]          # every value type against every base type: the full matrix
    bases = tags + ["5", "s5", "s3", "s24", "s65"]
    lines = ["reset"] + [f"accepts {t} {b}" for b in bases for t in tags]
    text = "\n".join(lines) + "\n"
    out = {side: run_side(getattr(sides, side), text, sides.env if side == "impl" else None)[1] for side in ("impl", "model", "spec")}
    n = 0
    for i, l in enumerate(lines[1:], 1):
        a, m, sp = canon(out["impl"][i]), out["model"][i], out["spec"][i]
        ctx.count(1, key=l); ctx.hist("simple-type-acceptance", f"{a}/{sp}")
        if a != m:
            ctx.broken.append(("correspondence PyAgg model vs TypeChecker.check_type on simple types", f"`{l}`: runtime `{a}`, model `{m}`"))
            return
        t, b = l.split()[1:]
        if a == "refused" and sp == "ok" and (t, b) in (("0", "2"), ("3", "4")):
            n += 1
            if n == 1:
                ctx.violation("simple-specialization-refused", f"`{l}`: the runtime refuses a value of a specialization (INTEGER for REAL, "
                              "BOOLEAN for LOGICAL) that EXPRESS lets stand for the declared base type (9.2.6, 13.3.2)",
                              {"lines": ["reset", l], "how": "feed to harness/h_pyagg.py and to `m_c19 spec`"})
        elif a != sp:
            ctx.violation("simple-acceptance:" + l.replace(" ", ","), f"`{l}`: the runtime answered `{a}`, EXPRESS requires `{sp}`",
                          {"lines": ["reset", l], "how": "feed to harness/h_pyagg.py and to `m_c19 spec`"})
    ctx.cov["correspondence"]["simple-specialization-probe"] = {"pairs": len(lines) - 1, "specializations_refused": n}


def probe_membership(ctx, sides):
    """`value IN aggregate` (python `value in container`): for every kind, a table of contents and offered values (present,
    absent, python-equal value of another type, a value of a foreign type, unset ARRAY slots, empty containers), the
    runtime's answer against EXPRESS 12.2.3 and — when the containers define `__contains__` in the modelled form
    (regenerated `membershipDefined`; the model answers `unmodelled` otherwise) — against the Lean model.  Where the
    runtime has no `__contains__` every difference is the class `membership-in-operator` (one finding)."""
    decls = [("ARRAY", 1, 3, 0, 0, 1, 0), ("ARRAY", 0, 2, 0, 0, 1, 0), ("ARRAY", -1, 1, 2, 1, 1, 0), ("LIST", 0, None, 0, 0, 0, 0), ("LIST", 0, 3, 2, 1, 0, 0),
             ("BAG", 0, None, 0, 0, 0, 0), ("BAG", 0, 3, 5, 0, 0, 0), ("SET", 0, None, 0, 0, 0, 0), ("SET", 0, 3, 5, 0, 0, 0), ("SET", 0, None, 1, 0, 0, 0)]
    probes = [(0, 0), (0, 1), (0, 2), (0, 3), (2, 1), (2, 2), (1, 1), (3, 1)]
    lines, slots = [], []
    for d in decls:
        base = d[3]
        own = base if base in (0, 1, 2) else 0
        fills = [[], [(own, 1)], [(own, 1), (own, 2)], [(own, 2), (own, 1), (own, 2)]]
        if base == 5:
            fills.append([(0, 1), (2, 2)])
        for fill in fills:
            lines.append("reset"); lines.append(decl_line(d))
            for i, (t, v) in enumerate(fill):
                lo = d[1]
                lines.append(f"set {lo + i if d[0] == 'ARRAY' else i + 1} {t} {v}" if d[0] in ("ARRAY", "LIST") else f"add {t} {v}")
            for (t, v) in probes:
                slots.append(len(lines)); lines.append(f"mem {t} {v}")
    text = "\n".join(lines) + "\n"
    out = {side: run_side(getattr(sides, side), text, sides.env if side == "impl" else None)[1] for side in ("impl", "model", "spec")}
    if not all(len(out[k]) == len(lines) for k in out):
        ctx.broken.append(("membership probe", f"reply counts {[len(out[k]) for k in out]} for {len(lines)} lines")); return
    bad = 0
    for i in slots:
        a, m, sp = canon(out["impl"][i]), out["model"][i], out["spec"][i]
        ctx.count(1, key=f"mem:{i}"); ctx.hist("membership", f"{a}/{sp}")
        if m != "unmodelled" and a != m:
            ctx.broken.append(("correspondence PyAgg model vs the containers' __contains__", f"line {i} `{lines[i]}`: runtime `{a}`, model `{m}`"))
            return
        if a != sp:
            bad += 1
            if bad == 1:
                j = max(k for k in range(i) if lines[k] == "reset")
                hist = lines[j:i + 1]
                key = "membership-in-operator" if m == "unmodelled" else "membership:" + ";".join(hist[1:]).replace(" ", ",")
                ctx.violation(key, f"`{lines[i]}` after `{'; '.join(hist[1:-1])}`: the runtime answered `{out['impl'][i]}`, EXPRESS (12.2.3) requires `{sp}`",
                              {"lines": hist, "how": "feed to harness/h_pyagg.py and to `m_c19 spec`"})
    ctx.cov["correspondence"]["membership-probe"] = {"probes": len(slots), "disagreements": bad, "modelled": out["model"][slots[0]] != "unmodelled"}


def fallback_generated():
    """When the extractor no longer matches the tree under test (a broken tie, reported by ctx.lean) the private Lean copy
    would keep whatever Generated file it had and the drivers might not build: give it the committed one (valid for /repo) so
    that the specification driver - the oracle - is current and the violation search can still produce a replay."""
    import importlib.util, shutil
    from vlib import lean as L
    src = os.path.join(VERIF, "lean", "StepModel", "Generated", "PyAggGen.lean")
    dst = os.path.join(L.GEN_DIR, "PyAggGen.lean")
    try:
        spec = importlib.util.spec_from_file_location("x_pyagg", os.path.join(VERIF, "tools", "extract.d", "pyagg.py"))
        m = importlib.util.module_from_spec(spec); spec.loader.exec_module(m)
        m.extract(B.REPO)
    except Exception:
        if os.path.abspath(src) != os.path.abspath(dst):
            shutil.copyfile(src, dst)


def run(ctx):
    ctx.trusted += [
        "tools/extract.d/pyagg.py (ast translation of the bound arithmetic in AggregationDataTypes.py to Lean)",
        "hand-written model lean/StepModel/PyAgg.lean of ARRAY/LIST/BAG/SET (modelled, tied by correspondence)",
        "lean/StepModel/PyAggSpec.lean: the reading of ISO 10303-11 8.2.1-8.2.4, 12.6.1, 13.3.2, 15.x used as specification",
        "harness/h_pyagg.py and the history generators in checks/c19.py (what they do not generate is not compared)",
    ]
    ctx.assumptions += [
        "values: INTEGER, STRING, REAL (whole numbers), BOOLEAN, LOGICAL, two ENUMERATIONs, element aggregates; base types additionally NUMBER and "
        "SELECTs of simple types; aggregates over SELECT objects built directly, STRING / BINARY widths are not modelled",
        "indices and bounds are Python ints (a non-int index/bound is outside the model)",
        "the lower bound of LIST/BAG/SET constrains the finished value, not the operations that build it",
    ]
    fallback_generated()
    proof_ok = ctx.lean("StepModel.Props.C19", exes=["m_c19"], extractors=EXTRACTORS)
    if not os.path.exists(ctx.model_exe("m_c19")):
        return
    sides = Sides(ctx)
    MEMBERSHIP["defined"] = "def __contains__" in open(os.path.join(B.REPO, "src", "exp2python", "python", "stepcode", "AggregationDataTypes.py")).read()
    ctx.distinct = Distinct()
    total = []
    for label, hs in batches(ctx):
        pr = evaluate(ctx, sides, hs, label)
        total += pr
        if len([p for p in total if p[1][0] == "property"]) > 5000:
            break
    if total:
        report(ctx, sides, total)
    probe_element_bounds(ctx, sides)
    probe_specialization(ctx, sides)
    probe_membership(ctx, sides)
    rnd = random_history(ctx.rng, 12)
    ctx.sample({"lines": hist_lines(rnd)})
    ctx.sample({"lines": hist_lines(exhaustive(("LIST", 1, 2, 0, 1, 0, 0), 2)[37])})
    ctx.cov["rule"] = ("histories = one declaration + operations; exhaustive: every sequence of exactly d item assignments / reads / adds "
                       "over indices lo-1..hi+1 (LIST: 0..min(hi,3)+1) and values {two of the base type, one of another type}, then all six "
                       "queries; random: long histories over larger bounds, 2-12 distinct payloads, 8% ill-typed values, 30% by-name "
                       "base types; distinct = distinct (declaration, op list)")
    if not proof_ok and not ctx.violations:
        pass  # a theorem no longer checks and the search found no failing input -> reported by finish()


def replay(ctx, path):
    d = json.load(open(path))
    r = d.get("replay", d)
    ctx.lean("StepModel.Props.C19", exes=["m_c19"], extractors=EXTRACTORS)
    sides = Sides(ctx)
    if any(l.startswith(("fits", "accepts")) for l in r["lines"]):
        ctx.distinct = Distinct()
        probe_element_bounds(ctx, sides)
        probe_specialization(ctx, sides)
        return
    h = parse_lines(r["lines"])
    ctx.distinct = Distinct()
    pr = evaluate(ctx, sides, [h], "replay")
    if pr:
        report(ctx, sides, pr)

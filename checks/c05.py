"""C05 — reading and writing Part 21 is memory-safe and terminates on any input  (level: partial).

proof:           lean/StepModel/Props/C05.lean — no-overflow theorems for the modelled fixed-capacity sites and fuel/step
                 bounds for the modelled skipping / recovery loops, instantiated with capacities, guards and limits
regenerated tie: tools/extract.d/c05_buffers.py -> Generated/C05Buffers.lean (array sizes, loop guards, MAX_COMMENT_LENGTH,
                 _maxErrorCount, getline count + give-up test, export-loop condition, every sprintf site)
correspondence:  harness/h_p21safe.cc built with ASan+UBSan against a sanitizer build of the working tree and generated
                 schema libraries:  (a) function level — each site / loop on swept and exhaustive-short inputs, answer
                 compared with the Lean driver m_c05 (ok / overflow / stream position and state bits / out-of-fuel);
                 (b) file level (TESTING, not proof) — read exchange file -> write exchange + working file, and
                 ReadWorkingFile, on grammar-aware mutants, truncations, exhaustive short attribute values.
oracle:          C05's statement on the implementation's observable behaviour: no sanitizer report, no signal, finishes
                 within a budget linear in the input (calibrated on the unmutated file), ends with a Severity enum value.
A failing input is minimised by bisection over the mutation parameter and compared with the model's predicted threshold.
"""
import itertools, json, math, os, random, re, subprocess, sys, threading, time
from concurrent.futures import ThreadPoolExecutor
from vlib import build as B, lean as L

LEVEL = "partial"
HERE = os.path.dirname(os.path.abspath(__file__))
VERIF = os.path.dirname(HERE)
CORPUS = os.path.join(VERIF, "corpus", "C05")
NPROC = min(16, os.cpu_count() or 8)

SCHEMAS = {"c05a": ["c05a-base.p21", "c05a-scope.p21", "c05a-work.p21"], "c05b": ["c05b-base.p21"]}
FN_LOOPS = ["skipinst", "findstart", "readcomment", "toksep", "findheader"]   # + "readdata1" on token sequences


# ---------------------------------------------------------------------------------------------- running the real code
def hexs(b):
    return b.hex() or "-"


class Real:
    """the sanitizer-built harness for one schema"""

    def __init__(self, ctx, b, schema, exp_path=None):
        self.ctx, self.b, self.schema = ctx, b, schema
        self.exe = os.path.join(ctx.work, f"h_p21safe_{schema}")
        B.gen_schema_lib(b, exp_path or os.path.join(CORPUS, schema + ".exp"), os.path.join(ctx.work, "gen_" + schema),
                         [os.path.join(VERIF, "harness", "h_p21safe.cc")], self.exe)
        self.env = b.env()
        self.env["C05_TMPDIR"] = ctx.work
        self.n = 0
        self.nlock = threading.Lock()   # run_list is called from several threads (ratio_stream): the list-file name is unique per call

    def classify(self, rc, err):
        """(kind, where) of a dead harness process"""
        m = re.search(r"ERROR: AddressSanitizer: ([\w-]+)", err)
        if m:
            kind = m.group(1)
        elif "runtime error:" in err:
            mm = re.search(r"runtime error: ([^\n]*)", err)
            kind = "ubsan:" + re.sub(r"0x[0-9a-f]+|\d+", "N", mm.group(1))[:60].strip().replace(" ", "-")
        elif rc == -14 or rc == 142:
            return "timeout", "alarm"
        elif rc < 0:
            kind = f"signal-{-rc}"
        else:
            kind = f"exit-{rc}"
        frames = re.findall(r"#\d+ 0x[0-9a-f]+ in ([^\s(]+)", err)
        where = next((f for f in frames if not f.startswith(("__", "std::", "operator", "_IO", "str", "mem"))
                      and "sanitizer" not in f and "interceptor" not in f), frames[0] if frames else "?")
        return kind, where

    def run_list(self, items, tag):
        """items: list of (mode, budget_s, bytes).  Returns per item either dict(E fields) or dict(fail=kind, where=…, err=…).
        A dying process is resumed after the item it died on."""
        res = [None] * len(items)
        start = 0
        while start < len(items):
            with self.nlock:
                self.n += 1
                serial = self.n
            lf = os.path.join(self.ctx.work, f"list-{tag}-{threading.get_ident()}-{serial}.txt")
            with open(lf, "w") as fh:
                for mode, budget, data in items[start:]:
                    fh.write(f"{mode} {budget} hex:{hexs(data)}\n")
            total = sum(bd for _, bd, _ in items[start:]) + 60
            try:
                r = subprocess.run([self.exe, "files", lf], capture_output=True, env=self.env, timeout=total)
                rc, out, err = r.returncode, r.stdout.decode("latin-1"), r.stderr.decode("latin-1")
            except subprocess.TimeoutExpired as ex:
                rc, out, err = -14, (ex.stdout or b"").decode("latin-1"), (ex.stderr or b"").decode("latin-1")
            os.unlink(lf)
            last_b = -1
            for line in out.splitlines():
                w = line.split()
                if w[0] == "B":
                    last_b = int(w[1])
                elif w[0] == "E":
                    d = dict(kv.split("=") for kv in w[2:])
                    res[start + int(w[1])] = {"sev": int(d["sev"]), "ord": int(d["ord"]), "n": int(d["n"]),
                                              "out": int(d["out"]), "ms": float(d["ms"]), "cpu": float(d.get("cpu", d["ms"]))}
            done = sum(1 for x in res[start:] if x is not None)
            if rc == 0 and done == len(items) - start:
                break
            # died on item last_b (relative)
            i = start + max(last_b, 0)
            if res[i] is None:
                kind, where = self.classify(rc, err)
                res[i] = {"fail": kind, "where": where, "err": err[-1800:]}
            elif rc != 0 and done == len(items) - start:
                kind, where = self.classify(rc, err)   # died at exit
                res[i] = {"fail": kind, "where": where + "(at-exit)", "err": err[-1800:]}
                break
            start = i + 1
        return res

    def run_parallel(self, items, tag):
        if not items:
            return []
        k = min(NPROC, max(1, len(items) // 8))
        chunks = [items[i::k] for i in range(k)]
        with ThreadPoolExecutor(k) as ex:
            outs = list(ex.map(lambda t: self.run_list(t[1], f"{tag}{t[0]}"), enumerate(chunks)))
        res = [None] * len(items)
        for ci, o in enumerate(outs):
            for j, v in enumerate(o):
                res[ci + j * k] = v
        return res

    def run_fn(self, lines):
        """function-level protocol; returns list of answers ('R i …' stripped to the part after the index),
        {'fail':…} for a line the process died on, or 'skipped' (a function that already died 3 times is not run again)"""
        res = [None] * len(lines)
        deaths = {}
        todo = list(range(len(lines)))
        while todo:
            dead_fns = {f for f, n in deaths.items() if n >= 3}
            for i in [i for i in todo if lines[i].split()[0] in dead_fns]:
                res[i] = "skipped"
            todo = [i for i in todo if lines[i].split()[0] not in dead_fns]
            if not todo:
                break
            inp = "".join(f"{j} {lines[i]}\n" for j, i in enumerate(todo))
            r = subprocess.run([self.exe, "fn"], input=inp.encode(), capture_output=True, env=self.env,
                               timeout=300 + len(todo) // 100)
            out, err = r.stdout.decode("latin-1"), r.stderr.decode("latin-1")
            got = 0
            for line in out.splitlines():
                w = line.split(" ", 2)
                if w[0] == "R":
                    res[todo[int(w[1])]] = w[2] if len(w) > 2 else ""
                    got += 1
            if r.returncode == 0 and got == len(todo):
                break
            if got >= len(todo):
                break
            i = todo[got]
            kind, where = self.classify(r.returncode, err)
            res[i] = {"fail": kind, "where": where, "err": err[-1800:]}
            fn = lines[i].split()[0]
            deaths[fn] = deaths.get(fn, 0) + 1
            todo = todo[got + 1:]
        return res


def run_model(ctx, lines):
    inp = "".join(f"{i} {l}\n" for i, l in enumerate(lines))
    r = subprocess.run([ctx.model_exe("m_c05")], input=inp, capture_output=True, text=True, timeout=1800)
    out = [None] * len(lines)
    for line in r.stdout.splitlines():
        w = line.split(" ", 2)
        if w[0] == "R" and w[1].isdigit():
            out[int(w[1])] = w[2] if len(w) > 2 else ""
    return out


# ---------------------------------------------------------------------------------------------- function level
def gen_constants():
    """values of Generated/C05Buffers.lean the sweeps are centred on"""
    t = open(os.path.join(L.GEN_DIR, "C05Buffers.lean")).read()
    g = lambda name, dflt=None: (int(m.group(1)) if (m := re.search(rf"def {name} : \w+ := (\d+)", t)) else dflt)
    fixed = lambda name: (int(m.group(1)) if (m := re.search(rf"def {name} : Storage := \.fixed (\d+)", t)) else None)
    return {"bufsiz": g("bufsiz"), "readReal": fixed("readRealStorage"), "strUpper": fixed("strToUpperStorage"),
            "prettyCap": g("prettyCap"), "prettyGuard": g("prettyGuard"), "entNode": g("entNodeCap"),
            "entNmArr": fixed("entNmArrStorage"), "nms": fixed("nmsStorage"), "getlineN": g("findHeaderGetlineN"), "comment": g("maxCommentLength")}


def around(*centres, extra=()):
    s = set(extra)
    for c in centres:
        if c is None:
            continue
        for d in (-2, -1, 0, 1, 2, 3, 4, 5, 8):
            if c + d >= 0:
                s.add(c + d)
    return sorted(s)


def site_requests(k, thorough):
    big = [20000, 100000] if thorough else [20000]
    bs = k["bufsiz"]
    req = []
    for n in around(64, k["readReal"], extra=[1, 10, 300] + big):
        req.append(("readreal", n, f"readreal {hexs(b'1.' + b'2' * max(n - 2, 0) if n >= 2 else b'1' * n)}"))
    for n in around(64, extra=[65, 70, 300]):
        req.append(("readreal", n, f"readreal {hexs(b'-' + b'9' * (n - 8) + b'.5E+123' if n > 8 else b'-1.5E+1')}"))
    for fn in ("strupper", "strlower", "strconst"):
        for n in around(bs, bs + 1, extra=[0, 1, 100] + big):
            req.append((fn, n, f"{fn} - {n}"))
    for n in around(bs, bs + 1, extra=[5, 100] + big):
        for us in sorted({1, max(n - 2, 0), bs - 2, bs - 1, bs, k["prettyGuard"] - 1, k["prettyGuard"]}):
            if 0 <= us < n:
                req.append(("pretty", n, f"pretty - {n} {us}"))
    for n in around(bs, bs + 1, extra=[0, 3, 100] + big):
        req.append(("entnode", n, f"entnode - {n}"))
    # part counts around the caller's array, the caller's cap and the callee's (STEPcomplex ctor) capacity — the cap on the
    # number of names is a two-site invariant, so the callee capacity + 1 is probed whatever the caller looks like
    for n in around(64, k["entNmArr"], extra=[0, 1, 2, 10, 200, 2000, bs, bs + 1, bs + 2, bs + 4, (k["nms"] or bs + 1),
                                            (k["nms"] or bs + 1) + 1] + ([20000, 65, 1000] if thorough else [])):
        req.append(("subsuper", n, f"subsuper - {n}"))
    return req


ALPHA = [b" ", b"'", b";", b"#", b"/", b"*", b"\\", b"S", b")", b"a", b"\n", b"N", b",", b"\x00", b"H"]


def loop_requests(ctx, quick, k):
    depth = 3 if quick else 4
    alpha = ALPHA[:13] if quick else ALPHA
    req = []
    for n in range(depth + 1):
        for t in itertools.product(alpha, repeat=n):
            bs = b"".join(t)
            for fn in FN_LOOPS:
                req.append(f"{fn} {hexs(bs)}")
    rng = ctx.rng
    frag = [b"/*", b"*/", b"'", b"''", b"\\S\\'", b";", b"#", b" ", b"\n", b"\\N\\", b"\\F\\", b"abc", b"HEADER", b"HEAD",
            b"ER;", b"*", b"/", b"x" * 50, b"\x00", b",", b")", b"(", b"#12=", b"ENDSEC;"]
    for _ in range(400 if quick else 6000):
        bs = b"".join(rng.choice(frag) for _ in range(rng.randrange(1, 14)))
        for fn in FN_LOOPS:
            req.append(f"{fn} {hexs(bs)}")
    # GetKeyword with the header's delimiter set: keyword characters, `!` first and later, lower case, delimiters, NUL, `&`
    ktoks = [b"A", b"Z9", b"_", b"-", b"!", b"a", b";", b"(", b" ", b"/", b"\\", b"\x00", b"&", b"\n", b"ENDSEC", b"#"]
    for n in range(0, (3 if quick else 4) + 1):
        for t in itertools.product(ktoks, repeat=n):
            req.append(f"getkeyword {hexs(b''.join(t))}")
    for n in (1, 63, 64, 65, 8191, 8192, 8193, 20000):
        req.append(f"getkeyword {hexs(b'K' * n + b'(')}")
        req.append(f"getkeyword {hexs(b'K' * n)}")
    # FindDataSection: DATA / prefixes of it, strings and comments that hide a `DATA;`, NUL
    dtoks = [b"D", b"A", b"T", b"DATA", b"DATA;", b";", b" ", b"'", b"'D;'", b"/*", b"*/", b"/", b"x", b"\x00", b"DA", b"\n"]
    for n in range(0, (3 if quick else 4) + 1):
        for t in itertools.product(dtoks, repeat=n):
            req.append(f"finddata {hexs(b''.join(t))}")
    for _ in range(200 if quick else 3000):
        req.append(f"finddata {hexs(b''.join(rng.choice(dtoks + [b'HEADER;', b'ENDSEC;', b'/* DATA; */', b'DATA  ;', b'DATA/**/;']) for _ in range(rng.randrange(1, 16))))}")
    # CreateSubSuperInstance (part loop, SkipSimpleRecord, PushPastImbedAggr, PushPastString) on the bytes of an external mapping
    stoks = [b"(", b")", b"A1", b"BASE", b"x", b"(2.5)", b"'a)'", b"'", b",", b" ", b"1", b"((1),(2))", b"/*", b";", b"_", b"\x00"]
    for n in range(0, (3 if quick else 4) + 1):
        for t in itertools.product(stoks, repeat=n):
            req.append(f"subsuperb {hexs(b'(' + b''.join(t))}")
    for _ in range(300 if quick else 4000):
        t = b"".join(rng.choice(stoks + [b"A1(2.5)", b"B1(.RED.)", b"C1((1,2,3))", b"X(('a','b'),((1)))"]) for _ in range(rng.randrange(1, 14)))
        req.append(f"subsuperb {hexs(t)}")
    g64 = k.get("entNmArr") or 65
    for kk in sorted({1, 2, 62, 63, 64, 65, 66, g64 - 2, g64 - 1, g64, g64 + 1, 130, 1000}):
        req.append(f"subsuperb {hexs(b'(' + b'A1(2.5)' * kk + b');x')}")
        req.append(f"subsuperb {hexs(b'(' + b'A1((((' * kk)}")
    # the instance loop of pass 1 (ReadData1) on token sequences: ids, `=`, known / unknown keywords, records, `;`, ENDSEC
    # and its prefixes, strings holding `;`, comments, `!`, `,`.  Domain of the model: no record that starts with `(` or `&`
    # right after `=` (external mappings / SCOPE are outside the skeleton), each id at most once.
    toks = [b"#1", b"#2", b"=", b"POINT", b"NOPE", b"(1.,2.)", b";", b" ", b"ENDSEC", b"END", b"E", b"'a;'", b"/*c*/", b"!", b",", b"&SCOPE", b"&"]

    def in_domain(t):
        if t.count(b"#1") > 1 or t.count(b"#2") > 1:
            return False
        for i, x in enumerate(t):
            if x == b"=":
                j = i + 1
                while j < len(t) and t[j] in (b" ", b"/*c*/"):
                    j += 1
                if j < len(t) and t[j].startswith(b"("):
                    return False
        return True
    for n in range(0, (3 if quick else 4) + 1):
        for t in itertools.product(toks, repeat=n):
            if in_domain(t):
                req.append(f"readdata1 {hexs(b''.join(t))}")
    # the same loop on a working-session file: state letters C I N D (D = skipped, not counted), any other character, NUL
    wtoks = [b"#1", b"#2", b"=", b"POINT", b"NOPE", b"(1.,2.)", b";", b" ", b"ENDSEC", b"E", b"'a;'", b"/*c*/", b"C", b"D", b"I",
             b"X", b"\x00"]
    for n in range(0, (3 if quick else 4) + 1):
        for t in itertools.product(wtoks, repeat=n):
            if in_domain(t):
                req.append(f"readdata1w {hexs(b''.join(t))}")
    insts = [b"#%d=POINT(1.,2.);", b"#%d=NOPE(1);", b"#%d=KINDS(", b"#%d POINT(1.);", b"garbage;", b"#%d=point('a;b');", b"#%d=!U(1);",
             b"/*c*/", b" ", b"#%d=POINT(1.,2.) ENDSEC;", b"ENDSEC;", b"END;", b"'", b"#%d=;", b"#%d=DPOINT(1.,*);\n"]
    for _ in range(300 if quick else 5000):
        kk, out = 0, b""
        for _i in range(rng.randrange(1, 12)):
            x = rng.choice(insts)
            if b"%d" in x:
                kk += 1
                x = x % kk
            out += x
        req.append(f"readdata1 {hexs(out)}")
        req.append(f"readdata1w {hexs(b''.join((rng.choice([b'C', b'D', b'I', b'N', b'', b'X']) + x) for x in out.split(b'#') if x).replace(b'D=', b'D#1='))}")
    # the `);` recovery scan of SDAI_Application_instance::STEPread, reached through an entity without attributes: `)` with
    # and without `;` behind it, `;` inside and outside strings, comments, NUL, the end of the input at every point
    rtoks = [b"(", b")", b";", b"'", b" ", b"x", b"/*c*/", b");", b") ;", b"'a;'", b"\n", b"\x00", b",", b")'", b"#2"]
    for n in range(0, (2 if quick else 3) + 1):
        for t in itertools.product(rtoks, repeat=n):
            req.append(f"recover {hexs(b''.join(t))}")
            req.append(f"recover {hexs(b'(' + b''.join(t))}")
    for _ in range(400 if quick else 4000):
        req.append(f"recover {hexs(b'(' + b''.join(rng.choice(rtoks) for _ in range(rng.randrange(1, 14))))}")
    # ReadHeader (ReadTokenSeparator, FindHeaderSection, the loop over the header instances): `!`-entities, unknown and
    # empty keywords, ENDSEC and its prefixes, strings and comments.  Keywords of the header dictionary are kept out: their
    # STEPread is a hypothesis of the theorem (the file-level streams run it).
    htoks = [b"HEADER;", b"ENDSEC", b";", b"K", b"!", b"(", b")", b" ", b"/*c*/", b"'s;'", b"\n", b"\\", b"&", b"E", b"\x00", b"X1(2);"]
    for n in range(0, (2 if quick else 3) + 1):
        for t in itertools.product(htoks, repeat=n):
            req.append(f"readheader {hexs(b'HEADER;' + b''.join(t))}")
            if n <= 2:
                req.append(f"readheader {hexs(b''.join(t))}")
    for _ in range(400 if quick else 4000):
        req.append(f"readheader {hexs(b'HEADER;' + b''.join(rng.choice(htoks) for _ in range(rng.randrange(1, 14))))}")
    # pass 1 of AppendFile as a whole (start keyword and its prefixes, header, DATA;, instances with fresh ids): stream
    # position and instance count
    starts = [b"ISO-10303-21;", b"ISO;", b"STEP_WORKING_SESSION;", b"X;", b"", b" ", b"/*c*/ISO-10303-21;\n", b"ISO-10303-21",
              b"ISO-10303-21X;", b";", b"#", b"STEP "]
    heads = [b"HEADER;", b"HEADER;K();", b"HEADER;!U(1);", b"", b"HEADER;\n/*c*/K ( 'a;' ) ;", b"HEAD;"]
    ends = [b"ENDSEC;", b"", b"ENDSEC", b"ENDSEC ; "]
    datas = [b"DATA;", b"DAT;", b"", b"DATA ;\n"]
    ainsts = [b"#%d=POINT(1.0,2.0);", b"#%d=NOPE(1);", b"#%d=(A1(2.5)B1(.RED.));", b"#%d=KINDS();", b"junk;", b" C #%d=POINT(1.0,1.0);",
              b" D #%d=POINT(1.0,1.0);", b"&SCOPE #%d=POINT(0.0,0.0); ENDSCOPE", b"ENDSEC;", b"END-ISO-10303-21;",
              b"#%d=DPOINT((1.0,2.0));", b"#%d=POINT(", b"\n"]

    def fresh(parts):
        kk, out = 0, b""
        for x in parts:
            if b"%d" in x:
                kk += 1
                x = x % kk
            out += x
        return out
    for a in starts:
        for h in heads:
            for e in ends:
                for d in datas:
                    req.append(f"append1 {hexs(a + h + e + d)}")
                    if not quick or (a, h, e, d) == (starts[0], heads[0], ends[0], datas[0]):
                        for x in ainsts:
                            req.append(f"append1 {hexs(a + h + e + d + fresh([x]))}")
    for _ in range(300 if quick else 5000):
        req.append(f"append1 {hexs(rng.choice(starts[:3]) + rng.choice(heads[:3]) + b'ENDSEC;DATA;' + fresh([rng.choice(ainsts) for _i in range(rng.randrange(0, 8))]))}")
        req.append(f"append1 {hexs(rng.choice(starts) + rng.choice(heads) + rng.choice(ends) + rng.choice(datas) + fresh([rng.choice(ainsts) for _i in range(rng.randrange(0, 5))]))}")
    # long inputs around the limits: comment length, getline count
    c, g = k["comment"], k["getlineN"]
    for n in around(c, c + 1, extra=[100, 3 * c]):
        req.append(f"readcomment {hexs(b'/*' + b'c' * n + b'*/ #1')}")
        req.append(f"readcomment {hexs(b'/*' + b'c' * n)}")
        req.append(f"toksep {hexs(b' /*' + b'*' * n + b';x')}")
    for n in around(g - 1, g, extra=[10, 3 * g]):
        req.append(f"findheader {hexs(b'x' * n + b';HEADER;')}")
        req.append(f"findheader {hexs(b'x' * n + b'HEADER;')}")
        req.append(f"findheader {hexs(b'x' * n)}")
        req.append(f"skipinst {hexs(b'y' * n + b';z')}")
        req.append(f"findstart {hexs(b'(' * n + b'#z')}")
    return req


def pass2_stream(ctx, real, quick):
    """ReadData2 with the ReadInstance skeleton against the real second pass.  The real run reports which ids pass 1 created;
    that set is the model's look-up oracle (second round).  Records of the entity without attributes (its STEPread is the
    modelled `stepReadNoAttrs`), unknown keywords, user-defined entities, missing `=`, missing `;`, damaged records."""
    toks = [b"#%d=BARE();", b"#%d=BARE(x);", b"#%d=BARE(", b"#%d=NOPE(1);", b"#%d=BARE() junk;", b"#%d BARE();", b"#%d=!U(1);", b"/*c*/", b" ",
            b"ENDSEC;", b"#%d=BARE(')');", b"#%d=BARE()", b"garbage;", b"#%d=BARE(;);", b"#%d = /*c*/ BARE ( ) ;", b"#%d=bare();",
            b"#%d=BARE('a;b');", b"#%d=BARE(x) y);", b"\n", b"#%d=BARE(x;"]

    def fresh(parts):
        kk, out = 0, b""
        for x in parts:
            if b"%d" in x:
                kk += 1
                x = x % kk
            out += x
        return out
    datas = []
    for n in range(0, (2 if quick else 3) + 1):
        for tt in itertools.product(toks, repeat=n):
            datas.append(fresh(tt))
    rng = random.Random(f"C05-pass2:{ctx.seed}")
    for _ in range(300 if quick else 5000):
        datas.append(fresh([rng.choice(toks) for _i in range(rng.randrange(1, 9))]))
    ans_r = real.run_fn([f"readdata2 {hexs(d)} 0" for d in datas])
    lines_m = []
    for d, a in zip(datas, ans_r):
        mask = 0
        if isinstance(a, str):
            mm = re.search(r"ids=([\d,]*)", a)
            for x in (mm.group(1).split(",") if mm and mm.group(1) else []):
                if int(x) < 60:
                    mask |= 1 << int(x)
        lines_m.append(f"readdata2 {hexs(d)} {mask}")
    ans_m = run_model(ctx, lines_m)
    nbad = 0
    for d, a, m, lm in zip(datas, ans_r, ans_m, lines_m):
        ctx.count(1, key=("fn", "readdata2", d))
        ctx.hist("function-level", "readdata2")
        if isinstance(a, dict):
            ctx.violation(f"fn:readdata2:{a['fail']}@{a['where']}", f"pass 2 on {d[:60]!r}: {a['fail']} in {a['where']} (model: {m})",
                          {"kind": "fn", "schema": real.schema, "request": f"readdata2 {hexs(d)} 0", "sanitizer": a["err"][-1200:]})
            continue
        if a == "skipped":
            continue
        a2 = re.sub(r"ids=[\d,]* ", "", a)
        if m is not None and m.startswith("outOfFuel"):
            ctx.broken.append(("correspondence readdata2: the model runs out of fuel where the implementation ends", f"`{lm}`: {a}"))
            nbad += 1
        elif a2 != m and nbad < 3:
            nbad += 1
            ctx.broken.append(("correspondence ReadData2 / ReadInstance skeleton vs implementation",
                               f"`{lm}` ({d[:80]!r}): impl `{a}` vs model `{m}`"))
    ctx.cov["correspondence"]["pass 2 (ReadInstance skeleton)"] = {"inputs": len(datas), "different": nbad}
    return nbad == 0


def valgrind_run(exe, env, mode, data, work, tag):
    """one file under valgrind (plain build): (error text or None)"""
    lf = os.path.join(work, f"vg-{tag}.txt")
    with open(lf, "w") as fh:
        fh.write(f"{mode} 300 hex:{hexs(data)}\n")
    e = dict(env)
    e["C05_TMPDIR"] = work
    try:
        r = subprocess.run(["valgrind", "-q", "--error-exitcode=99", "--track-origins=yes", exe, "files", lf],
                           capture_output=True, env=e, timeout=600)
    except subprocess.TimeoutExpired:
        return None
    finally:
        if os.path.exists(lf):
            os.unlink(lf)
    return r.stderr.decode("latin-1") if r.returncode == 99 else None


def valgrind_pass(ctx, quick):
    """thorough tier: reads of uninitialised memory (ASan/UBSan do not see them) — the plain build of the harness under
    valgrind memcheck on damaged files: 32 records of every damaged-record shape, the corpus files cut at several offsets,
    empty and white-space-only sections.  An error is a violation (undefined behaviour: a branch on an indeterminate value)."""
    import shutil
    if quick or not shutil.which("valgrind"):
        ctx.cov["correspondence"]["valgrind"] = "not run (quick tier)" if quick else "not run (valgrind not installed)"
        return
    b = ctx.build("plain")
    exe = os.path.join(ctx.work, "h_p21safe_plain_c05a")
    B.gen_schema_lib(b, os.path.join(CORPUS, "c05a.exp"), os.path.join(ctx.work, "gen_plain_c05a"),
                     [os.path.join(VERIF, "harness", "h_p21safe.cc")], exe)
    files = []
    for name, mk in dense_shapes().items():
        if name.startswith("run of instances") or name.startswith("run of complex"):
            files.append((name + " x 32", "x", mk(128)))
    for f in ("c05a-base.p21", "c05a-scope.p21", "c05a-work.p21"):
        d = open(os.path.join(CORPUS, f), "rb").read()
        mode = "w" if "work" in f else "x"
        files.append((f, mode, d))
        for cut in sorted({len(d) // 4, len(d) // 3, len(d) // 2, len(d) - 60, len(d) - 40, len(d) - 22, len(d) - 5, len(d) - 1}):
            files.append((f"{f} cut at {cut}", mode, d[:cut]))
    head = (HDR_A % (Q + Q)).encode("latin-1")
    for nm, d in [("empty file", b""), ("white space only", b" \n"), ("start keyword only", b"ISO-10303-21;"), ("header only", head[:head.index(b"DATA;")]),
                  ("DATA; and white space", head[:head.index(b"DATA;") + 5] + b" \n"), ("no ENDSEC", head), ("no end keyword", head + b"ENDSEC;\n"),
                  ("end keyword without ;", head + b"ENDSEC;\nEND-ISO-10303-21")]:
        files.append((nm, "x", d))
    with ThreadPoolExecutor(min(8, NPROC)) as ex:
        outs = list(ex.map(lambda it: valgrind_run(exe, b.env(), it[1][1], it[1][2], ctx.work, it[0]), enumerate(files)))
    seen = set()
    for (name, mode, data), err in zip(files, outs):
        ctx.count(1, key=("valgrind", name))
        ctx.hist("valgrind inputs", name.split(" cut at")[0])
        if not err:
            continue
        kinds = re.findall(r"==\d+== ((?:Conditional jump|Use of uninitialised|Invalid read|Invalid write|Syscall param)[^\n]*)\n==\d+==\s+at 0x[0-9A-F]+: ([^\n]*)", err)
        for kind, where in kinds[:6]:
            fn = where.split("(")[0].strip()
            key = f"valgrind:{kind.split('(')[0].strip().replace(' ', '-')}@{fn}"
            if key in seen:
                continue
            seen.add(key)
            ctx.violation(key, f"valgrind memcheck on `{name}` ({len(data)} bytes): {kind} at {where}",
                          {"kind": "valgrind", "schema": "c05a", "mode": mode, "mutation": name, "bytes_hex": data.hex(),
                           "valgrind": err[:3000], "how": "valgrind -q --error-exitcode=99 h_p21safe(plain build) files <list with this input>"})
    ctx.cov["correspondence"]["valgrind"] = {"inputs": len(files), "errors": len(seen)}


def stayin_stream(ctx, real, quick):
    """TESTING of the hypothesis of `C05_readData2_skeleton_partial` / `C05_readInstance_slip_partial` on the real record readers
    (STEPread of entities with attributes, of the entity without, STEPcomplex::STEPread - none of them modelled here): on
    damaged records - every truncation and every single insertion of a punctuation token into six kinds of record, followed
    by two intact records - `STEPread` + `ReadTokenSeparator` must not stop beyond the end of the NEXT record as SkipInstance
    finds it from the record's start (prd <= p2: cost <= 2 records); how often it stops beyond its own record (prd > p1, the
    one-record slip) is counted."""
    recs = [b"POINT(1.5,-2.0E+1)", b"KINDS(7,1.25E-3,42,'it''s',.T.,.U.,.GREEN.,\"1F\",#1,LEN(2.5),(1.,2.5,-3.),((1,2),(3)),(#1,#1),$,('a','b'))",
            b"DPOINT(4.0,*)", b"BARE()", b"(A1(2.5)B1(.BLUE.)BASE(9)C1((1,2,3)))", b"KINDS(0,0.,0,'x',.T.,.T.,.BLUE.,\"3ABC\",#1,LABEL('x'),(0.5),((0)),(#1),$,('\\\\'))"]
    ins = [b"(", b")", b"'", b";", b",", b"/*", b"\"", b"$", b"#1", b"x", b"*/", b" "]
    tail = b";\n#8=POINT(1.,2.);\n#9=KINDS($,$,$,'s;',$,$,$,$,$,$,$,$,$,$,$);\n#10=BARE();\n"
    reqs = []
    for rec in recs:
        reqs.append(rec + tail)
        for kk in range(1, len(rec) + 1):
            reqs.append(rec[:kk] + tail)
            if quick and kk % 3:
                continue
            for x in ins:
                reqs.append(rec[:kk] + x + rec[kk:] + tail)
    ans = real.run_fn([f"stayin {hexs(d)}" for d in reqs])
    slips, bad = 0, 0
    for d, a in zip(reqs, ans):
        ctx.count(1, key=("stayin", d))
        ctx.hist("function-level", "stayin")
        if isinstance(a, dict):
            ctx.violation(f"fn:stayin:{a['fail']}@{a['where']}", f"record reader on {d[:70]!r}: {a['fail']} in {a['where']}",
                          {"kind": "fn", "schema": real.schema, "request": f"stayin {hexs(d)}", "sanitizer": a["err"][-1200:]})
            continue
        mm = re.search(r"p1=(-?\d+) p2=(-?\d+) prd=(-?\d+)", a or "")
        if not mm:
            continue
        p1, p2, prd = (int(x) for x in mm.groups())
        if prd > p1:
            slips += 1
        if prd > p2 and bad < 3:
            bad += 1
            ctx.violation("time:record-reader-leaves-the-next-record",
                          f"STEPread on the record {d[:80]!r}… stops at offset {prd}, beyond the end of the next record ({p2}; its own "
                          f"record ends at {p1}): ReadInstance resumes behind the record's `;`, so the bytes between are read once per "
                          "damaged record (time not proportional to the input)",
                          {"kind": "fn", "schema": real.schema, "request": f"stayin {hexs(d)}", "expect": "prd <= p2"})
    ctx.cov["correspondence"]["record readers stay within two records (testing)"] = {"records": len(reqs), "one-record slips": slips, "beyond": bad}
    return bad == 0


def listed_api_findings(ctx, real):
    """The API history of the finding listed for C05 (KNOWN_FINDINGS: api:selectaggregate-shallowcopy-double-ownership): a
    SelectAggregate with one element, ShallowCopy into a second one, both destroyed.  The class is decided by the call
    sequence (this request), not by the symptom: a memory error in ~SelectNode here is that finding; any other failure of
    the same driver is reported under its own key."""
    a = real.run_fn([f"shallowcopy {hexs(b'Sel')}"])[0]
    ctx.count(1, key=("fn", "shallowcopy"))
    if isinstance(a, dict):
        err = a.get("err", "")
        if a["fail"] in ("attempting", "double-free", "heap-use-after-free") and "SelectNode::~SelectNode" in err:
            ctx.violation("api:selectaggregate-shallowcopy-double-ownership",
                          "SelectAggregate::ShallowCopy + destruction of both aggregates: the select of the copied node is deleted twice "
                          f"({a['fail']} in {a['where']})",
                          {"kind": "fn", "schema": real.schema, "request": f"shallowcopy {hexs(b'Sel')}", "sanitizer": err[-1200:]})
        else:
            ctx.violation(f"fn:shallowcopy:{a['fail']}@{a['where']}", f"ShallowCopy driver: {a['fail']} in {a['where']}",
                          {"kind": "fn", "schema": real.schema, "request": f"shallowcopy {hexs(b'Sel')}", "sanitizer": err[-1200:]})
    ctx.cov["correspondence"]["listed API finding (ShallowCopy)"] = a if isinstance(a, str) else a.get("fail")


def stream_kind(ctx, real, quick):
    """The function-level correspondence runs on std::istringstream, the file-level reader on std::ifstream.  A filebuf reads
    block-wise and has a one-byte putback area at a block boundary (and its pbackfail accepts a *different* character,
    which an input-only stringbuf refuses).  The same calls are made on both kinds of stream with the input shifted so that
    every byte of it (every putback site of the readers) falls on the block boundaries 8191 / 8192 (and 2x): the answers
    (return values, position, eof, fail) must be equal — the stream model then also speaks for the file-level reader."""
    cases = {
        "readdata1": [b"#1=POINT(1.,2.);/*c*/#2=NOPE('a;b');\n#3 = KINDS();ENDSEC;", b"#1=POINT(1.,2.) ; junk ; #2=POINT(3.,4.);ENDSEC;",
                      b"/* c */ /* d */#1=(A1(2.5)B1(.RED.));\\N\\#2=POINT(1.,2.);"],
        "readheader": [b"HEADER;/*c*/K('a;');!U(1);ENDSEC;", b"HEADER; X1(2);\\N\\ Y(3) ; ENDSEC;"],
        "append1": [b"ISO-10303-21;HEADER;ENDSEC;DATA;#1=POINT(1.0,2.0);#2=(A1(2.5)B1(.RED.));ENDSEC;"],
        "skipinst": [b"ab'c;d'/*;*/e/f;g", b"//*x*/;"], "findstart": [b"ab'c#d'/e#f"], "readcomment": [b"/* abc */x", b"/x", b"/*/ */y"],
        "toksep": [b" /*a*/ \\N\\ /*b*/\nx", b"\\F\\\\x/y"], "subsuperb": [b"(A1(2.5)B1(.RED.)BASE(9)C1((1,2,(3))));x", b"(A1('a)')/*c*/B1(;"],
        "getkeyword": [b"KEYWORD(", b"A-B_9;"], "finddata": [b"x'DATA;'/*DATA;*/DAT DATA ;y"], "recover": [b"(x ' ) ; ' ) ;y", b"(x);", b"() x"],
        "findheader": [b"xx;HEAD;ER;HEADER;yy"],
    }
    bs = 8192
    req, meta = [], []
    for fn, ins in cases.items():
        for data in ins:
            for sign in ((1,) if quick else (1, -1)):
                for blk in ((1,) if quick else (1, 2)):
                    for off in range(0, len(data) + 2):
                        pad = sign * (bs * blk - off)
                        req.append(f"{fn}@s {hexs(data)} {pad}")
                        req.append(f"{fn}@f {hexs(data)} {pad}")
                        meta.append((fn, data, pad))
    ans = real.run_fn(req)
    nbad = 0
    for i, (fn, data, pad) in enumerate(meta):
        a, f = ans[2 * i], ans[2 * i + 1]
        ctx.count(1, key=("stream-kind", fn, data, pad))
        ctx.hist("stream kinds compared", fn)
        if isinstance(a, dict) or isinstance(f, dict):
            d = a if isinstance(a, dict) else f
            ctx.violation(f"fn:{fn}:{d['fail']}@{d['where']}", f"{fn} behind {abs(pad)} bytes of white space: {d['fail']} in {d['where']}",
                          {"kind": "fn", "schema": real.schema, "request": req[2 * i + (0 if isinstance(a, dict) else 1)], "sanitizer": d["err"][-1200:]})
            continue
        if a != f and nbad < 3:
            nbad += 1
            ctx.broken.append(("stream model: std::istringstream and std::ifstream answer differently at a block boundary",
                               f"`{fn}` on {abs(pad)} bytes of white space + {data!r}: istringstream `{a}`, ifstream `{f}`"))
    ctx.cov["correspondence"]["stream kinds"] = {"pairs": len(meta), "different": nbad}
    return nbad == 0


def function_level(ctx, real, quick, k):
    """sites + loops against the model.  Returns True when everything agrees and nothing died."""
    clean = True
    sites = site_requests(k, (not quick) or getattr(ctx, "extract_failed", False) or not getattr(ctx, "proof_ok", True))
    lines = [r[2] for r in sites]
    loops = loop_requests(ctx, quick, k)
    t0 = time.time()
    ans_r = real.run_fn(lines + loops)
    ans_m = run_model(ctx, lines + loops)
    ctx.cov["correspondence"]["function-level"] = {"site sweeps": len(lines), "loop inputs": len(loops),
                                                   "wall_s": round(time.time() - t0, 1)}
    # ---- sites: overflow in the model <-> sanitizer report in the implementation
    by_site = {}
    for (fn, n, line), a, m in zip(sites, ans_r, ans_m):
        ctx.count(1, key=("fn", line))
        ctx.hist("function-level", fn)
        died = isinstance(a, dict)
        if a == "skipped":
            continue
        by_site.setdefault(fn, []).append((n, line, died, a, m))
    for fn, rows in by_site.items():
        dead = [r for r in rows if r[2]]
        pred = [r for r in rows if r[4] and r[4].startswith("overflow")]
        if dead:
            clean = False
            n, line, _, a, m = min(dead, key=lambda r: r[0])
            n_min, line_min, a_min = bisect_site(real, fn, line, n, a)
            pm = min((r[0] for r in pred), default=None)
            what = (f"{fn}: {a_min['fail']} in {a_min['where']} at parameter {n_min} (request `{line_min}`); "
                    f"model predicts first overflow at {pm if pm is not None else 'no length (safe)'}"
                    + (" [extractor failed: model still uses the table of the last successful extraction]" if getattr(ctx, "extract_failed", False) else ""))
            ctx.violation(f"fn:{fn}:{a_min['fail']}@{a_min['where']}", what,
                          {"kind": "fn", "schema": real.schema, "request": line_min, "sanitizer": a_min["err"][-1200:],
                           "model": m, "how": "echo '0 <request>' | h_p21safe fn   (ASan+UBSan build)"})
        elif pred:
            # the model says overflow and the implementation survives every such request: is it the ASan blind spot
            # (intra-object slack ≤ 16 bytes) or a real disagreement?
            clean = False
            ctx.broken.append((f"correspondence {fn}: model predicts overflow, implementation shows none",
                               f"requests {[r[1] for r in pred][:4]}"))
        for n, line, died, a, m in rows:
            if m is None or m == "bad-op":
                clean = False
                ctx.broken.append((f"model driver did not answer `{line}`", str(m)))
                break
    # ---- loops: identical answers; a time-out is a violation; out-of-fuel in the model must be a time-out
    nbad = 0
    seen_keys = set()
    for line, a, m in zip(loops, ans_r[len(lines):], ans_m[len(lines):]):
        ctx.count(1, key=("fn", line))
        ctx.hist("function-level", line.split()[0])
        if isinstance(a, dict):
            clean = False
            key = f"fn:{line.split()[0]}:{a['fail']}@{a['where']}"
            if key in seen_keys:
                continue
            seen_keys.add(key)
            line_min = shrink_bytes_fn(real, line, a)
            nb = len(bytes.fromhex(line_min.split()[1].replace('-', '')))
            ctx.violation(key, f"{line.split()[0]} on {nb} bytes {bytes.fromhex(line_min.split()[1].replace('-', ''))[:40]!r}: "
                               f"{a['fail']} in {a['where']} (model: {m})",
                          {"kind": "fn", "schema": real.schema, "request": line_min, "sanitizer": a["err"][-1200:], "model": m})
        elif a == "skipped":
            continue
        elif a != m:
            nbad += 1
            clean = False
            if nbad == 1:
                ctx.broken.append((f"correspondence {line.split()[0]} model vs implementation",
                                   f"request `{line[:200]}`: impl `{a}` vs model `{m}`"))
    ctx.cov["correspondence"]["function-level"]["loop disagreements"] = nbad
    return clean


def bisect_site(real, fn, line, n, a):
    """smallest numeric parameter of a site request that still dies (monotone in the parameter)"""
    w = line.split()
    if fn == "readreal":
        mk = lambda m: f"readreal {hexs(b'1.' + b'2' * max(m - 2, 0) if m >= 2 else b'1' * m)}"
    elif fn == "pretty":
        return n, line, a
    else:
        mk = lambda m: f"{fn} - {m}"
    lo, hi, best = 0, n, (n, line, a)
    while lo < hi:
        mid = (lo + hi) // 2
        r = real.run_fn([mk(mid)])[0]
        if isinstance(r, dict):
            hi = mid; best = (mid, mk(mid), r)
        else:
            lo = mid + 1
    return best


def shrink_bytes_fn(real, line, a, max_tries=16):
    fn, hx = line.split()[:2]
    bs = bytes.fromhex(hx) if hx != "-" else b""
    same = lambda r: isinstance(r, dict) and r["fail"] == a["fail"]
    tries = 0
    changed = True
    while changed and len(bs) > 1 and tries < max_tries:
        changed = False
        for cut in (len(bs) // 2, len(bs) // 4, 1):
            if cut < 1:
                continue
            for i in range(0, len(bs), cut):
                cand = bs[:i] + bs[i + cut:]
                tries += 1
                if tries > max_tries:
                    break
                if cand != bs and same(real.run_fn([f"{fn} {hexs(cand)}"])[0]):
                    bs = cand; changed = True
                    break
            if changed or tries > max_tries:
                break
    return f"{fn} {hexs(bs)}"


# ---------------------------------------------------------------------------------------------- file level: mutants
TOKEN = re.compile(rb"/\*.*?\*/|'(?:[^']|'')*'|\"[0-9A-Fa-f]*\"|\.[A-Za-z_]+\.|#\d+|[-+]?\d+\.\d*(?:E[-+]?\d+)?|[-+]?\d+|[A-Za-z_][A-Za-z0-9_\-]*|\s+|.",
                   re.S)


def tokenize(data):
    return TOKEN.findall(data)


def kind_of(tok):
    if re.fullmatch(rb"[-+]?\d+\.\d*(?:E[-+]?\d+)?", tok): return "real"
    if re.fullmatch(rb"[-+]?\d+", tok): return "int"
    if tok.startswith(b"'"): return "string"
    if tok.startswith(b'"'): return "binary"
    if re.fullmatch(rb"\.[A-Za-z_]+\.", tok): return "enum"
    if re.fullmatch(rb"#\d+", tok): return "ref"
    if re.fullmatch(rb"[A-Za-z_][A-Za-z0-9_\-]*", tok): return "keyword"
    if tok.startswith(b"/*"): return "comment"
    if tok.isspace(): return "ws"
    return "punct"


def stretch(tok, kd, n):
    """the token stretched to (about) n characters, staying inside its lexical class"""
    if kd == "real":
        return tok.split(b".")[0] + b"." + b"7" * max(n - len(tok.split(b".")[0]) - 1, 1)
    if kd == "int":
        return tok[:1] + b"3" * max(n - 1, 1)
    if kd == "string":
        return b"'" + b"s" * n + b"'"
    if kd == "binary":
        return b'"0' + b"A" * n + b'"'
    if kd == "enum":
        return b"." + (tok[1:-1] * (n // max(len(tok) - 2, 1) + 1))[:n] + b"."
    if kd == "ref":
        return b"#" + b"1" * n
    if kd == "keyword":
        return (tok * (n // len(tok) + 1))[:n]
    if kd == "comment":
        return b"/*" + b"c" * n + b"*/"
    return tok * n


class Mut:
    """a mutant = base tokens + a description from which it can be rebuilt with another numeric parameter"""

    def __init__(self, base, toks, cls, idx, param=None, aux=None):
        self.base, self.toks, self.cls, self.idx, self.param, self.aux = base, toks, cls, idx, param, aux

    def with_param(self, p):
        m = Mut(self.base, self.toks, self.cls, self.idx, p, self.aux)
        m.many = getattr(self, "many", False)
        return m

    def with_record(self, rec):
        """many-parts stream: one instance `#9000=(P0()P1()…P<n-1>())` with distinct names no schema knows"""
        self.many = True
        return self

    def data(self):
        t, i, p = list(self.toks), self.idx, self.param
        c = self.cls
        if c == "delete":
            del t[i]
        elif c == "dup":
            t[i:i + 1] = [t[i]] * (p or 2)
        elif c == "swap":
            t[i], t[self.aux] = t[self.aux], t[i]
        elif c == "stretch":
            t[i] = stretch(t[i], kind_of(t[i]), p)
        elif c == "nest":
            t[i:i + 1] = [b"(" * p, t[i], b")" * p]
        elif c == "open":
            t[i:i] = [b"(" * p]
        elif c == "close":
            t[i:i] = [b")" * p]
        elif c == "truncate":
            return b"".join(t)[:p]
        elif c == "parts" and getattr(self, "many", False):
            t[i:i + 1] = [b"#9000=(" + b"".join(b"P%d()" % j + (b"\n" if j % 16 == 15 else b"") for j in range(p)) + b");\n"]
        elif c == "parts":
            t[i:i + 1] = [self.aux * p]
        elif c == "replace":
            t[i] = self.aux
        elif c == "insert":
            t[i:i] = [self.aux]
        return b"".join(t)

    def desc(self):
        tk = self.toks[self.idx][:24].decode("latin-1") if self.idx is not None and self.idx < len(self.toks) else ""
        return f"{self.base}:{self.cls}" + (f"[{kind_of(self.toks[self.idx])} {tk!r}#{self.idx}]" if self.idx is not None else "") + \
            (f" n={self.param}" if self.param is not None else "") + (f" aux={self.aux[:30]!r}" if isinstance(self.aux, bytes) else "")

    def family(self):
        return self.cls + ("-" + kind_of(self.toks[self.idx]) if self.cls == "stretch" else "")


BAD_LITERALS = [b"1.2.3", b".", b"..", b"1E", b"1.E+", b"-", b"+-1", b"'", b"''''", b"'\\X2\\00'", b"'\\X4\\0000'", b"'\\S\\", b"\"",
                b"\"G\"", b".T", b"T.", b".TT.", b"#", b"#-1", b"#99999999999", b"@1", b"$$", b"**", b"()", b"(,)", b"(1,)", b"((",
                b"LEN(", b"LEN()", b"LEN(LEN(1.))", b"NOPE(1)", b"POINT(1.,2.)", b"\\N\\", b"/*", b"*/", b"&SCOPE", b"ENDSCOPE",
                b"!USERDEF(1)", b"99999999999999999999", b"1" + b"0" * 400 + b".", b"\x00", b"\xff\xfe"]
COMBOS = [b"A1(2.5)A2('s')BASE(1)", b"A1(2.5)", b"B1(.RED.)C1((1))", b"BASE(1)BASE(2)", b"NOPE()BASE(1)", b"A1()A2()B1()C1()BASE()",
          b"POINT(1.,2.)BASE(1)", b"LEFT('l')ROOT(5)", b"RIGHT(#10)ROOT(5)", b"LEFT('l')RIGHT(#10)", b"ROOT(5)", b"A1(2.5),BASE(9)",
          b"A1(2.5)/*c*/BASE(9)", b"1A(2)BASE(9)", b"A1 (2.5) BASE (9)"]


def mutants(ctx, base, data, n_random, lengths, trunc_every, bs, parts_counts=(2, 63, 64, 65, 66, 200, 3000, 8193)):
    toks = tokenize(data)
    assert b"".join(toks) == data
    idx = [i for i, t in enumerate(toks) if kind_of(t) != "ws"]
    by = {}
    for i in idx:
        by.setdefault(kind_of(toks[i]), []).append(i)
    rng = ctx.rng
    out = []
    # stretching: every lexical class, at the lengths the buffers are sized for and far beyond
    for kd, ii in by.items():
        if kd == "punct":
            continue
        picks = ii if len(ii) <= 3 else rng.sample(ii, 3)
        for i in picks:
            for n in lengths[kd if kd in lengths else "other"]:
                out.append(Mut(base, toks, "stretch", i, n))
    # keywords of every role (ISO-10303-21, HEADER, header entity, DATA, entity names, part names, ENDSEC, END-ISO…)
    for i in by.get("keyword", []):
        for n in (bs - 1, bs + 1, bs + 5):
            out.append(Mut(base, toks, "stretch", i, n))
    # many-part complex instances / illegal combinations
    for i in idx:
        if toks[i] == b"=" and i + 1 < len(toks) and toks[i + 1] == b"(":
            j = i + 2
            depth, e, first_end = 1, j, None      # e: index of the record's closing paren
            while e < len(toks) and depth > 0:
                if toks[e] == b"(":
                    depth += 1
                elif toks[e] == b")":
                    depth -= 1
                    if depth == 1 and first_end is None:
                        first_end = e
                if depth > 0:
                    e += 1
            if first_end is None or e >= len(toks):
                continue
            part = b"".join(toks[j:first_end + 1])
            toks2 = toks[:j] + [b"".join(toks[j:e])] + toks[e:]
            for n in parts_counts:
                out.append(Mut(base, toks2, "parts", j, n, part))
            for cb in COMBOS:
                out.append(Mut(base, toks2, "replace", j, None, cb))
    # parenthesis imbalance / deep nesting
    parens = [i for i in idx if toks[i] in (b"(", b")")]
    for i in (parens if len(parens) <= 6 else rng.sample(parens, 6)):
        out.append(Mut(base, toks, "delete", i))
        for n in (1, 2, 50, 500, 5000, 50000):
            out.append(Mut(base, toks, "open", i, n))
            out.append(Mut(base, toks, "close", i, n))
    vals = [i for i in idx if kind_of(toks[i]) in ("real", "int", "string", "enum", "ref", "binary")]
    for i in (vals if len(vals) <= 6 else rng.sample(vals, 6)):
        for n in (1, 3, 60, 600, 3000, 50000):
            out.append(Mut(base, toks, "nest", i, n))
    # malformed literals in value position
    for i in (vals if len(vals) <= 8 else rng.sample(vals, 8)):
        for lit in BAD_LITERALS:
            out.append(Mut(base, toks, "replace", i, None, lit))
    # random token deletion / duplication / swap / insertion
    for _ in range(n_random):
        r = rng.random()
        i = rng.choice(idx)
        if r < 0.3:
            out.append(Mut(base, toks, "delete", i))
        elif r < 0.55:
            out.append(Mut(base, toks, "dup", i, rng.choice([2, 2, 3, 100, 5000])))
        elif r < 0.8:
            out.append(Mut(base, toks, "swap", i, None, rng.choice(idx)))
        else:
            out.append(Mut(base, toks, "insert", i, None, rng.choice(BAD_LITERALS + [toks[rng.choice(idx)]])))
    # premature end of file
    offs = range(0, len(data) + 1, trunc_every) if trunc_every else []
    for o in offs:
        out.append(Mut(base, toks, "truncate", None, o))
    return out


def budget_for(nbytes, ms_per_byte):
    """linear budget: 60x the calibrated per-byte cost of the unmutated file, plus a constant (alarm() counts whole seconds)"""
    return 4 + int(math.ceil(60.0 * ms_per_byte * nbytes / 1000.0))


def model_threshold(ctx, mut):
    """what the Lean model predicts for this mutation family (None = the model has no site on this path)"""
    fam = mut.family()
    k = gen_constants()
    if fam == "stretch-real":
        ans = run_model(ctx, [f"readreal {hexs(b'1' * 400)}"])[0]
        return ("first overflow at a number lexeme of %d characters" % k["readReal"]) if (ans or "").startswith("overflow") and k["readReal"] else "no overflow at any length"
    if fam == "parts":
        lo, hi = 0, 200000
        if not (run_model(ctx, [f"subsuper - {hi}"])[0] or "").startswith("overflow"):
            return "no overflow for any number of parts"
        while lo < hi:
            mid = (lo + hi) // 2
            if (run_model(ctx, [f"subsuper - {mid}"])[0] or "").startswith("overflow"):
                hi = mid
            else:
                lo = mid + 1
        return "first overflow at %d parts (%s)" % (lo, run_model(ctx, [f"subsuper - {lo}"])[0])
    if fam in ("stretch-enum",):
        ans = run_model(ctx, ["strupper - 100000"])[0]
        return "first overflow at %d characters" % k["strUpper"] if (ans or "").startswith("overflow") and k["strUpper"] else "no overflow at any length"
    if fam == "stretch-keyword":
        a1 = run_model(ctx, ["entnode - 100000"])[0] or ""
        return ("EntNode::name: first overflow at %d characters" % k["entNode"]) if a1.startswith("overflow") else "no overflow at any length (EntNode, PrettyTmpName)"
    return None


def file_level(ctx, real, files, quick, ms_per_byte):
    clean = True
    k = gen_constants()
    bs = k["bufsiz"]
    big = [100000] if not quick else [20000]
    lengths = {"real": [60, 63, 64, 65, 66, 300, 5000] + big, "int": [9, 10, 11, 19, 20, 64, 300] + big,
               "string": [255, 256, bs - 1, bs, bs + 1] + big, "binary": [64, bs, bs + 1] + big,
               "enum": [64, 511, 512, 513, bs - 1, bs, bs + 1] + big, "ref": [9, 10, 11, 20, 300],
               "keyword": [64, 511, 512, bs - 2, bs, bs + 4] + big, "comment": [bs - 1, bs, bs + 1, bs + 2] + big, "other": [64, bs + 1]}
    all_muts = []
    for fname, mode in files:
        data = open(os.path.join(CORPUS, fname), "rb").read()
        n_random = 250 if quick else 6000
        trunc = (1 if len(data) < 1500 else max(1, len(data) // 160)) if quick else 1
        pc = (2, 63, 64, 65, 66, 200, 3000, bs + 1) if quick else (2, 63, 64, 65, 66, 200, 1000, 3000, bs, bs + 1, bs + 2, 20000)
        for m in mutants(ctx, fname, data, n_random, lengths, trunc, bs, pc):
            all_muts.append((mode, m))
    for fname, mode in files[:1]:
        data = open(os.path.join(CORPUS, fname), "rb").read()
        toks = tokenize(data)
        i = next(i for i, t in enumerate(toks) if t == b"ENDSEC" and b"DATA" in b"".join(toks[:i]))
        for n in ((65, bs + 1) if quick else (65, 1000, bs, bs + 1, 20000)):
            rec = b"#9000=(" + b"".join(b"P%d()" % j + (b"\n" if j % 16 == 15 else b"") for j in range(n)) + b");\n"
            all_muts.append((mode, Mut(fname, toks[:i] + [b"P()"] + toks[i:], "parts", i, n, None).with_record(rec)))
    items = []
    for mode, m in all_muts:
        d = m.data()
        items.append((mode, budget_for(len(d), ms_per_byte), d))
    t0 = time.time()
    res = real.run_parallel(items, "mut-" + real.schema)
    worst = 0.0
    fails = {}
    for (mode, m), (_, bd, d), r in zip(all_muts, items, res):
        ctx.count(1, key=("file", real.schema, mode, d))
        ctx.hist("file-level mutants", m.family())
        if r is None:
            continue
        if "fail" in r:
            fails.setdefault((r["fail"], r["where"], m.family()), []).append((mode, m, d, r))
        elif r["ord"] != 1:
            fails.setdefault(("non-ordinary-severity", str(r["sev"]), m.family()), []).append((mode, m, d, dict(r, fail="non-ordinary-severity", where=str(r["sev"]), err="")))
        else:
            ctx.hist("result severity", str(r["sev"]))
            worst = max(worst, r["ms"] / (ms_per_byte * max(len(d), 200)))
    ctx.cov["correspondence"][f"file-level/{real.schema}"] = {"mutants": len(items), "failing families": len(fails),
                                                              "max time / linear estimate": round(worst, 1),
                                                              "wall_s": round(time.time() - t0, 1)}
    for (kind, where, fam), lst in sorted(fails.items(), key=lambda kv: str(kv[0])):
        clean = False
        mode, m, d, r = min(lst, key=lambda t: (t[1].param if t[1].param is not None else 0, len(t[2])))
        m2, d2, r2 = minimise(real, mode, m, d, r, ms_per_byte)
        pred = model_threshold(ctx, m2)
        what = (f"{kind} in {where} on {m2.desc()} ({len(d2)} bytes, schema {real.schema}, "
                f"{'working-session' if mode == 'w' else 'exchange'} file)"
                + (f"; minimal parameter {m2.param}" if m2.param is not None else "")
                + (f"; model: {pred}" if pred else "; outside the modelled sites (sanitizer finding)"))
        ctx.violation(f"file:{kind}@{where}" + (f":{fam}" if pred else ""), what,
                      {"kind": "file", "schema": real.schema, "mode": mode, "mutation": m2.desc(), "bytes_hex": d2.hex(),
                       "sanitizer": r2.get("err", "")[-1500:], "model_prediction": pred,
                       "how": "h_p21safe files <list with `x 30 hex:<bytes_hex>`> built with ASan+UBSan against the schema"})
        if len(ctx.violations) + len(ctx.known) >= 12:
            break
    return clean


def minimise(real, mode, m, d, r, ms_per_byte):
    """bisection over the numeric parameter of the mutation (token length / number of parts / nesting depth / offset)"""
    same = lambda x: x is not None and "fail" in x and x["fail"] == r["fail"]
    run1 = lambda mm: real.run_list([(mode, budget_for(len(mm.data()), ms_per_byte), mm.data())], "min")[0]
    if m.param is None or m.cls == "truncate":
        return m, d, r
    lo, hi, best = 1, m.param, (m, d, r)
    it = 0
    while lo < hi and it < 24:
        it += 1
        mid = (lo + hi) // 2
        mm = m.with_param(mid)
        x = run1(mm)
        if same(x):
            hi = mid; best = (mm, mm.data(), x)
        else:
            lo = mid + 1
    return best


# ---------------------------------------------------------------------------------------------- exhaustive short attribute values
ATTR_TEMPLATES = {
    "c05a": ("ISO-10303-21;\nHEADER;\nFILE_DESCRIPTION((''),'2;1');\nFILE_NAME('','',(''),(''),'','','');\nFILE_SCHEMA(('C05A'));\nENDSEC;\nDATA;\n"
             "#1=POINT(1.,2.);\n#3=KINDS(%s);\n#9=POINT(3.,4.);\nENDSEC;\nEND-ISO-10303-21;\n",
             ["7", "1.5", "42", "'s'", ".T.", ".U.", ".GREEN.", "\"1F\"", "#1", "LEN(2.5)", "(1.,2.)", "((1,2),(3))", "(#1)", "$", "('a')"],
             ["INTEGER", "REAL", "NUMBER", "STRING", "BOOLEAN", "LOGICAL", "ENUMERATION", "BINARY", "ENTITY", "SELECT",
              "LIST-OF-REAL", "LIST-OF-LIST", "SET-OF-ENTITY", "OPTIONAL-INTEGER", "LIST-OF-STRING"]),
    "c05b": ("ISO-10303-21;\nHEADER;\nFILE_DESCRIPTION((''),'2;1');\nFILE_NAME('','',(''),(''),'','','');\nFILE_SCHEMA(('C05B'));\nENDSEC;\nDATA;\n"
             "#10=NODE('leaf',(),$);\n#20=HOLDER(%s);\nENDSEC;\nEND-ISO-10303-21;\n",
             ["(#10,COUNT_T(3))", "((1,2),(3,4))", ".ALPHA.", "(1.0,2.0)", "(.T.,.F.)", "(\"0\")", "COUNT_T(7)"],
             ["LIST-OF-SELECT", "ARRAY-OF-ARRAY", "ENUMERATION", "DEFINED-LIST", "SET-OF-LOGICAL", "LIST-OF-BINARY", "SELECT"]),
}
PUNCT = ["'", '"', "(", ")", ".", ",", "#", "$", "*", "-", "1", "E", "a", " ", ";", "/", "\\", "="]


def attr_exhaustive(ctx, real, quick, ms_per_byte):
    tmpl, vals, kinds = ATTR_TEMPLATES[real.schema]
    full, red = PUNCT, PUNCT[:9]
    plan = [(full, 2), (red, 3)] if quick else [(full, 3), (red + ["1", "E"], 4)]
    strings = set()
    for alpha, n in plan:
        for ln in range(0, n + 1):
            for t in itertools.product(alpha, repeat=ln):
                strings.add("".join(t))
    strings = sorted(strings)
    items, meta = [], []
    for ai, kd in enumerate(kinds):
        for s in strings:
            v = list(vals); v[ai] = s
            d = (tmpl % ",".join(v)).encode("latin-1")
            items.append(("x", budget_for(len(d), ms_per_byte), d)); meta.append((kd, s))
    t0 = time.time()
    res = real.run_parallel(items, "attr-" + real.schema)
    clean, fails = True, {}
    for (kd, s), (_, _, d), r in zip(meta, items, res):
        ctx.count(1, key=("attr", real.schema, kd, s))
        ctx.hist("exhaustive attribute kinds", kd)
        if r is not None and "fail" in r:
            fails.setdefault((r["fail"], r["where"], kd), []).append((s, d, r))
        elif r is not None and r["ord"] != 1:
            fails.setdefault(("non-ordinary-severity", str(r["sev"]), kd), []).append((s, d, dict(r, err="")))
    ctx.cov["correspondence"][f"attribute-exhaustive/{real.schema}"] = {
        "strings per kind": len(strings), "kinds": len(kinds), "inputs": len(items), "failing": len(fails),
        "alphabet": "".join(PUNCT), "wall_s": round(time.time() - t0, 1)}
    for (kind, where, kd), lst in sorted(fails.items(), key=lambda kv: str(kv[0])):
        clean = False
        s, d, r = min(lst, key=lambda t: (len(t[0]), t[0]))
        ctx.violation(f"file:{kind}@{where}", f"{kind} in {where}: attribute of kind {kd} given the value {s!r} (schema {real.schema})",
                      {"kind": "file", "schema": real.schema, "mode": "x", "mutation": f"attribute {kd} := {s!r}", "bytes_hex": d.hex(),
                       "sanitizer": r.get("err", "")[-1500:]})
    return clean



# ---------------------------------------------------------------------------------------------- time-ratio stream (linearity)
KINDS_VALS = ["7", "1.5", "42", "'s'", ".T.", ".U.", ".GREEN.", "\"1F\"", "#1", "LEN(2.5)", "(1.,2.)", "((1,2),(3))", "(#1)", "$", "('a')"]
HDR_A = ("ISO-10303-21;\nHEADER;\nFILE_DESCRIPTION((%s),'2;1');\nFILE_NAME('','',(''),(''),'','','');\nFILE_SCHEMA(('C05A'));\nENDSEC;\nDATA;\n"
         "#1=POINT(1.,2.);\n")
END_A = "ENDSEC;\nEND-ISO-10303-21;\n"
Q = "'"


def dense_shapes():
    """escape-dense / structure-dense inputs, each a function n -> file bytes whose size is proportional to n"""
    def kinds(i, val, pre="", post=""):
        v = list(KINDS_VALS); v[i] = val
        return (HDR_A % (Q + Q) + pre + "#3=KINDS(" + ",".join(v) + post + ");\n" + END_A).encode("latin-1")

    def plain(body):
        return (HDR_A % (Q + Q) + body + END_A).encode("latin-1")
    sh = {
        "string of doubled apostrophes": lambda n: kinds(3, Q + (Q + Q) * n + Q),
        "string of escaped backslashes": lambda n: kinds(3, Q + "\\\\" * n + Q),
        "string of \\S\\x": lambda n: kinds(3, Q + "\\S\\x" * n + Q),
        "string of \\X\\41": lambda n: kinds(3, Q + "\\X\\41" * n + Q),
        "string of \\S\\ followed by a doubled apostrophe": lambda n: kinds(3, Q + ("\\S\\" + Q + Q) * n + Q),
        "string of plain characters": lambda n: kinds(3, Q + "s" * (2 * n) + Q),
        "list of strings that are one escaped apostrophe": lambda n: kinds(14, "(" + ",".join([Q * 4] * n) + ")"),
        "nested empty aggregates": lambda n: kinds(11, "(" * n + ")" * n),
        "run of comments": lambda n: kinds(1, "/**/" * n + "1.5"),
        "run of $,": lambda n: kinds(14, "('a')", post="," + "$," * n + "$"),
        "real digits": lambda n: kinds(1, "1." + "7" * (2 * n)),
        "integer digits": lambda n: kinds(0, "7" * (2 * n)),
        "enumeration letters": lambda n: kinds(6, "." + "G" * (2 * n) + "."),
        "binary digits": lambda n: kinds(7, '"0' + "A" * (2 * n) + '"'),
        "list of reals": lambda n: kinds(10, "(" + "1.," * n + "1.)"),
        "set of references": lambda n: kinds(12, "(" + "#1," * n + "#1)"),
        "list of lists": lambda n: kinds(11, "(" + "(1)," * n + "(1))"),
        "run of instances": lambda n: plain("".join("#%d=POINT(1.,2.);\n" % (k + 10) for k in range(n // 4))),
        "run of complex instances": lambda n: plain("".join("#%d=(A1(2.5)BASE(%d));\n" % (k + 10, k) for k in range(n // 8))),
        "header list of strings": lambda n: (HDR_A % ",".join(["'d'"] * n) + END_A).encode(),
        "keyword letters": lambda n: plain("#3=" + "K" * (2 * n) + "(1);\n"),
        "run of closing parentheses": lambda n: kinds(14, "('a')", post=")" * n),
        "white space": lambda n: kinds(1, " \n" * n + "1.5"),
    }
    # records the reader cannot read cleanly, with no `);` in the rest of the file: whatever looks for the end of such a
    # record (the `);` scan of STEPread, CheckRemainingInput's skip to the next delimiter) must stay inside the record —
    # pass 2 starts again behind the record's `;`, so a scan to the end of the file is paid once per record
    damaged = {
        "run of instances without closing parenthesis": "#%d=POINT(1.,2.;\n",
        "run of instances that end after the first value": "#%d=POINT(1.;\n",
        "run of instances with an unreadable value and no delimiter": "#%d=POINT(x;\n",
        "run of instances with an unreadable second value": "#%d=POINT(1.,x;\n",
        "run of instances with an unclosed string": "#%d=POINT(1.,'x;\n",
        "run of instances with an unclosed aggregate": "#%d=DPOINT((1.,;\n",
        "run of instances with an opening parenthesis for a value": "#%d=POINT(1.,(;\n",
        "run of complex instances without closing parenthesis": "#%d=(A1(2.5)BASE(7;\n",
        "run of instances with unreadable values and delimiters": "#%d=POINT(x,y);\n",
        # the read gives up on / inside a string literal: a scan for the end of the record that counts apostrophes from
        # where it starts takes the closing one for an opening one
        "run of instances whose read gives up on an apostrophe": "#%d=BARE('';\n",
        "run of instances whose read gives up inside a string": "#%d=POINT('a,b';\n",
        # the character the read gives up on is the record's own `;`: the scan for the end of the record then runs to the
        # next `;` - one record too far, which ReadInstance undoes; it must not be more than that
        "run of instances that end after the keyword": "#%d=BARE;\n",
        "run of instances with attributes that end after the keyword": "#%d=POINT;\n",
        # an aggregate of aggregates is kept as raw text by SCLundefined::STEPread / PushPastImbedAggr
        "run of instances that end inside a nested aggregate": "#%d=KINDS(" + ",".join(KINDS_VALS[:11]) + ",((1,2),(3;\n",
        "run of instances that end after an element of an aggregate of aggregates": "#%d=KINDS(" + ",".join(KINDS_VALS[:11]) + ",((1,2),;\n",
    }
    for nm, rec in damaged.items():
        per = 16 if "KINDS(" in rec else 4      # the long records cost more each: fewer of them per unit
        sh[nm] = (lambda rec, per: lambda n: plain("".join(rec % (k + 10) for k in range(n // per))))(rec, per)
    return sh


RATIO_LIMIT = 6.5      # sizes grow 4x: linear time gives ~4, quadratic ~16
RATIO_FLOOR_MS = 250   # below this the constant part and machine noise dominate


def ratio_stream(ctx, real, quick):
    """time(4N) / time(N) along a ladder of sizes, per shape.  A ratio test is independent of how fast the machine is;
    a suspicious ratio is re-measured three times (minimum taken) before it counts."""
    ladder = [2000, 8000, 32000] if quick else [2000, 8000, 32000, 128000]
    shapes = dense_shapes()

    def measure(data, budget):
        return real.run_list([("x", budget, data)], "ratio")[0]

    def one(item):
        name, mk = item
        prev, out = None, {"shape": name, "times": []}
        for n in ladder:
            data = mk(n)
            budget = 6 if prev is None else int(6 + 12 * prev / 1000.0)
            r = measure(data, budget)
            if r is None:
                break
            if "fail" in r:
                out["fail"] = (n, data, r, prev)
                break
            out["times"].append((n, len(data), r["cpu"]))
            if prev is not None and r["cpu"] > RATIO_FLOOR_MS and r["cpu"] > RATIO_LIMIT * prev:
                out["suspect"] = (n, data, r["cpu"], prev)
                break
            prev = r["cpu"]
        return out

    t0 = time.time()
    with ThreadPoolExecutor(min(8, NPROC)) as ex:
        outs = list(ex.map(one, shapes.items()))
    worst = 0.0
    clean = True
    for o in outs:
        name = o["shape"]
        ctx.hist("time-ratio shapes", name)
        ctx.count(len(o["times"]), key=("ratio", real.schema, name))
        for (n1, _, a), (n2, _, b) in zip(o["times"], o["times"][1:]):
            if b > RATIO_FLOOR_MS:
                worst = max(worst, b / a)
        if "fail" in o:
            n, data, r, prev = o["fail"]
            clean = False
            if r["fail"] == "timeout":
                what = (f"{name}: size {n} units ({len(data)} bytes) did not finish within {int(6 + 12 * (prev or 0) / 1000.0)} s "
                        f"= 6 s + 12 x the time of a quarter of the size ({prev} ms): time is not proportional to the input")
                ctx.violation(f"time:superlinear:{name}", what,
                              {"kind": "file", "schema": real.schema, "mode": "x", "mutation": f"{name} x {n}", "bytes_hex": data.hex(),
                               "expect": "time(4N)/time(N) <= %.1f" % RATIO_LIMIT, "quarter_size_ms": prev})
            else:
                ctx.violation(f"file:{r['fail']}@{r['where']}", f"{r['fail']} in {r['where']} on {name} x {n} ({len(data)} bytes)",
                              {"kind": "file", "schema": real.schema, "mode": "x", "mutation": f"{name} x {n}", "bytes_hex": data.hex(),
                               "sanitizer": r.get("err", "")[-1500:]})
        elif "suspect" in o:
            n, data, ms, prev = o["suspect"]
            small = shapes[name](n // 4)
            # serial re-measurement of process CPU time (independent of machine load), minimum of five for both sizes;
            # and a second pair (n/8 -> n/2) must show the same blow-up before it counts
            def tmin(dd, budget, reps=5):
                xs = [measure(dd, budget) for _ in range(reps)]
                return min((x["cpu"] for x in xs if x and "cpu" in x), default=None)
            ta = tmin(small, 30)
            tb = tmin(data, int(10 + 12 * prev / 1000.0))
            if ta is not None and tb is not None and tb > RATIO_FLOOR_MS and tb > RATIO_LIMIT * ta:
                t8 = tmin(shapes[name](max(n // 16, 1)), 30, 3)
                # (n/16 -> n/4): a genuine super-linear cost shows there too, unless n/4 is still within the constant part
                if t8 is not None and ta > 40 and ta <= 5.0 * t8:
                    tb = ta * 4.0     # not confirmed at the smaller pair: treated as linear
            if ta is None:
                continue
            if tb is None or (tb > RATIO_FLOOR_MS and tb > RATIO_LIMIT * ta):
                clean = False
                what = (f"{name}: {n // 4} units take {ta:.0f} ms, {n} units take " + (f"{tb:.0f} ms" if tb else "more than the budget")
                        + (f" - ratio {tb / ta:.1f}" if tb else "") + f" for 4x the input (linear: ~4, limit {RATIO_LIMIT}); "
                        "time is not proportional to the input")
                ctx.violation(f"time:superlinear:{name}", what,
                              {"kind": "file", "schema": real.schema, "mode": "x", "mutation": f"{name} x {n}", "bytes_hex": data.hex(),
                               "cpu_ms_quarter": ta, "cpu_ms_full": tb, "expect": "time(4N)/time(N) <= %.1f" % RATIO_LIMIT})
            else:
                worst = max(worst, tb / ta)
    ctx.cov["correspondence"][f"time-ratio/{real.schema}"] = {"shapes": len(shapes), "ladder": ladder, "limit": RATIO_LIMIT,
                                                              "worst ratio above the floor": round(worst, 2),
                                                              "wall_s": round(time.time() - t0, 1)}
    return clean


# ---------------------------------------------------------------------------------------------- matcher sequences
def matcher_schema():
    """one schema, 45 independent root supertypes: every SUPERTYPE OF expression over three subtypes (two tree shapes x
    AND/ANDOR/ONEOF at each node) and every `(x op (y op z)) op w` over four (27); entities without attributes.
    Returns (EXPRESS text, [root entity lists], generator module)."""
    sys.path.insert(0, os.path.join(VERIF, "tools"))
    import c08_gen as G
    ops = ["and", "andor", "oneof"]
    mk = lambda op, a, b: ("oneof", [a, b]) if op == "oneof" else (op, a, b)
    exprs = []
    for o1 in ops:
        for o2 in ops:
            exprs.append((3, lambda x, y, z, o1=o1, o2=o2: mk(o1, x, mk(o2, y, z))))
            exprs.append((3, lambda x, y, z, o1=o1, o2=o2: mk(o1, mk(o2, x, y), z)))
    for o1 in ops:
        for o2 in ops:
            for o3 in ops:
                exprs.append((4, lambda x, y, z, w, o1=o1, o2=o2, o3=o3: mk(o3, mk(o1, x, mk(o2, y, z)), w)))
    roots = []
    for i, (k, f) in enumerate(exprs):
        r = f"r{i}"
        subs = [r + c for c in "abcd"[:k]]
        roots.append([{"name": r, "abstract": False, "supers": [], "expr": f(*[("ent", x) for x in subs])}] +
                     [{"name": x, "abstract": False, "supers": [r], "expr": None} for x in subs])
    return G.render_schema([e for r in roots for e in r], "c05m"), roots, G


def inst_text(fid, X):
    X = sorted(X)
    if len(X) == 1:
        return f"#{fid}={X[0].upper()}();"
    return f"#{fid}=(" + "".join(n.upper() + "()" for n in X) + ");"


def seq_file(seq):
    body = "\n".join(inst_text(10 + i, X) for i, X in enumerate(seq))
    return ("ISO-10303-21;\nHEADER;\nFILE_DESCRIPTION((''),'2;1');\nFILE_NAME('','',(''),(''),'','','');\nFILE_SCHEMA(('C05M'));\nENDSEC;\nDATA;\n"
            + body + "\nENDSEC;\nEND-ISO-10303-21;\n").encode()


def matcher_sequences(ctx, b, quick):
    """the matcher keeps state between the instances of one file: files with several complex instances (legal and
    illegal) over every nesting of AND/ANDOR/ONEOF, in every order of two and in random longer orders"""
    text, roots, G = matcher_schema()
    exp = os.path.join(ctx.work, "c05m.exp")
    open(exp, "w").write(text)
    real = Real(ctx, b, "c05m", exp_path=exp)
    import random
    rng = random.Random(f"C05-matcher:{ctx.seed}")   # own generator: this stream runs beside the others
    seqs = []
    allsets = []
    for r in roots:
        names = [e["name"] for e in r]
        sets = [X for X in G.all_subsets(names) if r[0]["name"] in X]
        legal = [X for X in sets if G.legal(r, X)]
        illegal = [X for X in sets if not G.legal(r, X)]
        allsets += [(X, True) for X in legal] + [(X, False) for X in illegal]
        # every ordered pair in which at least one instance is legal (the second may be the illegal one: the state the
        # first leaves behind is what matters); pairs of two illegal instances sampled in quick
        pairs = [(X, Y) for X in sets for Y in sets if (len(X) > 1 or len(Y) > 1)]
        if quick:
            keep = [p for p in pairs if p[0] in legal or p[1] in legal]
            rest = [p for p in pairs if not (p[0] in legal or p[1] in legal)]
            pairs = keep + rng.sample(rest, min(len(rest), 20))
        seqs += [list(p) for p in pairs]
        for _ in range(4 if quick else 40):          # longer orders within one supertype
            k = rng.randint(3, 6)
            seqs.append([rng.choice(sets) if rng.random() < 0.3 else rng.choice(legal) for _ in range(k)])
    for _ in range(20 if quick else 300):           # all supertypes mixed, long files
        k = rng.randint(10, 60)
        seqs.append([rng.choice(allsets)[0] for _ in range(k)])
    legal_all = [X for X, ok in allsets if ok]
    for _ in range(6 if quick else 40):             # every legal subset once, random order
        p = list(legal_all); rng.shuffle(p); seqs.append(p)
    items = [("x", 20, seq_file(sq)) for sq in seqs]
    t0 = time.time()
    res = real.run_parallel(items, "seq")
    fails = {}
    for sq, (_, _, d), r in zip(seqs, items, res):
        ctx.count(1, key=("seq", d))
        ctx.hist("matcher sequences (instances per file)", str(min(len(sq), 10)) + ("+" if len(sq) >= 10 else ""))
        if r is not None and "fail" in r:
            fails.setdefault((r["fail"], r["where"]), []).append((sq, r))
        elif r is not None and r["ord"] != 1:
            fails.setdefault(("non-ordinary-severity", str(r["sev"])), []).append((sq, dict(r, fail="non-ordinary-severity", where=str(r["sev"]), err="")))
    ctx.cov["correspondence"]["matcher-sequences/c05m"] = {"supertype expressions": len(roots), "files": len(items),
                                                           "failing": len(fails), "wall_s": round(time.time() - t0, 1)}
    for (kind, where), lst in sorted(fails.items(), key=lambda kv: str(kv[0])):
        sq, r = min(lst, key=lambda t: len(t[0]))
        same = lambda x: x is not None and x.get("fail") == kind
        # delta-debug the instance list (order kept)
        changed = True
        while changed and len(sq) > 1:
            changed = False
            for i in range(len(sq)):
                cand = sq[:i] + sq[i + 1:]
                x = real.run_list([("x", 20, seq_file(cand))], "seqmin")[0]
                if same(x):
                    sq, r, changed = cand, x, True
                    break
        alone = [same(real.run_list([("x", 20, seq_file([X]))], "seqmin")[0]) for X in sq]
        rev = same(real.run_list([("x", 20, seq_file(list(reversed(sq))))], "seqmin")[0]) if len(sq) > 1 else None
        d = seq_file(sq)
        by = {e["name"]: e for rr in roots for e in rr}
        rootn = sorted({n for X in sq for n in X if not by[n]["supers"]})
        exprs = "; ".join(f"{n} SUPERTYPE OF ({G.render_expr(by[n]['expr'])})" for n in rootn)
        what = (f"{kind} in {where}: file with the instances " + " ".join(inst_text(10 + i, X) for i, X in enumerate(sq))
                + f" over {exprs}" + (f"; each instance alone fails: {alone}; reversed order fails: {rev}" if len(sq) > 1 else ""))
        ctx.violation(f"file:{kind}@{where}", what,
                      {"kind": "file", "schema": "c05m", "schema_text": text, "mode": "x", "mutation": "sequence of complex instances",
                       "bytes_hex": d.hex(), "sanitizer": r.get("err", "")[-1500:]})
    return not fails


# ---------------------------------------------------------------------------------------------- aggregate exits (node ownership)
def aggr_exit_stream(ctx, real, quick, ms_per_byte):
    """every way out of the aggregate element loop, for every aggregate attribute, with 0..n elements: closing parenthesis,
    end of input after element k, a bad delimiter after element k — read, written and destroyed under ASan (the node the
    reader handed to the list must not have been freed)"""
    tmpl, vals, kinds = ATTR_TEMPLATES[real.schema]
    elems = {"LIST-OF-REAL": "1.5", "LIST-OF-LIST": "(1,2)", "SET-OF-ENTITY": "#1", "LIST-OF-STRING": "'a'", "LIST-OF-SELECT": "COUNT_T(3)",
             "ARRAY-OF-ARRAY": "(1,2)", "DEFINED-LIST": "1.0", "SET-OF-LOGICAL": ".T.", "LIST-OF-BINARY": "\"1F\""}
    sizes = [0, 1, 2, 3, 9] if quick else [0, 1, 2, 3, 4, 9, 64, 65, 300]
    items, meta = [], []
    for ai, kd in enumerate(kinds):
        if kd not in elems:
            continue
        el = elems[kd]
        for n in sizes:
            shapes = [("closed", "(" + ",".join([el] * n) + ")", None)]
            for k in sorted({1, n // 2, n} - {0}) if n else []:
                for bad in (";", " x", "(", "/*c*/ y", "'"):
                    shapes.append((f"bad delimiter {bad!r} after element {k}", "(" + ",".join([el] * k) + bad + ",".join([el] * (n - k)) + ")", None))
                shapes.append((f"end of input after element {k}", "(" + ",".join([el] * k), "cut"))
                shapes.append((f"end of input after the comma behind element {k}", "(" + ",".join([el] * k) + ",", "cut"))
            shapes.append(("end of input after (", "(", "cut"))
            for desc, val, cut in shapes:
                v = list(vals); v[ai] = val
                text = tmpl % ",".join(v)
                if cut:
                    text = text[:text.index(val) + len(val)]
                d = text.encode("latin-1")
                items.append(("x", budget_for(len(d), ms_per_byte), d)); meta.append((kd, n, desc))
    t0 = time.time()
    res = real.run_parallel(items, "aggr-" + real.schema)
    fails = {}
    for (kd, n, desc), (_, _, d), r in zip(meta, items, res):
        ctx.count(1, key=("aggr", real.schema, d))
        ctx.hist("aggregate exits", desc.split(" after")[0].split(" '")[0])
        if r is not None and "fail" in r:
            fails.setdefault((r["fail"], r["where"]), []).append((kd, n, desc, d, r))
        elif r is not None and r["ord"] != 1:
            fails.setdefault(("non-ordinary-severity", str(r["sev"])), []).append((kd, n, desc, d, dict(r, err="")))
    ctx.cov["correspondence"][f"aggregate-exits/{real.schema}"] = {"inputs": len(items), "element counts": sizes, "failing": len(fails),
                                                                   "wall_s": round(time.time() - t0, 1)}
    for (kind, where), lst in sorted(fails.items(), key=lambda kv: str(kv[0])):
        kd, n, desc, d, r = min(lst, key=lambda t: (t[1], len(t[3])))
        pred = run_model(ctx, ["aggrown"])[0] if os.path.exists(ctx.model_exe("m_c05")) else None
        ctx.violation(f"file:{kind}@{where}", f"{kind} in {where}: aggregate {kd} with {n} elements, {desc} (schema {real.schema}); "
                      f"ownership model on the regenerated delete sites: {pred}",
                      {"kind": "file", "schema": real.schema, "mode": "x", "mutation": f"{kd} x{n}: {desc}", "bytes_hex": d.hex(),
                       "sanitizer": r.get("err", "")[-1500:]})
    return not fails


# ---------------------------------------------------------------------------------------------- entry points
def setup(ctx):
    ctx.trusted += [
        "tools/extract.d/c05_buffers.py (regex extraction of capacities, guards, limits, loop conditions and sprintf sites; "
        "its classification of sprintf %s arguments as dictionary names is by a reviewed list of argument expressions)",
        "hand-written models lean/StepModel/P21Safe.lean (write indices of the fixed-capacity sites) and "
        "lean/StepModel/P21SafeLoops.lean (istream subset + skipping/recovery loops): modelled, tied by function-level correspondence",
        "harness/h_p21safe.cc, the mutators and alphabets in checks/c05.py (what they do not generate is not exercised)",
        "ASan/UBSan of the installed gcc: intra-object overflows and writes inside uninstrumented libstdc++ are invisible to it",
    ]
    ctx.assumptions += [
        "memory safety / absence of UB of everything outside the modelled sites and loops is OBSERVED by sanitizer runs (testing), not proved",
        "dictionary (schema) names and literals passed to sprintf %s are at most 2048 bytes; ints are 32-bit; RealNumPrecision <= 33",
        "BUFSIZ is the build compiler's <stdio.h> value (regenerated)",
        "'time proportional to the input' is checked against a budget of 60x the per-byte cost of the unmutated file + 4 s",
        "the export-list loop is modelled and proved but has no function-level correspondence "
        "(it is inside larger functions); it is exercised at file level only",
    ]
    ctx.cov["partial"] = ["theorems cover the modelled fixed-capacity buffers and recovery loops only; the rest of C05 is sanitizer testing"]


def prepare(ctx):
    """regenerate + build the model exe first (it must exist even when a theorem no longer checks), then the proofs"""
    files, errs = L.regenerate(["c05_buffers"], repo=B.REPO)
    for e in errs:
        ctx.broken.append(("extract", e))
    ctx.extract_failed = bool(errs)
    # when a shape is no longer recognised the table of the last successful extraction stays in place: the model then
    # still answers with the *previous* capacities, and the violation search below probes every modelled site at those
    # capacities, capacity+1 … and far beyond (thorough-size sweeps), before `no-failing-input-found` is reported
    if os.path.exists(os.path.join(L.GEN_DIR, "C05Buffers.lean")):
        ok, out = L.lake_build(["m_c05"])
        if not ok:
            ctx.broken.append(("lake build m_c05", out[-2000:]))
    proof_ok = False
    if not errs:
        proof_ok = ctx.lean("StepModel.Props.C05", exes=["m_c05"], extractors=None)
    ctx.proof_ok = proof_ok
    return proof_ok


def calibrate(real, files):
    """per-byte cost of reading+writing the unmutated files under the sanitizer build (ms/byte), best of 3"""
    best = None
    for fname, mode in files:
        data = open(os.path.join(CORPUS, fname), "rb").read()
        rs = real.run_list([(mode, 30, data)] * 3, "cal")
        ok = [r["ms"] for r in rs if r and "ms" in r]
        if len(ok) < 3:
            return None, (fname, rs)
        v = min(ok) / len(data)
        best = v if best is None else max(best, v)
    return best, None


def run(ctx):
    setup(ctx)
    quick = ctx.tier == "quick"
    proof_ok = prepare(ctx)
    b = ctx.build("asan")
    have_model = os.path.exists(ctx.model_exe("m_c05"))
    schemas = ["c05a"] if quick else ["c05a", "c05b"]
    k = gen_constants()
    # the matcher-sequence stream compiles its own 207-entity schema library: it runs beside the other streams
    mfut = ThreadPoolExecutor(1).submit(matcher_sequences, ctx, b, quick)
    for si, schema in enumerate(schemas):
        real = Real(ctx, b, schema)
        files = [(f, "w" if "work" in f else "x") for f in SCHEMAS[schema]]
        ms_per_byte, bad = calibrate(real, files)
        if ms_per_byte is None:
            fname, rs = bad
            r = next((x for x in rs if x and "fail" in x), {"fail": "?", "where": "?", "err": ""})
            ctx.violation(f"file:{r['fail']}@{r['where']}:unmutated", f"the unmutated corpus file {fname} fails: {r['fail']} in {r['where']}",
                          {"kind": "file", "schema": schema, "mode": "x", "bytes_hex": open(os.path.join(CORPUS, fname), 'rb').read().hex(),
                           "sanitizer": r.get("err", "")})
            continue
        ctx.cov["correspondence"][f"calibration/{schema}"] = {"ms_per_byte": round(ms_per_byte, 5)}
        if si == 0 and have_model:
            function_level(ctx, real, quick, k)
            stream_kind(ctx, real, quick)
            pass2_stream(ctx, real, quick)
            stayin_stream(ctx, real, quick)
            listed_api_findings(ctx, real)
        file_level(ctx, real, files, quick, ms_per_byte)
        attr_exhaustive(ctx, real, quick, ms_per_byte)
        aggr_exit_stream(ctx, real, quick, ms_per_byte)
        if si == 0:
            ratio_stream(ctx, real, quick)
    valgrind_pass(ctx, quick)
    mfut.result()
    ctx.sample({"function-level request": "readreal " + hexs(b"1." + b"2" * 62), "meaning": "ReadReal on a 64-character number"})
    ctx.sample({"file-level mutant": "c05a-base.p21:stretch[real '1.25E-3'] n=64"})
    ctx.sample({"attribute-exhaustive": "KINDS.e (ENUMERATION) := \"'.(\""})
    ctx.cov["rule"] = ("function level: per-site parameter sweeps around the regenerated capacities (±2…+8, 2x, 10^4–10^5) and, for the "
                       "five stream loops, every string of length ≤3 (quick) / ≤4 (thorough) over a 13/15-symbol alphabet plus random "
                       "fragment strings and inputs around MAX_COMMENT_LENGTH / the getline count; file level: per corpus file token "
                       "stretching per lexical class (lengths at 64, 512, BUFSIZ±, 10^5), many-part and illegal complex instances, "
                       "parenthesis insertion/deletion/nesting to 5·10^4, malformed literals, random token delete/dup/swap/insert, "
                       "truncation (every offset in thorough), and every string ≤2–4 over the punctuation alphabet for each attribute kind")


def replay(ctx, path):
    setup(ctx)
    d = json.load(open(path))
    r = d.get("replay", d)
    prepare(ctx)
    b = ctx.build("asan")
    exp_path = None
    if r.get("schema_text"):
        exp_path = os.path.join(ctx.work, r.get("schema", "gen") + ".exp")
        open(exp_path, "w").write(r["schema_text"])
    real = Real(ctx, b, r.get("schema", "c05a"), exp_path=exp_path)
    if r.get("kind") == "valgrind":
        bp = ctx.build("plain")
        exe = os.path.join(ctx.work, "h_p21safe_plain_c05a")
        B.gen_schema_lib(bp, os.path.join(CORPUS, "c05a.exp"), os.path.join(ctx.work, "gen_plain_c05a"),
                         [os.path.join(VERIF, "harness", "h_p21safe.cc")], exe)
        err = valgrind_run(exe, bp.env(), r.get("mode", "x"), bytes.fromhex(r["bytes_hex"]), ctx.work, "replay")
        if err:
            ctx.violation(d.get("key", "replay"), f"replayed {r.get('mutation', '')}: valgrind reports an error", dict(r, valgrind=err[:3000]))
        else:
            print("replay: valgrind reports no error")
    elif r.get("kind") == "fn":
        a = real.run_fn([r["request"]])[0]
        m = run_model(ctx, [r["request"]])[0] if os.path.exists(ctx.model_exe("m_c05")) else None
        if isinstance(a, dict):
            ctx.violation(d.get("key", "replay"), f"replayed `{r['request'][:80]}`: {a['fail']} in {a['where']} (model: {m})",
                          dict(r, sanitizer=a["err"][-1200:]))
        else:
            print(f"replay: implementation answered `{a}`, model `{m}` — no failure")
    else:
        data = bytes.fromhex(r["bytes_hex"])
        x = real.run_list([(r.get("mode", "x"), 60, data)], "replay")[0]
        if x is not None and ("fail" in x or x.get("ord") != 1):
            ctx.violation(d.get("key", "replay"), f"replayed {r.get('mutation', '')}: {x.get('fail', 'non-ordinary severity')} in {x.get('where', '')}",
                          dict(r, sanitizer=x.get("err", "")[-1500:]))
        else:
            print(f"replay: {x} — no failure")

"""C01 — Part 21 exchange files survive read-then-write with every value intact.

proof:           lean/StepModel/Props/C01.lean over P21.Reader / P21.Writer (transliterated reader and writer)
regenerated tie: tools/extract.d/p21rw.py -> Generated/P21RWGen.lean (string node writer appends or assigns, comment skipping
                 in CheckRemainingInput / element loops, complex-part plumbing, counters, exit rule), p21lex, attrnull, stepfile
correspondence:  harness/h_p21.cc linked to generated schema libraries vs lean exe m_c01 on generated conforming
                 populations rendered with random layout: per-instance MgrNode state + written text, file severity, counters
oracle:          the statement on the implementation's output: the read reports no error, the written file parses,
                 denotes the input population (ids in order, types, every parameter), and read+write of it is a fixed point
"""
import json, os, random, re
from vlib import build as B, p21_gen as G, p21_gen_rw as W, p21_rw_run as R

HERE = os.path.dirname(os.path.abspath(__file__))
VERIF = os.path.dirname(HERE)
EXTRACTORS = ["p21rw", "attrnull", "stepfile", "enums"]
CLASSES = ["top", "aftval", "agg", "agg2", "sel", "cx"]
GOOD_CLASSES = ["top", "aftval", "agg", "agg2"]
NAMED_COMMENTS = {"plain": "/* c */", "empty": "/**/", "stars": "/* a * b / c */", "semicolon": "/*#9=X(1);*/",
                  "multiline": "/*\n multi\n line */", "delims": "/* ,) */", "quote": "/* it's */", "hash": "/* #3 */",
                  "data": "/* DATA; */", "endsec": "/* ENDSEC; */", "endiso": "/*END-ISO-10303-21;*/"}
# explicit print control directives of Part 21 edition 1 (token separators for ReadTokenSeparator, i.e. in the gap class `top`):
# followed by a blank, and - when ReadPcd no longer swallows the character behind the directive (decided from the
# regenerated constant pcdEatsNextChar, i.e. from the source text) - directly followed by the next token
PCD_SEPS = {"pcd-n": "\\N\\\n", "pcd-f": "\\F\\ ", "pcd-tight-n": "\\N\\", "pcd-tight-f": "\\F\\"}
PCD_TIGHT = False


# ------------------------------------------------------------------ generation
def widen_strings(rng, schema, pop):
    """p21_gen keeps LIST OF STRING at <= 1 element (other checks stay clear of the writer defect); C01 wants them all"""
    out = []
    for inst in pop:
        parts = []
        for pi, (n, vs) in enumerate(inst.parts):
            attrs = G.part_attrs(schema, inst, pi)
            nv = []
            for a, v in zip(attrs, vs):
                if a.kind == "AGG_STR" and v[0] == "aggr" and rng.random() < 0.7:
                    v = ("aggr", [("tok", rng.choice(G.STRS)) for _ in range(rng.randint(0, 4))])
                nv.append(v)
            parts.append((n, nv))
        out.append(G.Inst(inst.id, parts))
    return out


class Layout:
    """a reproducible layout: separators per gap class"""
    def __init__(self, seed, ws=True, comment_classes=(), comments=None, every_gap=False, header=0):
        self.seed, self.ws, self.cc, self.comments, self.every_gap = seed, ws, tuple(comment_classes), comments, every_gap
        self.header = header

    def render(self, schema_name, pop):
        hdr = W.HEADERS[self.header % len(W.HEADERS)]
        if not self.ws and not self.cc:
            return W.render_file(schema_name, pop, header=hdr)
        rng = random.Random(self.seed)
        names = self.comments or list(NAMED_COMMENTS)
        old = W.COMMENTS
        W.COMMENTS = [NAMED_COMMENTS[n] if n in NAMED_COMMENTS else PCD_SEPS[n] for n in names]
        old_ws, old_p = W.WS, W.P_COMMENT
        if not self.ws:
            W.WS = [""]
        if self.every_gap:
            W.P_COMMENT = 1.0
        try:
            return W.render_file(schema_name, pop, rng, self.cc, header=hdr)
        finally:
            W.COMMENTS, W.WS, W.P_COMMENT = old, old_ws, old_p

    def describe(self):
        return {"seed": self.seed, "ws": self.ws, "comment_classes": list(self.cc), "comments": self.comments,
                "every_gap": self.every_gap, "header": self.header}


class Case:
    def __init__(self, lib, pop, layout, respelled, tag):
        self.lib, self.pop, self.layout, self.respelled, self.tag = lib, pop, layout, respelled, tag
        self.text = layout.render(lib.schema.name, pop)


def gen_cases(ctx, lib, n, allowed_classes):
    rng = ctx.rng
    cases = []
    # the literal grids first: every REAL / STRING / INTEGER spelling class of the grammar once, canonical layout and
    # with blanks and comments in the gap classes where the property holds
    grid = W.grid_population(lib.schema)
    cases.append(Case(lib, grid, Layout(0, ws=False), True, "grid:canonical"))
    cases.append(Case(lib, grid, Layout(rng.randrange(1 << 30), comment_classes=tuple(GOOD_CLASSES)), True, "grid:layout"))
    # every enumeration item (item set closed under prefix / extension, both declaration orders) and every leaf of the
    # selects nested 1..4 deep (and of the renamed selects), as attribute and as aggregate element
    if "dp_e" in lib.schema.by_name:
        deep = W.deep_population(rng, lib.schema)
        cases.append(Case(lib, deep, Layout(0, ws=False), False, "deep:canonical"))
        cases.append(Case(lib, deep, Layout(rng.randrange(1 << 30)), False, "deep:whitespace"))
        cases.append(Case(lib, W.deep_population(rng, lib.schema, renamed=True), Layout(0, ws=False), False, "deep:renamed-selects"))
    for k in range(n):
        pop = widen_strings(rng, lib.schema, W.gen_population(rng, lib.schema, rng.randint(3, 10)))
        mode = k % 6
        resp = False
        if mode == 0:
            lay, tag = Layout(0, ws=False), "canonical"
        elif mode == 1:
            lay, tag = Layout(rng.randrange(1 << 30)), "whitespace"
        elif mode == 2:
            pop = W.respell(rng, lib.schema, pop)
            lay, tag, resp = Layout(rng.randrange(1 << 30)), "respelled", True
        elif mode == 3:
            lay, tag = Layout(rng.randrange(1 << 30), comment_classes=("top",)), "comments:top"
        else:
            # mode 4: the gap classes in which the property holds; mode 5: all classes (the known findings are re-checked)
            pool = GOOD_CLASSES if mode == 4 else CLASSES
            cc = tuple(c for c in pool if c in allowed_classes and rng.random() < 0.6) or ("top",)
            if rng.random() < 0.5:
                pop = W.respell(rng, lib.schema, pop)
                resp = True
            lay, tag = Layout(rng.randrange(1 << 30), comment_classes=cc), "comments:" + "+".join(cc)
        lay.header = k % len(W.HEADERS) if k % 3 != 2 else 0
        cases.append(Case(lib, pop, lay, resp, tag))
    # print control directives between tokens
    for k in range(2):
        pop = widen_strings(rng, lib.schema, W.gen_population(rng, lib.schema, rng.randint(3, 8)))
        names = ["pcd-n", "pcd-f"] + (["pcd-tight-n", "pcd-tight-f"] if PCD_TIGHT else [])
        cases.append(Case(lib, pop, Layout(rng.randrange(1 << 30), comment_classes=("top",), comments=names, every_gap=(k == 1)), False, "pcd:top"))
    return cases


# ------------------------------------------------------------------ the oracle (C01's statement on the implementation)
def oracle(pop, rr, in_text=None):
    """None when the implementation's behaviour satisfies the statement for this conforming file"""
    if rr.died:
        return "implementation died: " + rr.died
    if rr.read.get("sev") != "NULL" or rr.read.get("ret") != "NULL":
        return f"reading a conforming file reported severity {rr.read.get('sev')} (returned {rr.read.get('ret')})"
    if rr.out1 is None:
        return "no file was written"
    header, insts = R.parse_written(rr.out1)
    if header is None:
        return "the written file is not syntactically valid: " + insts
    if [i.id for i in insts] != [i.id for i in pop]:
        return f"instance ids written {[i.id for i in insts]} != ids read {[i.id for i in pop]}"
    for a, b in zip(pop, insts):
        d = R.inst_diff(a, b)
        if d:
            return "written file denotes a different population: " + d
    if "FILE_SCHEMA" not in header or "FILE_DESCRIPTION" not in header or "FILE_NAME" not in header:
        return "header entities missing in the written file"
    if in_text is not None:
        hd = R.header_diff(in_text, rr.out1)
        if hd:
            return "the written header differs from the header read: " + hd
    if rr.out2 is None:
        return "the written file could not be read and written again"
    if R.mask_time(rr.out2) != R.mask_time(rr.out1):
        return "reading the written file and writing it again does not reproduce it byte for byte"
    return None


def real_one(ctx, b, lib, pop, layout):
    text = layout.render(lib.schema.name, pop)
    p = os.path.join(ctx.work, "min.p21")
    open(p, "w", encoding="latin-1").write(text)
    return text, R.run_real(b, lib, [(p, len(pop) + 2)], ctx.work)[0]


def closure(schema, pop, keep):
    """`keep` plus every instance it references (transitively), in file order"""
    by = {i.id: i for i in pop}
    need, todo = set(), [i.id for i in keep]
    while todo:
        x = todo.pop()
        if x in need or x not in by:
            continue
        need.add(x)
        todo += G.inst_refs(by[x])
    return [i for i in pop if i.id in need]


def attr_kind_of(schema, inst, msg):
    m = re.search(r"#\d+ (\w+) parameter (\d+)", msg or "")
    if not m:
        return "?"
    nm, k = m.group(1).lower(), int(m.group(2)) - 1
    attrs = schema.all_attrs(nm) if not inst.is_complex else list(schema.by_name[nm].attrs)
    return attrs[k].kind if k < len(attrs) else "?"


BLAND = {"INTEGER": "1", "DEF_INT": "1", "REAL": "1.5", "DEF_REAL": "1.5", "NUMBER": "1.5", "STRING": "'a'", "BINARY": '"0"',
         "BOOLEAN": ".T.", "LOGICAL": ".T.", "ENUM": ".RED."}


def classify(tok):
    """coarse class of a literal for finding keys"""
    BS = chr(92)
    if tok.startswith("'"):
        kinds = [n for n, pat in [("S-apostrophe", BS + "S" + BS + "'"), ("S", BS + "S" + BS), ("P", BS + "P"), ("X2", BS + "X2" + BS),
                                  ("X4", BS + "X4" + BS), ("X", BS + "X" + BS), ("bs-bs", BS + BS), ("apos-apos", "''")] if pat in tok[1:-1]]
        return "string[" + ",".join(kinds) + "]"
    if R.REAL_RE.match(tok):
        mant = re.sub(r"E.*", "", tok).lstrip("+-").replace(".", "").strip("0")
        return ("real[" + ("neg" if tok.startswith("-") else "pos") + (",exp" if "E" in tok else ",fixed") +
                (",1digit" if len(mant) <= 1 else ",ndigits") + "]")
    if R.INT_RE.match(tok):
        return "integer[" + ("neg" if tok.startswith("-") else "pos") + "]"
    return tok[:12]


def blame_parameter(ctx, b, lib, pop, layout):
    sch = lib.schema
    for ii, inst in enumerate(pop):
        for pi, (n, vs) in enumerate(inst.parts):
            for ai, (a, v) in enumerate(zip(G.part_attrs(sch, inst, pi), vs)):
                cands = []
                if v[0] == "tok" and a.kind in BLAND:
                    cands.append((v[1], ("tok", BLAND[a.kind])))
                elif v[0] == "aggr":
                    for ei, x in enumerate(v[1]):
                        if x[0] == "tok":
                            cands.append((x[1], ("aggr", v[1][:ei] + v[1][ei + 1:])))
                elif v[0] == "typed" and v[2][0] == "tok":
                    cands.append((v[2][1], ("typed", v[1], ("tok", "1.5" if v[1] == "LEN_T" else "1"))))
                if a.kind in W.DEEP_KINDS and v[0] == "typed":
                    # a typed value of a (nested) select: does the file read once the value is a plain reference / absent?
                    t0 = next((x.id for x in pop if x.parts[0][0] == sch.targets[0].upper()), None)
                    if a.kind in ("SEL_S3", "SEL_S4") and t0 is not None:
                        cands.append((v[1] + "(...)@" + a.kind, ("ref", t0)))
                    elif a.optional:
                        cands.append((v[1] + "(...)@" + a.kind, ("null",)))
                if a.kind in W.DEEP_KINDS and v[0] == "aggr":
                    for ei, x in enumerate(v[1]):
                        if x[0] == "typed":
                            cands.append((x[1] + "(...)@" + a.kind, ("aggr", v[1][:ei] + v[1][ei + 1:])))
                for tok, repl in cands:
                    c = inst.copy()
                    c.parts[pi][1][ai] = repl
                    pop2 = [c if k == ii else x for k, x in enumerate(pop)]
                    _, r2 = real_one(ctx, b, lib, pop2, layout)
                    if not oracle(pop2, r2):
                        # `tok` is what breaks the file: keep only this instance's closure
                        sub = closure(sch, pop, [inst])
                        _, r3 = real_one(ctx, b, lib, sub, layout)
                        m3 = oracle(sub, r3)
                        return a.kind, tok, (sub if m3 else pop), (m3 or oracle(pop, real_one(ctx, b, lib, pop, layout)[1]))
    return None


def minimise(ctx, b, case, msg):
    """-> (key, what, replay) for a failing conforming file"""
    lib, sch = case.lib, case.lib.schema
    canon = Layout(0, ws=False)
    if case.layout.header:
        # does the header section decide?  same data section, canonical layout, the case's header vs the minimal header
        hl = Layout(0, ws=False, header=case.layout.header)
        text_h, rr_h = real_one(ctx, b, lib, case.pop, hl)
        m_h = oracle(case.pop, rr_h, text_h)
        _, rr_0 = real_one(ctx, b, lib, case.pop, canon)
        if m_h and not oracle(case.pop, rr_0):
            small = closure(sch, case.pop, [case.pop[0]])
            t2, r2 = real_one(ctx, b, lib, small, hl)
            m2 = oracle(small, r2, t2)
            return (f"header:variant{case.layout.header % len(W.HEADERS)}", m2 or m_h,
                    {"schema": lib.express, "file": t2 if m2 else text_h, "layout": hl.describe()})
    text, rr = real_one(ctx, b, lib, case.pop, canon)
    m0 = oracle(case.pop, rr)
    if m0:
        # data dependent: smallest sub-population (one instance + what it references) that still fails
        best_pop, best_msg = case.pop, m0
        for inst in case.pop:
            sub = closure(sch, case.pop, [inst])
            if len(sub) >= len(best_pop):
                continue
            _, r2 = real_one(ctx, b, lib, sub, canon)
            m2 = oracle(sub, r2)
            if m2:
                best_pop, best_msg = sub, m2
        m = re.search(r"#(\d+) ", best_msg)
        inst = next((i for i in best_pop if m and i.id == int(m.group(1))), best_pop[0])
        kind = attr_kind_of(sch, inst, best_msg)
        if kind == "?":
            # no parameter named in the message: find the parameter whose replacement by a bland value repairs the file
            found = blame_parameter(ctx, b, lib, best_pop, canon)
            if found:
                k2, tok, pop2, msg2 = found
                text = canon.render(sch.name, pop2)
                return f"data:{k2}:{classify(tok)}", msg2, {"schema": lib.express, "file": text, "layout": canon.describe()}
            # several parameters break the file independently: name the entity of the smallest failing instance
            kind = "entity=" + "&".join(n for n, _ in inst.parts)
        shape = ""
        mm = re.search(r"parameter \d+: (.*) became", best_msg)
        if mm and mm.group(1).startswith("("):
            shape = f":n={mm.group(1).count(',') + 1 if mm.group(1) != '()' else 0}"
        key = f"data:{kind}{shape}"
        if shape:
            key = f"data:{kind}:n>=2" if int(shape[3:]) >= 2 else key
        text = canon.render(sch.name, best_pop)
        return key, best_msg, {"schema": lib.express, "file": text, "layout": canon.describe()}
    # layout dependent
    lay = case.layout
    trials = []
    if lay.ws:
        trials.append(("layout:whitespace", Layout(lay.seed, ws=True)))
    for c in lay.cc:
        trials.append((f"layout:comment@{c}", Layout(lay.seed, ws=False, comment_classes=(c,), comments=["plain"], every_gap=True)))
    for c in lay.cc:
        for nm in NAMED_COMMENTS:
            if nm != "plain":
                trials.append((f"layout:comment-{nm}@{c}", Layout(lay.seed, ws=False, comment_classes=(c,), comments=[nm], every_gap=True)))
    for key, l2 in trials:
        text, r2 = real_one(ctx, b, lib, case.pop, l2)
        m2 = oracle(case.pop, r2)
        if m2:
            if key == "layout:comment-semicolon@agg2":
                # same root cause as comment-delims@agg2: the raw-text scanners of an aggregate of aggregates
                # (SCLundefined::STEPread / PushPastImbedAggr) know no comments; since fixes/C05-16 and -17 a `;` ends the raw
                # value like `,` and `)` do - also when it stands inside a comment
                key = "layout:comment-delims@agg2"
            # smallest sub-population
            best_pop, best_msg, best_text = case.pop, m2, text
            for inst in case.pop:
                sub = closure(sch, case.pop, [inst])
                if len(sub) >= len(best_pop):
                    continue
                t3, r3 = real_one(ctx, b, lib, sub, l2)
                m3 = oracle(sub, r3)
                if m3:
                    best_pop, best_msg, best_text = sub, m3, t3
            return key, best_msg, {"schema": lib.express, "file": best_text, "layout": l2.describe()}
    return "layout:" + case.tag, msg, {"schema": lib.express, "file": case.text, "layout": lay.describe()}


# ------------------------------------------------------------------ correspondence
def compare(rr, mr, states_only=False):
    """None when model and implementation agree on everything observable (`states_only`: on an input where the
    implementation violates the property the values it leaves in the damaged instances are not compared)"""
    if mr.stop:
        return "model: " + mr.stop
    if rr.died:
        return None     # reported by the oracle
    a = (rr.read.get("sev"), rr.read.get("ret"), rr.read.get("invalid"), rr.read.get("incomplete"), rr.read.get("notcreated"))
    m = (mr.head.get("sev"), mr.head.get("ret"), mr.head.get("invalid"), mr.head.get("incomplete"), mr.head.get("notcreated"))
    if a != m:
        return f"file level (sev, ret, invalid, incomplete, notcreated): impl {a} model {m}"
    if len(rr.insts) != len(mr.insts):
        return f"instances loaded: impl {len(rr.insts)} model {len(mr.insts)}"
    for x, y in zip(rr.insts, mr.insts):
        if (x[:3] != y[:3]) if states_only else (x != y):
            return f"instance #{x[0]}: impl {x[1:]} model {y[1:]}"
    return None


def unmodelled_ok(stop):
    return stop.startswith("unmodelled")


def evaluate(ctx, b, lib, cases, model_exe):
    files = []
    for k, c in enumerate(cases):
        p = os.path.join(ctx.work, f"c-{lib.schema.name}-{k}.p21")
        open(p, "w", encoding="latin-1").write(c.text)
        files.append((p, len(c.pop) + 2))
    reals = R.run_real(b, lib, files, ctx.work)
    models = R.run_model(model_exe, lib, [c.text for c in cases], abstract=getattr(lib.schema, "abstract", ()))
    n_viol = n_corr = 0
    for c, rr, mr in zip(cases, reals, models):
        ctx.count(1, key=(lib.schema.name, c.text))
        ctx.hist("layout", c.tag)
        ctx.hist("literals", "respelled" if c.respelled else "canonical")
        for i in c.pop:
            ctx.hist("instances", "complex" if i.is_complex else "simple")
        msg = oracle(c.pop, rr, c.text)
        if msg:
            n_viol += 1
            if len(ctx.violations) + len(ctx.known) < 12:
                key, what, replay = minimise(ctx, b, c, msg)
                ctx.violation(key, what, replay)
        d = compare(rr, mr, states_only=bool(msg))
        if d:
            if mr.stop and unmodelled_ok(mr.stop):
                ctx.hist("model", "unmodelled: " + mr.stop)
                continue
            if msg:
                # the implementation already violates the property on this input (reported above); what the model does
                # with the damaged instances is recorded, a broken tie is model != implementation on a *satisfying* input
                ctx.hist("model", "differs on a violating input")
                continue
            n_corr += 1
            if not any(n.startswith("correspondence") for n, _ in ctx.broken):
                ctx.broken.append(("correspondence P21.Reader/P21.Writer vs the reader and writer of the schema library",
                                   f"{d}; layout {c.layout.describe()}"
                                   + (f"; (the implementation also fails the oracle here: {msg})" if msg else "")
                                   + f"; file:\n{c.text[-8000:]}"))
        else:
            ctx.hist("model", "agrees" if not msg else "agrees (severity, counters, states) on a violating input")
    return n_viol, n_corr


def lean_side(ctx, module="StepModel.Props.C01"):
    """own table (p21rw) through ctx.lean; the tables other properties own (literal scanners: C09, null handling and
    session constants: C15/C16) are refreshed too, but an extractor of theirs that no longer matches is their broken
    tie — here it is recorded, and the end-to-end correspondence below still compares the compiled model with the code"""
    from vlib import lean as L
    _, errs = L.regenerate([e for e in EXTRACTORS if e != "p21rw"], repo=B.REPO)
    if errs:
        ctx.cov["foreign_extractor_errors"] = errs
        ctx.assumptions.append("tables owned by other properties could not be refreshed (" + "; ".join(errs)[:300] +
                               "): the last generated version is used; model and code are still compared end to end")
    return ctx.lean(module, exes=["m_c01"], extractors=["p21rw"])


def schemas_for(ctx, n):
    out = []
    for k in range(n):
        rng = random.Random(f"C01-schema:{ctx.seed}:{k}")
        out.append((f"{k}", W.SchemaX(G.gen_schema(rng, f"vs{k}", n_entities=rng.randint(3, 6), kinds=list(G.KIND_POOL), cover_all_kinds=(k % 2 == 0)))))
    return out


def allowed_comment_classes(cfg):
    """gap classes in which the property holds for the source as it is now (comments elsewhere are covered by findings)"""
    return list(CLASSES)


def run(ctx):
    ctx.trusted += [
        "hand-written models lean/StepModel/IStream.lean, P21/Lex.lean (literal scanners), P21/Reader.lean, P21/Writer.lean — "
        "transliterations of the anchored C++, tied by correspondence on generated files",
        "tools/extract.d/p21rw.py, p21lex.py, attrnull.py, stepfile.py (regex translation of behaviour switches and constants)",
        "harness/h_p21.cc, vlib/p21_gen.py, vlib/p21_gen_rw.py, vlib/p21_rw_run.py (what they do not generate is not compared); "
        "the independent small Part 21 reader vlib/p21_gen.parse_p21 used by the oracle",
    ]
    ctx.assumptions += [
        "FloatLaws: decimal -> double -> %.15G behaves as the executable FloatOps instance (validated by C09's h_literals grid)",
        "IStream fidelity to libstdc++ (validated by harness/h_stream.cc in C09)",
        "legal externally mapped combinations are given to the model as a table (the matcher is C08's subject)",
        "comments shorter than MAX_COMMENT_LENGTH, fewer than _maxErrorCount errors, no &SCOPE, no user-defined entities, "
        "no print-control directives; selects over entities and simple defined types",
        "written with writeComments = 0: comments are not part of the population and their re-emission is not modelled",
    ]
    proof_ok = lean_side(ctx)
    model_exe = ctx.model_exe("m_c01")
    if not os.path.exists(model_exe):
        return
    b = ctx.build("plain")
    quick = ctx.tier == "quick"
    cfg = R.model_cfg(model_exe)
    ctx.cov["model_cfg"] = cfg
    # integer-spelled elements of aggregates of NUMBER are generated when the source reads them with ReadNumber (decided
    # from the regenerated switch, i.e. from the source text)
    W.NUMBER_ELEM_INT = cfg.get("numberElemReadsNumber") == "1"
    global PCD_TIGHT
    PCD_TIGHT = cfg.get("pcdEatsNextChar") == "0"
    libs = R.build_libs(b, ctx.work, schemas_for(ctx, 3 if quick else 24))
    # corpus first
    cdir = os.path.join(VERIF, "corpus", "C01")
    if os.path.isdir(cdir):
        for f in sorted(os.listdir(cdir)):
            if f.endswith(".json"):
                cj = json.load(open(os.path.join(cdir, f)))
                # a corpus file may name the regenerated switches it needs (the failing input of a repair is replayed once
                # the source has the repair; before, it is the repair's own replay file)
                if all(cfg.get(k) == v for k, v in cj.get("requires", {}).items()):
                    ctx.hist("corpus", f)
                    replay_obj(ctx, b, cj, model_exe, corpus=True)
                else:
                    ctx.hist("corpus", f + " (skipped: source without the repair)")
    tot_v = tot_c = 0
    for lib in libs:
        cases = gen_cases(ctx, lib, 42 if quick else 240, allowed_comment_classes(cfg))
        v, c = evaluate(ctx, b, lib, cases, model_exe)
        tot_v += v
        tot_c += c
        ctx.cov["correspondence"][lib.schema.name] = {"files": len(cases), "oracle_failures": v, "model_disagreements": c,
                                                      "entities": len(lib.schema.entities)}
    ctx.sample({"schema": libs[0].express[:600], "file": gen_cases(ctx, libs[0], 5, ["top"])[4].text[:900]})
    ctx.cov["rule"] = ("generated schemas (all attribute shapes of vlib/p21_gen.py incl. selects, all aggregate element kinds, "
                       "ONEOF chain, ANDOR family instantiated as complex instances) x conforming closed populations, rendered "
                       "canonically / with random white space / with other literal spellings of the grammar / with comments in "
                       "the gap classes top, aftval, agg, sel, cx; distinct = distinct (schema, file text)")


def replay_obj(ctx, b, r, model_exe, corpus=False):
    """re-run one saved input: schema text + file text"""
    import hashlib
    tag = hashlib.sha1(r["schema"].encode()).hexdigest()[:8]
    wd = os.path.join(ctx.work, "replay-" + tag)
    os.makedirs(wd, exist_ok=True)
    exp = os.path.join(wd, "schema.exp")
    open(exp, "w").write(r["schema"])
    exe = os.path.join(wd, "h_p21")
    if not os.path.exists(exe):
        B.gen_schema_lib(b, exp, wd, [R.H_P21], exe)
    p = os.path.join(wd, "in.p21")
    open(p, "w", encoding="latin-1").write(r["file"])
    _, ents = R.parse_written(r["file"])
    if isinstance(ents, str):
        ctx.broken.append(("replay", "the replay file is not parsable by the oracle's reader: " + ents))
        return
    lib = R.Lib(None, exe, r["schema"])
    rr = R.run_real(b, lib, [(p, len(ents) + 2)], wd)[0]
    msg = oracle(ents, rr)
    ctx.count(1, key=("replay", r["file"]))
    if msg:
        ctx.violation(r.get("key", "replay"), msg, r)
    return msg


def replay(ctx, path):
    d = json.load(open(path))
    r = d.get("replay", d)
    r.setdefault("key", d.get("key", "replay"))
    lean_side(ctx)
    b = ctx.build("plain")
    replay_obj(ctx, b, r, ctx.model_exe("m_c01"))

"""C10 — the lazy loader sees the same file as the eager reader.

proof:           lean/StepModel/Props/C10.lean over the model lean/StepModel/Lazy.lean
regenerated tie: tools/extract.d/lazy.py -> Generated/LazyGen.lean (keyword delimiters, seekInstanceEnd case labels,
                 instanceID width, *where the instance enters the loaded-cache*)
correspondence:  harness/h_lazy.cc (real lazyInstMgr + real STEPfile, linked with an exp2cxx-generated schema library)
                 vs lean exe m_c10 on the same generated files: index, fwd/rev tables, dependency sets, the outcome of
                 every loadInstance call and the number of loaded instances after it
oracle:          the statement itself on the implementation's answers, with ground truth from the generated
                 population (ids, keywords, mentions) and from the eager reader (serialisation)
"""
import concurrent.futures as cf
import hashlib, json, os, re, subprocess, threading, time
from vlib import build as B
from vlib import lazy_gen as G

HERE = os.path.dirname(os.path.abspath(__file__))
VERIF = os.path.dirname(HERE)
HARNESS = os.path.join(VERIF, "harness", "h_lazy.cc")
PID = "C10"


# ---------------------------------------------------------------- running the two sides
class Budget:
    """Bounded run time on a broken tree too.  Per-process time-out calibrated on the runs that succeeded
    (20 x median, at least 10 s; 20 s until calibrated: generous, a loaded machine must not turn into a false alarm); generation stops after `max_fatal` files on which the
    process hung or died on a signal, or when `wall_s` is used up; shrinking has its own deadline."""

    def __init__(self, wall_s=90.0, max_fatal=3, shrink_s=30.0):
        self.t0 = time.time()
        self.wall_s, self.max_fatal, self.shrink_s = wall_s, max_fatal, shrink_s
        self.timeout = 20.0
        self.durations = []
        self.fatal = []          # tags of files with a hang / signal
        self.skipped = 0
        self.lock = threading.Lock()

    def note(self, dt):
        with self.lock:
            self.durations.append(dt)

    def calibrate(self):
        with self.lock:
            if len(self.durations) >= 10:
                d = sorted(self.durations)
                self.timeout = max(10.0, 20 * d[len(d) // 2])
        return self.timeout

    def fatal_seen(self, tag):
        with self.lock:
            if tag not in self.fatal:
                self.fatal.append(tag)

    def exhausted(self):
        return len(self.fatal) >= self.max_fatal or time.time() - self.t0 > self.wall_s


BUDGET = Budget()


class _Retry:
    on = True


RETRY = _Retry()


def is_fatal(rc):
    """hang (time-out), signal, abort, sanitizer exit"""
    return rc == -999 or rc < 0 or rc in (98, 99, 134, 139)


def run_h(exe, env, path, maxid, mode, ids=(), timeout=None):
    cmd = [exe, path, str(maxid), mode] + [str(i) for i in ids]
    to = timeout or BUDGET.timeout
    for attempt in ((0, 1) if RETRY.on else (1,)):
        t = time.time()
        try:
            r = subprocess.run(cmd, capture_output=True, env=env, timeout=to)
            if r.returncode == 0:
                BUDGET.note(time.time() - t)
            return r.returncode, r.stdout.decode("latin-1").split("\n"), r.stderr.decode("latin-1")
        except subprocess.TimeoutExpired as e:
            out = (e.stdout or b"").decode("latin-1").split("\n")
            if attempt == 0:
                to = 3 * to          # a loaded machine is not a hang: one retry with a longer time-out
                continue
            return -999, out, f"timeout: no answer within {to:.0f} s (calibrated time-out {BUDGET.timeout:.1f} s, retried once)"


def parse_index(lines):
    d = {"count": None, "kw": {}, "fwd": {}, "rev": {}, "dep": {}, "section": None, "raw": None}
    for l in lines:
        w = l.split()
        if not w:
            continue
        if w[0] == "COUNT":
            d["count"] = int(w[1])
        elif w[0] == "SECTION":
            d["section"] = w[1]
        elif w[0] == "KW":
            d["kw"][w[1]] = sorted(int(x) for x in w[2:])
        elif w[0] in ("FWD", "REV"):
            d[w[0].lower()][int(w[1])] = [int(x) for x in w[2:]]
        elif w[0] == "DEP":
            d["dep"][int(w[1])] = sorted(int(x) for x in w[2:]) if all(x.isdigit() for x in w[2:]) else w[2:]
        elif w[0] == "SCAN":
            d["raw"] = l
    return d


def parse_eager(lines):
    out = {}
    for l in lines:
        if l.startswith("EAGER "):
            _, i, kw, txt = l.split(" ", 3)
            out[int(i)] = (kw, txt)
    return out


def parse_load(lines):
    """[(id, text|None, loaded_count)], cached {id: text}, inverse lines, ended"""
    calls, cached, inv, ended, cur = [], {}, [], False, None
    for l in lines:
        if l.startswith("LOAD "):
            _, i, txt = l.split(" ", 2)
            cur = [int(i), None if txt == "NULL" else txt, None]
            calls.append(cur)
        elif l.startswith("LOADED ") and cur is not None:
            cur[2] = int(l.split()[1])
        elif l.startswith("CACHED "):
            _, i, txt = l.split(" ", 2)
            if txt != "NULL":     # isLoaded(id) can answer true for an id that was never loaded (judyLArray::find leaves
                cached[int(i)] = txt   # _success set for an empty slot, e.g. id 0 or 256); loadInstance(id) is the authority
        elif l.startswith("INV "):
            inv.append(l)
        elif l == "END":
            ended = True
    return calls, cached, inv, ended


class Model:
    """one long-lived m_c10 process per worker thread would be faster; the files are small, one process per batch is enough"""

    def __init__(self, exe):
        self.exe = exe

    def ask(self, reqs):
        r = subprocess.run([self.exe], input="\n".join(reqs) + "\n", capture_output=True, text=True, timeout=600)
        out = r.stdout.split("\n")
        if out and out[-1] == "":
            out.pop()
        if r.returncode != 0 or len(out) != len(reqs):
            raise RuntimeError(f"model driver rc={r.returncode} replies={len(out)}/{len(reqs)} {r.stderr[-300:]}")
        return out


# ---------------------------------------------------------------- the oracle: C10's statement on real answers
# layout classes in which the EAGER reader is (id-above-int-max) or was (comment-above-8192, before C01-9) the one that loses instances
EAGER_LOSES = ("id-above-int-max", "comment-above-8192")


def oracle_index(pop, idx, eager, eager_may_differ=False):
    """index lists exactly the ids/keywords the eager reader loads; fwd = mentions; rev = transpose; deps = closure.
    eager_may_differ: the file was rendered in a class that changes what is written (id-above-int-max): there the eager reader is
    the reference as it is, not the generated population"""
    ids = {x["id"]: G.keyword(x) for x in pop}
    eag = {i: kw for i, (kw, _) in eager.items()}
    if eag != ids and eager_may_differ:
        got = {i: kw for kw, l in idx["kw"].items() for i in l}
        if got != eag or idx["count"] != len(eag):
            miss = sorted(set(eag) - set(got)); extra = sorted(set(got) - set(eag))
            return "index", (f"lazy index (count {idx['count']}) differs from the eager reader's {len(eag)} instances: "
                             f"missing {miss[:5]} extra {extra[:5]}")
        return None, None
    if eag != ids:
        return None, f"(generator) eager reader loaded {sorted(eag.items())[:6]}.. but the file has {sorted(ids.items())[:6]}.."
    got = {}
    for kw, l in idx["kw"].items():
        for i in l:
            if i in got:
                return "index", f"instance #{i} is listed under two keywords {got[i]} and {kw}"
            got[i] = kw
    if got != eag or idx["count"] != len(eag):
        miss = sorted(set(eag) - set(got)); extra = sorted(set(got) - set(eag))
        wrong = sorted(i for i in got if i in eag and got[i] != eag[i])
        return "index", (f"lazy index (count {idx['count']}) differs from the eager reader's {len(eag)} instances: "
                         f"missing {miss[:5]} extra {extra[:5]} wrong keyword {[(i, got[i], eag[i]) for i in wrong[:3]]}")
    truth = {x["id"]: G.refs_in_order(x) for x in pop}
    for i in ids:
        if set(idx["fwd"].get(i, [])) != set(truth[i]):
            return "fwd", f"forward table of #{i} is {idx['fwd'].get(i, [])}, the instance mentions {truth[i]}"
    for i in idx["fwd"]:
        if i not in ids:
            return "fwd", f"forward table has an entry for #{i} which is not in the file"
    keys = set(idx["rev"]) | {r for l in truth.values() for r in l}
    for k in keys:
        want = {i for i, l in truth.items() if k in l}
        if set(idx["rev"].get(k, [])) != want:
            return "rev", f"reverse table of #{k} is {idx['rev'].get(k, [])}, transpose of the forward table is {sorted(want)}"
    for i in ids:
        want = sorted(G.closure(truth, i))
        if idx["dep"].get(i, []) != want:
            return "deps", f"instanceDependencies(#{i}) = {idx['dep'].get(i, [])}, transitive closure is {want}"
    return None, None


def oracle_load(pop, eager, order, rc, calls, ended, stderr):
    ids = {x["id"] for x in pop}
    for k, i in enumerate(order):
        if k >= len(calls):
            return "load", (f"loadInstance(#{i}) (call {k + 1} of {order}) did not return: process ended rc={rc} "
                            f"{stderr.strip().splitlines()[-1][:200] if stderr.strip() else ''}")
        _, txt, _ = calls[k]
        if i not in ids:
            if txt is not None:
                return "load", f"loadInstance(#{i}) returned an object although the file has no such instance"
            continue
        if txt is None:
            return "load", f"loadInstance(#{i}) returned null; the eager reader has {eager[i][1]!r}"
        if txt != eager[i][1]:
            return "load", f"loadInstance(#{i}) (call {k + 1} of {order}) serialises as {txt!r}, eagerly read: {eager[i][1]!r}"
    if not ended:
        return "load", f"process ended rc={rc} after the last loadInstance: {stderr.strip()[-200:]}"
    return None, None


# ---------------------------------------------------------------- one file
def data_hex(text, off):
    return text[off:].encode("latin-1").hex()


def check_file(exe, env, model, workdir, tag, text, off, pop, orders, extra_probe=3, first_only=False, budget=True, cls=None, schema=None):
    """returns problems [(kind, where, detail)]; where starts with `fatal:` when the process hung or died on a signal.
    first_only: stop at the first property problem (used while shrinking)."""
    if budget and BUDGET.exhausted():
        BUDGET.skipped += 1
        return [("skipped", "budget", "not run: the run's budget was used up (see evidence)")]
    path = os.path.join(workdir, f"{tag}-{threading.get_ident() % 100000}.p21")
    with open(path, "wb") as fh:
        fh.write(text.encode("latin-1"))
    maxid = max([x["id"] for x in pop] + [0]) + extra_probe
    problems = []
    rc_e, out_e, err_e = run_h(exe, env, path, maxid, "eager")
    eager = parse_eager(out_e)
    rc_i, out_i, err_i = run_h(exe, env, path, maxid, "index")
    hx = data_hex(text, off)
    # the dictionary side of loadInstance's inverse step, as data for the model: per keyword the keywords of its candidate referrers
    invk = G.inv_keywords(schema) if schema else {}
    invs = ";".join(f"{k.upper()}:" + ",".join(v.upper() for v in vs) for k, vs in sorted(invk.items())) or "-"
    reqs = [f"scan {hx}"] + [f"load {invs} {hx} " + " ".join(str(i) for i in o) for o in orders]
    rep = model.ask(reqs)
    midx = parse_index(rep[0].split("|"))
    if rc_i != 0:
        if is_fatal(rc_i) and budget:
            BUDGET.fatal_seen(tag)
        problems.append(("property", "fatal:index" if is_fatal(rc_i) else "index",
                         f"opening the file with lazyInstMgr ended rc={rc_i}: {err_i.strip()[-300:]}"))
        return problems
    idx = parse_index(out_i)
    kind, det = oracle_index(pop, idx, eager, eager_may_differ=(cls in EAGER_LOSES))
    if det and kind is None:
        problems.append(("generator", "eager", det + " FILE: " + text[off:off + 6000]))
        return problems
    if det:
        problems.append(("property", kind, det))
        if first_only:
            return problems
    if cls in EAGER_LOSES and set(eager) != {x["id"] for x in pop}:
        return problems       # the eager reader is not the population here: nothing further to compare against
    # model vs implementation: index
    for fld in ("count", "kw", "fwd", "rev", "dep"):
        a, m = idx[fld], midx[fld]
        if fld in ("fwd", "rev", "dep"):
            m = {k: v for k, v in m.items() if k <= maxid}
        if a != m:
            problems.append(("correspondence", "index." + fld, f"impl {str(a)[:200]} vs model {str(m)[:200]} ({midx['raw']})"))
            break
    if midx["section"] != "ok" and not problems:
        problems.append(("correspondence", "index.section", "model rejects the end of the data section, the loader accepted it"))
    for o, mr in zip(orders, rep[1:]):
        rc, out, err = run_h(exe, env, path, maxid, "load", o)
        calls, cached, inv, ended = parse_load(out)
        kind, det = oracle_load(pop, eager, o, rc, calls, ended, err)
        if det:
            fatal = is_fatal(rc) or not ended
            problems.append(("property", ("fatal:" if fatal else "") + kind, det))
            if fatal:
                if budget:
                    BUDGET.fatal_seen(tag)
                break          # the other histories of this file would wait for the same time-out
            if first_only:
                break
            continue
        # cached instances must serialise like the eager ones too (they were loaded as dependencies)
        for i, txt in cached.items():
            if i in eager and txt != eager[i][1]:
                problems.append(("property", "load", f"instance #{i}, loaded as a dependency in history {o}, serialises as {txt!r}, eagerly read: {eager[i][1]!r}"))
                break
        mcalls = [l.split() for l in mr.split("|") if l.startswith("LOAD ")]
        for k, (c, mc) in enumerate(zip(calls, mcalls)):
            if len(mc) != 4:
                problems.append(("correspondence", "load", f"history {o}: model answers {' '.join(mc)} where the loader returned"))
                break
            if (c[1] is not None) != (mc[2] == "1") or c[2] != int(mc[3]):
                problems.append(("correspondence", "load", f"history {o} call {k + 1}: impl (non-null={c[1] is not None}, loaded={c[2]}) vs model {' '.join(mc)}"))
                break
        # the loaded set, independently of the model: requested ∪ forward closure ∪ candidate referrers (closed under both)
        if schema is not None and ended:
            want = sorted(G.expected_loaded(schema, pop, o))
            if sorted(cached) != want:
                problems.append(("correspondence", "load.closure", f"history {o}: loaded set {sorted(cached)}, closure of the requested instances "
                                 f"under forward references and candidate referrers is {want}"))
        mcache = [l for l in mr.split("|") if l.startswith("CACHE")]
        if mcache:
            mids = sorted(int(t.split(":")[0]) for t in mcache[0].split()[1:])
            if mids != sorted(cached):
                problems.append(("correspondence", "load.cache", f"history {o}: loaded set impl {sorted(cached)} vs model {mids}"))
    return problems


# ---------------------------------------------------------------- shrinking and reporting
def key_of(s, pop, text, off):
    body = re.sub(r"\s+", "", text[off:text.rfind("ENDSEC;")])
    ren = {}
    for m in re.finditer(r"#(\d+)", body):       # ids renamed in order of first appearance
        ren.setdefault(m.group(1), str(len(ren) + 1))
    body = re.sub(r"#(\d+)", lambda m: "#" + ren[m.group(1)], body)
    if len(body) > 120:
        body = body[:60] + ".." + hashlib.sha1(body.encode("latin-1")).hexdigest()[:10]
    return "data:" + body


def canonical(rng_seed, s, pop):
    """plain layout, no comments"""
    import random
    return G.render_file(random.Random(rng_seed), s, pop, lay=False, cmt=False)


def drop_instance(pop, victim):
    out = []
    for x in pop:
        if x["id"] == victim:
            continue
        parts = []
        for (p, vs) in x["parts"]:
            nv = []
            for v in vs:
                if v[0] == "ref" and v[1] == victim:
                    v = ("null",)
                elif v[0] == "agg":
                    v = ("agg", [r for r in v[1] if r != victim])
                nv.append(v)
            parts.append((p, nv))
        out.append(dict(x, parts=parts))
    return out


def required_ok(s, pop):
    for x in pop:
        complex_ = len(x["parts"]) > 1
        for (p, vs) in x["parts"]:
            kinds = [k for (_, k, _) in G.ent(s, p)["attrs"]] if complex_ else [k for (_, _, k, _) in G.all_attrs(s, p)]
            for k, v in zip(kinds, vs):
                if k == "ref" and v[0] != "ref":
                    return False
    return True


def shrink(fails, s, pop, text, off, orders, deadline=None):
    """fails(text, off, pop, orders) -> bool.  One history first, then the canonical layout, then drop instances in
    chunks (halves, quarters, ... single instances), then shorten the history.  Stops at `deadline`."""
    late = lambda: deadline is not None and time.time() > deadline
    for o in orders:
        if late():
            break
        if fails(text, off, pop, [o]):
            orders = [o]
            break
    t2, o2 = canonical(0, s, pop)
    canon = (not late()) and fails(t2, o2, pop, orders)
    if canon:
        text, off = t2, o2
    chunk = max(1, len(pop) // 2)
    while canon and len(pop) > 1 and not late():
        progress = False
        k = 0
        while k < len(pop) and len(pop) > 1 and not late():
            victims = [x["id"] for x in pop[k:k + chunk]]
            cand = pop
            for v in victims:
                cand = drop_instance(cand, v)
            if not cand or not required_ok(s, cand):
                k += chunk
                continue
            ords = [[i for i in o if i not in victims] for o in orders]
            ords = [o for o in ords if o] or [[cand[0]["id"]]]
            t3, o3 = canonical(0, s, cand)
            if fails(t3, o3, cand, ords):
                pop, text, off, orders, progress = cand, t3, o3, ords, True
            else:
                k += chunk
        if chunk == 1 and not progress:
            break
        chunk = max(1, chunk // 2)
    if len(orders) == 1:
        o = orders[0]
        k = 0
        while k < len(o) and len(o) > 1 and not late():
            c = o[:k] + o[k + 1:]
            if fails(text, off, pop, [c]):
                o = c
            else:
                k += 1
        orders = [o]
    return pop, text, off, orders


def report(ctx, exe, env, model, s, pop, text, off, orders, problems, schema_text):
    props = [p for p in problems if p[0] == "property"]
    if props:
        def fails(t, o, pp, oo):
            pr = check_file(exe, env, model, ctx.work, "shrink", t, o, pp, oo, first_only=True, budget=False, schema=s)
            return any(k == "property" for k, _, _ in pr)
        pop2, text2, off2, ord2 = shrink(fails, s, pop, text, off, orders, deadline=time.time() + BUDGET.shrink_s)
        pr = [p for p in check_file(exe, env, model, ctx.work, "shrink", text2, off2, pop2, ord2, first_only=True, budget=False, schema=s) if p[0] == "property"]
        det = pr[0][2] if pr else props[0][2]
        ctx.violation(key_of(s, pop2, text2, off2), det,
                      {"schema": schema_text, "file": text2, "load_orders": ord2,
                       "how": "exp2cxx the schema, link harness/h_lazy.cc with it, run `h_lazy FILE MAXID index|eager|load ids..`"})
        return True
    return False


# ---------------------------------------------------------------- driver
def build_schema(b, s, root):
    d = os.path.join(root, s["name"])
    os.makedirs(d, exist_ok=True)
    exp = os.path.join(d, s["name"] + ".exp")
    with open(exp, "w") as fh:
        fh.write(G.express(s))
    exe = os.path.join(d, "h_lazy")
    B.gen_schema_lib(b, exp, os.path.join(d, "gen"), [HARNESS], exe)
    return exe


def orders_for(rng, pop, n):
    ids = [x["id"] for x in pop]
    out = []
    if not ids:
        return [[1]]
    for k in range(n):
        o = list(ids)
        rng.shuffle(o)
        if k % 3 == 1:
            o = o[:max(1, len(o) // 2)]
        o += [rng.choice(ids) for _ in range(rng.randint(0, 3))]          # repeats
        if k % 2 == 0:
            o.insert(rng.randrange(len(o) + 1), max(ids) + 1)               # an id the file does not have
        out.append(o)
    return out


def load_corpus():
    d = os.path.join(VERIF, "corpus", PID)
    out = []
    if os.path.isdir(d):
        for f in sorted(os.listdir(d)):
            if f.endswith(".json"):
                out.append((f, json.load(open(os.path.join(d, f)))))
    return out


def run(ctx):
    ctx.trusted += [
        "tools/extract.d/lazy.py (regex extraction of delimiters, case labels, id width, cache insertion point)",
        "hand-written model lean/StepModel/Lazy.lean of sectionReader.cc, lazyP21DataSectionReader.cc, lazyInstMgr.cc (modelled, tied by correspondence)",
        "STEPread/STEPwrite of a single instance and the header section reader are not modelled: observed only (lazy vs eager text)",
        "harness/h_lazy.cc, vlib/lazy_gen.py (what they do not generate is not compared)",
        "the dictionary side of loadInstance's inverse step (which keywords are candidate referrers of which) enters the model as data "
        "computed by vlib/lazy_gen.inv_keywords from the generated schema; the loaded set is also compared with an independent closure",
    ]
    ctx.assumptions += [
        "conforming files inside the layout class of notes/C10.md (white space and comments where both readers are specified for them)",
        "instance ids below 2^31 (the eager reader stores ids in int)",
        "one data section, one file per lazyInstMgr",
    ]
    # Props/C10 imports the eager reader's model (Props/C01): its regenerated tables are refreshed too; an extractor of theirs that no
    # longer matches is their broken tie - recorded here, the last generated version is used
    from vlib import lean as L0
    _, ferrs = L0.regenerate(["p21rw", "attrnull", "stepfile", "enums"], repo=B.REPO)
    if ferrs:
        ctx.cov["foreign_extractor_errors"] = ferrs
        ctx.assumptions.append("tables of the eager reader's model (owned by C01/C15) could not be refreshed: " + "; ".join(ferrs)[:300])
    proof_ok = ctx.lean("StepModel.Props.C10", exes=["m_c10"], extractors=["lazy"])
    if not proof_ok:
        from vlib import lean as L
        L.lake_build(["m_c10"])      # the model driver does not depend on the theorems; the violation search needs it
    quick = ctx.tier == "quick"
    # plain build in both tiers: under UBSan the bundled judy.c aborts on its own misaligned loads (judy.c:1279, a C05 matter,
    # see notes/C10.md) as soon as an index holds a few dozen keys, which says nothing about C10's statement
    b = ctx.build("plain")
    env = b.env()
    if not os.path.exists(ctx.model_exe("m_c10")):
        return
    model = Model(ctx.model_exe("m_c10"))
    nschemas, npops, norders, nmax = (4, 40, 5, 40) if quick else (24, 100, 12, 60)
    schemas = [G.schema_c10(ctx.rng, i) for i in range(nschemas)]
    t0 = time.time()
    with cf.ThreadPoolExecutor(max_workers=8) as ex:
        exes = list(ex.map(lambda s: build_schema(b, s, ctx.work), schemas))
    ctx.cov["correspondence"]["schema libraries"] = {"n": nschemas, "wall_s": round(time.time() - t0, 1)}

    jobs = []       # (schema#, tag, text, off, pop, orders)
    # corpus first (minimised past failures and the defect witnesses), against the first schema library
    for name, c in load_corpus():
        jobs.append((c.get("schema_index", 0), "corpus-" + name, c["file"], c["data_offset"], c["pop"], c["orders"], c.get("class")))
    # exhaustive small reference graphs over `nd` (every graph on <=3 nodes with out-degree <=1, incl. self loops and cycles)
    s0 = schemas[0]
    small = []
    for n in (1, 2, 3):
        import itertools
        for tgt in itertools.product(range(n + 1), repeat=n):
            pop = [{"id": i + 1, "parts": [("nd", [("str", "s"), ("ref", t) if t else ("null",)])]} for i, t in enumerate(tgt)]
            small.append(pop)
    for k, pop in enumerate(small):
        text, off = G.render_file(ctx.rng, s0, pop, lay=False, cmt=False)
        ids = [x["id"] for x in pop]
        import itertools
        ords = [list(p) for p in itertools.permutations(ids)][:6]
        jobs.append((0, f"small-{k}", text, off, pop, ords, None))
    # the Part 21 string grammar: every body item (control directives \\S\\ \\P.\\ \\X\\hh \\X2\\..\\X0\\ \\X4\\.., \\\\, '') alone, at the
    # start, at the end and next to every other item - in simple instances and in the parts of complex instances
    grid = G.string_grid()
    gs = [{"id": k + 1, "parts": [("nd", [("str", b), ("ref", k) if k else ("null",)])]} for k, b in enumerate(grid)]
    text, off = G.render_file(ctx.rng, s0, gs, lay=False, cmt=False)
    jobs.append((0, "grid-simple", text, off, gs, [[len(gs)], [1, len(gs) // 2, len(gs)]], None))
    gc = [{"id": 1, "parts": [("nd", [("str", "n"), ("null",)])]}]
    for k in range(0, len(grid) - 1, 2):
        gc.append({"id": k + 2, "parts": [("base", [("int", k)]), ("sa", [("ref", 1), ("str", grid[k])]), ("sb", [("str", grid[k + 1]), ("null",)])]})
    text, off = G.render_file(ctx.rng, s0, gc, lay=False, cmt=False)
    ids = [x["id"] for x in gc]
    jobs.append((0, "grid-complex", text, off, gc, [ids, list(reversed(ids))], None))
    # long reference chains and wide fan-in: the load-order theorem has no depth bound, so the tie has none either
    for L in ([200] if quick else [100, 129, 200, 400]):
        ch = [{"id": i, "parts": [("nd", [("str", f"n{i}"), ("ref", i + 1) if i < L else ("null",)])]} for i in range(1, L + 1)]
        text, off = G.render_file(ctx.rng, s0, ch, lay=False, cmt=False)
        jobs.append((0, f"chain-{L}", text, off, ch, [[1], list(range(L, 0, -1)), [L // 2, 1], [L // 2 + 1, 2, 1]], None))
    W = 150 if quick else 400
    fan = [{"id": 1, "parts": [("nd", [("str", "hub"), ("null",)])]}]
    fan += [{"id": i, "parts": [("nd", [("str", "s"), ("ref", 1)])]} for i in range(2, W + 2)]
    fan.append({"id": W + 2, "parts": [("grp", [("str", "all"), ("agg", list(range(2, W + 2))), ("int", W)])]})
    text, off = G.render_file(ctx.rng, s0, fan, lay=False, cmt=False)
    jobs.append((0, f"fan-in-{W}", text, off, fan, [[W + 2], [1, W + 2], [W + 1, W + 2, 1]], None))
    # size boundaries of every token class of the scanner (fixed buffers are the realistic regression): string literal, comment,
    # white-space run and zero-padded instance id of lengths around 100, 128, 256, 512, 4096 and 65536
    Ls = [99, 100, 101, 127, 128, 129, 255, 256, 257, 511, 512, 513, 4095, 4096, 4097, 65536] if quick else \
         [99, 100, 101, 127, 128, 129, 255, 256, 257, 511, 512, 513, 1023, 1024, 1025, 4095, 4096, 4097, 8191, 8192, 8193, 65535, 65536, 65537]
    bpop, lines, k = [], [], 0
    for L in Ls:
        for what in ("str", "cmt", "ws"):
            k += 1
            prev = ("ref", k - 1) if k > 1 else ("null",)
            body = ("s" * L) if what == "str" else what
            bpop.append({"id": k, "parts": [("nd", [("str", body), prev])]})
            ref = f"#{k - 1}" if k > 1 else "$"
            if what == "str":
                lines.append(f"#{k}=ND('{body}',{ref});")
            elif what == "cmt":
                lines.append("/*" + "c" * L + f"*/#{k}=ND('cmt',{ref});")
            else:
                lines.append(f"#{k}=" + " " * L + f"ND('ws'," + "\n" * L + f"{ref})" + "\t" * L + ";")
    for nd_ in (1, 9, 10, 19, 20):           # zero-padded instance names (the lazy scanner's digit buffer holds 20)
        k += 1
        bpop.append({"id": k, "parts": [("nd", [("str", "id"), ("ref", k - 1)])]})
        lines.append("#" + str(k).rjust(nd_, "0") + f"=ND('id',#{str(k - 1).rjust(nd_, '0')});" if nd_ >= len(str(k)) else f"#{k}=ND('id',#{k - 1});")
    head = G.HEADER % s0["name"]
    btext = head + "\n" + "\n".join(lines) + "\n" + G.FOOTER
    jobs.append((0, "boundaries", btext, len(head), bpop, [[k], [1, k // 2, k]], None))
    nfixed = len(jobs)
    # the class `several-comments` (comments at several positions of one instance at once) is generated once the lazy loader sets an
    # instance's comments the way the eager reader does (fixes/C10-8; recognised by the shape of getRealInstance)
    try:
        gri = open(os.path.join(B.REPO, "src/cllazyfile/sectionReader.cc"), encoding="latin-1").read()
        c108 = "comment.clear();" not in gri and "header && !comment.empty()" in gri
    except OSError:
        c108 = False
    classes = G.RISKY + (["several-comments"] * 3 if c108 else [])
    ctx.cov["correspondence"]["several-comments class generated"] = c108
    for si, s in enumerate(schemas):
        for pi in range(npops):
            n = ctx.rng.randint(0, nmax) if pi % 5 else ctx.rng.randint(0, 4)
            pop = G.population(ctx.rng, s, n, cyc=ctx.rng.choice([0, 0.3, 0.6]))
            # with low probability one of the conforming shapes on which the two readers are known to have differed
            cls = ctx.rng.choice(classes) if (pop and ctx.rng.random() < 0.08) else None
            text, off = G.render_file(ctx.rng, s, pop, lay=(pi % 4 != 0), cmt=(pi % 3 != 0 and cls is None), risky=cls)
            jobs.append((si, f"s{si}p{pi}", text, off, pop, orders_for(ctx.rng, pop, norders), cls))

    def work(j):
        si, tag, text, off, pop, orders, cls = j
        try:
            return j, check_file(exes[si], env, model, ctx.work, tag, text, off, pop, orders, cls=cls, schema=schemas[si])
        except Exception as e:   # machinery
            return j, [("machinery", "check_file", f"{type(e).__name__}: {e}")]
    global BUDGET
    BUDGET = Budget(wall_s=90.0 if quick else 720.0, max_fatal=3, shrink_s=30.0 if quick else 60.0)
    RETRY.on = True
    t0 = time.time()
    results = []
    nfirst = nfixed      # corpus, the small graphs, the grids first: they also calibrate the time-out
    with cf.ThreadPoolExecutor(max_workers=14) as ex:
        for j, pr in ex.map(work, jobs[:nfirst]):
            results.append((j, pr))
    BUDGET.calibrate()
    with cf.ThreadPoolExecutor(max_workers=14) as ex:
        for j, pr in ex.map(work, jobs[nfirst:]):
            results.append((j, pr))
    ctx.cov["correspondence"]["budget"] = {"per-process time-out s": round(BUDGET.timeout, 2), "files with hang/signal": len(BUDGET.fatal),
                                           "files not run (budget used up)": BUDGET.skipped, "wall budget s": BUDGET.wall_s}
    results = [(j, pr) for j, pr in results if not (pr and pr[0][0] == "skipped")]
    nprob = 0
    reported = False
    for (si, tag, text, off, pop, orders, cls), pr in results:
        if cls:
            ctx.hist("layout class probes", cls)
        ctx.count(1 + len(orders), key=hashlib.sha1(text.encode("latin-1")).hexdigest())
        ctx.hist("instances per file", min(len(pop) // 10 * 10, 60))
        for o in orders:
            ctx.hist("loaded set of a history", G.loaded_class(schemas[si], pop, o))
        ctx.hist("populations", "cyclic" if any(x["id"] in G.closure({y["id"]: G.refs_in_order(y) for y in pop}, x["id"]) for x in pop) else "acyclic")
        for x in pop:
            ctx.hist("instance kinds", "complex" if len(x["parts"]) > 1 else "simple")
        if "/*" in text[off:]:
            ctx.hist("layout", "with comments")
        if pr:
            nprob += 1
    ctx.cov["correspondence"]["files"] = {"n": len(jobs), "with_problems": nprob, "wall_s": round(time.time() - t0, 1)}
    # violation search first: property failures on the implementation
    classified = set()
    fatal_reported = False
    # files whose failure is not a hang/signal first: their replays say more than "did not return"
    results.sort(key=lambda r: any(p[0] == "property" and p[1].startswith("fatal:") for p in r[1]))
    for (si, tag, text, off, pop, orders, cls), pr in results:
        props = [p for p in pr if p[0] == "property"]
        if not props:
            continue
        if cls:
            # is the layout class the cause?  the same population in the canonical layout must be clean
            t2, o2 = canonical(0, schemas[si], pop)
            clean = not [p for p in check_file(exes[si], env, model, ctx.work, "cls", t2, o2, pop, orders, first_only=True, budget=False, schema=schemas[si]) if p[0] == "property"]
            if clean:
                classified.add(tag)
                ctx.violation("layout:" + cls, f"[{cls}] " + props[0][2],
                              {"schema": G.express(schemas[si]), "file": text, "load_orders": orders[:1], "class": cls})
                continue
        fatal = any(p[1].startswith("fatal:") for p in props)
        if fatal and fatal_reported:
            continue              # one hang/signal is shrunk and reported; the others would only cost time-outs
        if len([v for v in ctx.violations if not v[0].startswith("layout:")]) < 3:
            if fatal:
                fatal_reported = True
                RETRY.on = False  # while shrinking a hang every evaluation that still hangs costs one time-out, not five
            try:
                report(ctx, exes[si], env, model, schemas[si], pop, text, off, orders, pr, G.express(schemas[si]))
            finally:
                RETRY.on = True
            reported = True
    if not ctx.violations:
        for (si, tag, text, off, pop, orders, cls), pr in results:
            if tag in classified:
                continue
            for kind, where, det in pr:
                if kind in ("correspondence", "machinery", "generator"):
                    ctx.broken.append((f"{kind} {where} ({tag})", det + " (the oracle finds the property intact on this input)"))
                    break
            if ctx.broken:
                break
    if not proof_ok and not ctx.violations and not [b_ for b_ in ctx.broken if b_[0].startswith("lake")]:
        pass
    if jobs:
        j = jobs[-1]
        ctx.sample({"schema": schemas[j[0]]["name"], "data": j[2][j[3]:j[3] + 400], "load_orders": j[5][:2]})
    ctx.cov["rule"] = ("per generated schema library: random populations (0..nmax instances, random ids, forward references, "
                       "cycles, complex instances, strings over an alphabet with # ( ) ; '' /* */ = , comments over # ( ) ; =) "
                       "rendered in random layouts, each loaded under random histories (permutations, prefixes, repeats, missing ids); "
                       "plus every reference graph on <=3 nodes of out-degree <=1 under every load order; plus corpus/C10")


def replay(ctx, path):
    d = json.load(open(path))
    r = d.get("replay", d)
    ctx.lean("StepModel.Props.C10", exes=["m_c10"], extractors=["lazy"])
    b = ctx.build("plain")
    sdir = os.path.join(ctx.work, "replay")
    os.makedirs(sdir, exist_ok=True)
    exp = os.path.join(sdir, "s.exp")
    open(exp, "w").write(r["schema"])
    exe = os.path.join(sdir, "h_lazy")
    B.gen_schema_lib(b, exp, os.path.join(sdir, "gen"), [HARNESS], exe)
    text = r["file"]
    off = text.index("DATA;") + 5
    ppath = os.path.join(sdir, "f.p21")
    open(ppath, "wb").write(text.encode("latin-1"))
    ids = [int(x) for x in re.findall(r"#(\d+)\s*=", text[off:])]
    maxid = max(ids + [0]) + 3
    rc, out, err = run_h(exe, b.env(), ppath, maxid, "eager")
    eager = parse_eager(out)
    rc, out, err = run_h(exe, b.env(), ppath, maxid, "index")
    idx = parse_index(out)
    got = {i: kw for kw, l in idx["kw"].items() for i in l}
    if rc != 0 or got != {i: kw for i, (kw, _) in eager.items()}:
        ctx.violation(d.get("key", "replay"), f"lazy index {got} (rc={rc}) vs eager {sorted(eager)}", r)
        return
    for o in r.get("load_orders", []):
        rc, out, err = run_h(exe, b.env(), ppath, maxid, "load", o)
        calls, cached, inv, ended = parse_load(out)
        pop = [{"id": i, "parts": []} for i in eager]
        kind, det = oracle_load(pop, eager, o, rc, calls, ended, err)
        if det:
            ctx.violation(d.get("key", "replay"), det, r)
            return

"""Helpers shared by the generator checks (C17, C12): building schema_scanner and the libexpress dump harness
against the scratch build, feeding a declaration-level AST to the Lean drivers, parsing the scanner's CMakeLists.txt."""
import os, re, subprocess, fcntl

VERIF = os.path.dirname(os.path.dirname(os.path.abspath(__file__)))


def _locked_build(b, name, build_fn):
    out = os.path.join(b.root, name)
    if os.path.exists(out):
        return out
    with open(os.path.join(b.root, f".lock-{name}"), "w") as lk:
        fcntl.flock(lk, fcntl.LOCK_EX)
        if not os.path.exists(out):
            build_fn(out + ".tmp")
            os.replace(out + ".tmp", out)
    return out


def express_incs(b):
    s, bl = b.src, b.bld
    return [f"-I{s}/include", f"-I{bl}/include", f"-I{s}/src/exp2cxx", f"-I{s}/src/express", f"-I{s}/src/express/generated"]


def san_flags(b):
    return ["-fsanitize=address,undefined", "-fno-omit-frame-pointer"] if b.flavor == "asan" else []


def build_scanner(b):
    """schema_scanner is not built by the scratch cmake build (no schema configured): compile it the way
    cmake/schema_scanner/CMakeLists.txt does (same sources for the scanner-specific part, -DSCHEMA_SCANNER),
    linking the scratch libexpress instead of recompiling its sources."""
    def go(out):
        s = b.src
        objs = []
        for c in ["src/exp2cxx/genCxxFilenames.c", "src/exp2cxx/class_strings.c"]:
            o = os.path.join(b.root, os.path.basename(c) + ".scanner.o")
            r = subprocess.run(["gcc", "-c", "-g", "-w", "-DSCHEMA_SCANNER"] + san_flags(b) + express_incs(b) + [os.path.join(s, c), "-o", o],
                               capture_output=True, text=True)
            if r.returncode:
                raise RuntimeError("scanner compile failed: " + r.stderr[-2000:])
            objs.append(o)
        r = subprocess.run(["g++", "-g", "-w", "-DSCHEMA_SCANNER"] + san_flags(b) + express_incs(b) +
                           [os.path.join(s, "cmake/schema_scanner/schemaScanner.cc")] + objs +
                           ["-o", out, f"-L{b.lib}", "-lexpress", f"-Wl,-rpath,{b.lib}"], capture_output=True, text=True)
        if r.returncode:
            raise RuntimeError("scanner link failed: " + r.stderr[-2000:])
    return _locked_build(b, "schema_scanner", go)


def build_exprdump(b):
    def go(out):
        r = subprocess.run(["gcc", "-g", "-w"] + san_flags(b) + express_incs(b) + [os.path.join(VERIF, "harness", "h_exprdump.c"), "-o", out,
                            f"-L{b.lib}", "-lexpress", f"-Wl,-rpath,{b.lib}"], capture_output=True, text=True)
        if r.returncode:
            raise RuntimeError("h_exprdump compile failed: " + r.stderr[-2000:])
    return _locked_build(b, "h_exprdump-p2", go)       # name changes with the harness source


def type_enum(b):
    """enum type_enum constants by number, from the build's header"""
    src = open(os.path.join(b.src, "include/express/type.h")).read()
    src = re.sub(r"/\*.*?\*/", " ", src, flags=re.S)
    body = re.search(r"enum\s+type_enum\s*\{(.*?)\}", src, re.S).group(1)
    return [x.split("=")[0].strip() for x in body.split(",") if x.strip()]


def ast_from_dump(b, exp_path, env=None):
    """declaration-level AST of a (shipped) EXPRESS file obtained from the real parser: list of
    (schema_name, [decl lines for the Lean driver, textual order]); None if the file is rejected"""
    r = subprocess.run([build_exprdump(b), exp_path], capture_output=True, text=True, errors="replace", env=env or b.env())
    if r.returncode != 0:
        return None
    kinds = type_enum(b)
    schemas, cur = [], None
    for line in r.stdout.splitlines():
        w = line.split()
        if w[0] == "schema":
            cur = []
            schemas.append((w[1], cur))
        elif w[0] == "ent":
            cur.append((int(w[2]), f"ent {w[1]} 1"))
        elif w[0] == "type":
            cur.append((int(w[4]), f"type {w[1]} {kinds[int(w[2])]} {w[3]} 1"))
        else:
            cur.append((int(w[3]), f"other {w[1]}"))
    # textual order of the schemas: SCHEMA headers in the source
    txt = open(exp_path, encoding="latin-1").read()
    txt = re.sub(r"\(\*.*?\*\)", " ", txt, flags=re.S)
    order = [m.group(1).lower() for m in re.finditer(r"(?im)^\s*SCHEMA\s+([A-Za-z0-9_]+)\s*;", txt)]
    schemas.sort(key=lambda s: order.index(s[0]) if s[0] in order else len(order))
    if len(schemas) == 1:     # a single schema cannot depend on another one: exp2cxx's pass structure is modelled
        schemas = [(n, [(ln, re.sub(r" 1$", " 0", l) if not l.startswith("other") else l) for ln, l in ds]) for n, ds in schemas]
    return [(n, [l for _, l in sorted(ds, key=lambda p: p[0])]) for n, ds in schemas]


def pass_objects_from_dump(b, exp_path, env=None):
    """the same driver lines as pass_objects(), but read off the model the REAL parser + resolver built (h_exprdump -p):
    [(schema name, [pobj lines])] in textual order, or None if the file is rejected.  Works for any file, generated or not."""
    r = subprocess.run([build_exprdump(b), "-p", exp_path], capture_output=True, text=True, errors="replace", env=env or b.env())
    if r.returncode != 0:
        return None
    schemas = []          # (name, line, [obj]) ; obj = dict
    kind = {}             # q -> (isEnum, isSelect)
    subs = {}             # q entity -> [q direct subtypes]
    cur = obj = None
    for line in r.stdout.splitlines():
        w = line.split()
        if w[0] == "schema":
            cur = (w[1], int(w[2]), [])
            schemas.append(cur)
        elif w[0] != "P":
            continue
        elif w[1] == "type":
            obj = dict(cls="T", name=w[2], q=f"{cur[0]}.{w[2]}", line=int(w[3]), ise=int(w[4]), iss=int(w[5]), ren=w[6], items=[], eattrs=[], sups=[])
            kind[obj["q"]] = (obj["ise"], obj["iss"])
            cur[2].append(obj)
        elif w[1] == "entity":
            obj = dict(cls="E", name=w[2], q=f"{cur[0]}.{w[2]}", line=int(w[3]), ise=0, iss=0, ren="-", items=[], eattrs=[], sups=[])
            cur[2].append(obj)
        elif w[1] == "item" and w[2] == "T":
            if w[3] != "-" and (w[4] == "1" or w[5] == "1"):
                obj["items"].append(w[3]); kind.setdefault(w[3], (int(w[4]), int(w[5])))
        elif w[1] == "item" and w[2] == "E":
            pass
        elif w[1] == "eattr":
            if w[2] != "-" and (w[3] == "1" or w[4] == "1"):
                obj["eattrs"].append(w[2]); kind.setdefault(w[2], (int(w[3]), int(w[4])))
        elif w[1] == "attr":
            if w[2] != "-" and (w[3] == "1" or w[4] == "1"):
                obj["items"].append(w[2]); kind.setdefault(w[2], (int(w[3]), int(w[4])))
        elif w[1] == "super":
            obj["sups"].append(w[2])
        elif w[1] == "sub":
            subs.setdefault(obj["q"], []).append(w[2])
    def descendants(qn, seen):
        for c in subs.get(qn, []):
            if c not in seen:
                seen.append(c); descendants(c, seen)
        return seen
    txt = open(exp_path, encoding="latin-1").read()
    txt = re.sub(r"\(\*.*?\*\)", " ", txt, flags=re.S)
    order = [m.group(1).lower() for m in re.finditer(r"(?im)^\s*SCHEMA\s+([A-Za-z0-9_]+)\s*;", txt)]
    schemas.sort(key=lambda s: order.index(s[0]) if s[0] in order else len(order))
    out = []
    for sn, _, objs in schemas:
        lines, stubs = [], []
        def ref(qn):
            if qn.split(".")[0] != sn and qn not in stubs:
                stubs.append(qn)
            return qn
        for o in sorted(objs, key=lambda o: o["line"]):
            if o["cls"] == "T":
                ren = ref(o["ren"]) if (o["ren"] != "-" and (o["ise"] or o["iss"])) else "-"
                items = [ref(x) for x in o["items"]] if o["iss"] else []
                eattrs = [ref(x) for x in o["eattrs"]] if o["iss"] else []
                lines.append(f"pobj T {o['name']} {o['q']} {o['ise']} {o['iss']} {ren} {','.join(items) or '-'} {','.join(eattrs) or '-'} - -")
            else:
                items = [ref(x) for x in o["items"]]
                sup = [ref(x) for x in o["sups"]]
                des = descendants(o["q"], [])
                lines.append(f"pobj E {o['name']} {o['q']} 0 0 - {','.join(items) or '-'} - {','.join(des) or '-'} {','.join(sup) or '-'}")
        for qn in stubs:
            ise, iss = kind.get(qn, (0, 0))
            lines.append(f"pobj S {qn.split('.', 1)[1]} {qn} {ise} {iss} - - - - -")
        out.append((sn, lines))
    return out


def complex_lists_from_dump(b, exp_path, env=None):
    """driver lines `cl <name> <dependent>` for the Lean model of ComplexCollect (GenCollect.lean): one ComplexList per entity
    that has subtypes, dependent = it has supertypes itself; in the order of the parser's dictionaries (the model's result does
    not depend on that order: C12_compstructs_order_names_only).  None if the file is rejected."""
    r = subprocess.run([build_exprdump(b), "-p", exp_path], capture_output=True, text=True, errors="replace", env=env or b.env())
    if r.returncode != 0:
        return None
    ents, cur = [], None
    for line in r.stdout.splitlines():
        w = line.split()
        if w[:2] == ["P", "entity"]:
            cur = {"name": w[2], "subs": 0, "sups": 0}
            ents.append(cur)
        elif w[:2] == ["P", "type"]:
            cur = None
        elif cur is not None and w[:2] == ["P", "sub"]:
            cur["subs"] += 1
        elif cur is not None and w[:2] == ["P", "super"]:
            cur["sups"] += 1
    return [f"cl {e['name']} {int(e['sups'] > 0)}" for e in ents if e["subs"]]


def symbol_tables_from_dump(b, exp_path, env=None):
    """per schema (textual order) the symbol table in definition order (source line) as the driver command `pymodule` of m_c12
    wants it: o:<key> | t:<key>:<s|e|l|a>:<head|-> | e:<key>:<super,…|->   (heads/supertypes by plain name; None if rejected)"""
    r = subprocess.run([build_exprdump(b), "-p", exp_path], capture_output=True, text=True, errors="replace", env=env or b.env())
    if r.returncode != 0:
        return None
    kinds = type_enum(b)
    schemas, cur, last = [], None, None
    info = {}
    for line in r.stdout.splitlines():
        w = line.split()
        if w[0] == "schema":
            cur = {"name": w[1], "syms": []}
            schemas.append(cur)
        elif w[0] == "ent":
            cur["syms"].append((int(w[2]), "e", w[1]))
        elif w[0] == "type":
            k = kinds[int(w[2])]
            kk = "e" if k == "enumeration_" else "l" if k == "select_" else "a" if k in ("array_", "bag_", "set_", "list_", "aggregate_") else "s"
            cur["syms"].append((int(w[4]), "t", w[1], kk))
        elif w[0] == "other":
            cur["syms"].append((int(w[3]), w[2] if w[2] in ("f", "r") else "o", w[1]))
        elif w[0] == "P":
            if w[1] == "type":
                last = ("t", cur["name"], w[2]); info[last] = {"head": "-"}
            elif w[1] == "entity":
                last = ("e", cur["name"], w[2]); info[last] = {"sups": []}
            elif w[1] == "head" and last and last[0] == "t":
                info[last]["head"] = "-" if w[2] == "-" else (w[2].split(".", 1)[1] if w[2].split(".", 1)[0] == last[1] else "^" + w[2])
            elif w[1] == "super" and last and last[0] == "e":
                info[last]["sups"].append(w[2].split(".", 1)[1] if w[2] != "-" else "-")
    out = []
    for s in schemas:
        toks = []
        for sym in sorted(s["syms"], key=lambda x: x[0]):
            if sym[1] in ("o", "f", "r"):
                toks.append(f"{sym[1]}:{sym[2]}")
            elif sym[1] == "t":
                toks.append(f"t:{sym[2]}:{sym[3]}:{info.get(('t', s['name'], sym[2]), {}).get('head', '-')}")
            else:
                toks.append(f"e:{sym[2]}:{','.join(info.get(('e', s['name'], sym[2]), {}).get('sups', [])) or '-'}")
        out.append((s["name"], toks))
    return out


def ast_lines(path, schemas):
    """driver input for a file: schemas = [(name, [decl lines])]"""
    out = ["reset", "file " + path.encode().hex()]
    for n, ds in schemas:
        out.append("schema " + n)
        out += ds
    return out


def ast_from_gen(f):
    """[(schema name, decl lines)] of a vlib.schema_gen.SchemaFile (textual order)"""
    out = []
    for s in f.schemas:
        ds = []
        # foreign: the schema has an interface clause, so the declaration may (transitively) depend on an
        # enumeration/select/supertype of another schema — the only way multpass.c can defer it to a later pass
        fo = int(bool(s.references))
        for tag, key, d in s.symbol_keys():
            if tag == "entity":
                ds.append(f"ent {key} {fo}")
            elif tag == "type":
                ds.append(f"type {key} {d.kind} {int(d.has_head)} {fo}")
            else:
                ds.append(f"other {key}")
        out.append((s.name, ds))
    return out


def run_driver(exe, lines, timeout=600):
    r = subprocess.run([exe], input="\n".join(lines) + "\n", capture_output=True, text=True, timeout=timeout)
    out = r.stdout.split("\n")
    if out and out[-1] == "":
        out.pop()
    return r.returncode, out, r.stderr


def parse_cmakelists(text):
    """-> dict(schema, short, project, sets={name: [files]}, target_args=(exp, schema))"""
    d = {"sets": {}}
    m = re.search(r"^# schema name: (.*)$", text, re.M)
    d["schema"] = m.group(1) if m else None
    m = re.search(r"^# \(short name: (.*)\)$", text, re.M)
    d["short"] = m.group(1) if m else None
    m = re.search(r"^PROJECT\((.*)\)$", text, re.M)
    d["project"] = m.group(1) if m else None
    for m in re.finditer(r"set\(\s*(\w+)\b([^()]*)\)", text):
        name, body = m.group(1), m.group(2)
        if name.endswith(("_hdrs", "_impls")):
            d["sets"].setdefault(name, [])
            d["sets"][name] += [t for t in body.split() if not t.startswith("$")]
    m = re.search(r'SCHEMA_TARGETS\("([^"]*)" "([^"]*)"', text)
    d["target_args"] = (m.group(1), m.group(2)) if m else None
    return d


def listed_files(cm):
    out = []
    for k, v in cm["sets"].items():
        out += v
    return out


def tree_listing(root):
    out = []
    for dp, dn, fn in os.walk(root):
        for f in fn:
            out.append(os.path.relpath(os.path.join(dp, f), root))
    return sorted(out)


def pass_objects(f):
    """what exp2cxx's pass logic (multpass.c) looks at, for the Lean model `GenFiles.Pass.printFile`:
    [(schema name, [driver lines])] in textual order.  Names are qualified `schema.name`.
      pobj T|E|S <key> <qname> <isEnum> <isSelect> <renameOf|-> <items|-> <entAttrTypes|-> <descendants|-> <supers|->
    items: enumeration/select types reached as select item / attribute type, looking through ONE aggregate level (checkItem)."""
    from vlib import schema_gen as SG
    AGGK = set(SG.AGG.values())
    def q(d):
        return f"{d.schema.name}.{d.name}"
    def target(tx):
        """the type checkItem ends up looking at for a type expression"""
        if isinstance(tx, SG.TAgg):
            b = tx.base
            return b.decl if isinstance(b, SG.TRef) else None
        if isinstance(tx, SG.TRef):
            d = tx.decl
            if isinstance(d, SG.TypeDecl) and d.kind in AGGK:
                b = d.root.body.base
                return b.decl if isinstance(b, SG.TRef) else None
            return d
        return None
    def es(d):
        return isinstance(d, SG.TypeDecl) and d.kind in ("enumeration_", "select_")
    def localise(d, s):
        if d is not None and d.schema is not s:
            for x in s.decls:
                if isinstance(x, (SG.TypeDecl, SG.EntityDecl)) and x.name == d.name:
                    return x
        return d
    subs = {}
    for s in f.schemas:
        for e in s.entities():
            for sup in e.supers:
                subs.setdefault(id(sup), []).append(e)
    def descendants(e, seen=None):
        seen = seen if seen is not None else []
        for c in subs.get(id(e), []):
            if c not in seen:
                seen.append(c); descendants(c, seen)
        return seen
    out = []
    for s in f.schemas:
        lines, stubs = [], {}
        local = {x.name: x for x in s.decls if isinstance(x, (SG.TypeDecl, SG.EntityDecl))}
        def ref(d):
            # a name that is both taken from another schema and declared locally resolves to the local declaration
            if d.schema is not s and d.name in local:
                d = local[d.name]
            if d.schema is not s:
                stubs[q(d)] = d
            return q(d)
        for d in s.decls:
            if isinstance(d, SG.TypeDecl):
                k = d.kind
                ise, iss = int(k == "enumeration_"), int(k == "select_")
                ren = ref(d.root) if (d.has_head and (ise or iss)) else "-"
                items, eattrs = [], []
                if iss:
                    for it in d.root.items:
                        dd = it.decl
                        if isinstance(dd, SG.EntityDecl):
                            for a in dd.all_attrs():
                                t = localise(target(a.type), dd.schema)
                                if es(t):
                                    eattrs.append(ref(t))
                        else:
                            t = localise(target(it), s)
                            if es(t):
                                items.append(ref(t))
                lines.append(f"pobj T {d.name} {q(d)} {ise} {iss} {ren} {','.join(items) or '-'} {','.join(eattrs) or '-'} - -")
            elif isinstance(d, SG.EntityDecl):
                items = []
                for a in d.attrs:
                    t = localise(target(a.type), s)
                    if es(t):
                        items.append(ref(t))
                sup = [ref(x) for x in d.supers]
                des = [q(x) for x in descendants(d)]
                lines.append(f"pobj E {d.name} {q(d)} 0 0 - {','.join(items) or '-'} - {','.join(des) or '-'} {','.join(sup) or '-'}")
        for qn, d in stubs.items():
            ise = int(isinstance(d, SG.TypeDecl) and d.kind == "enumeration_")
            iss = int(isinstance(d, SG.TypeDecl) and d.kind == "select_")
            lines.append(f"pobj S {d.name} {qn} {ise} {iss} - - - - -")
        out.append((s.name, lines))
    return out

"""Small EXPRESS schema generator for C18 (exp2python): entities with single/multiple/diamond inheritance, explicit /
optional / derived / inverse attributes, defined types of every body kind exp2python distinguishes, identifiers that are
Python keywords or builtins.  Produces the EXPRESS text and the same schema as lines for the Lean driver m_c18.

    s = gen(rng, knobs…)      -> Schema
    s.express()               -> EXPRESS source
    s.driver_lines()          -> ["schema n", "type …", "entity …", "end"]

Every random choice comes from the `rng` passed in.
"""
SIMPLE = {"INTEGER": "INTEGER", "REAL": "REAL", "STRING": "STRING", "BINARY": "BINARY", "NUMBER": "NUMBER", "LOGICAL": "LOGICAL"}
# Python keywords that are legal EXPRESS identifiers: taken from Python itself (`keyword.kwlist`, lower-case members: EXPRESS
# identifiers are folded to lower case) minus the reserved words of EXPRESS among them (checks/c18.py verifies that stepcode's
# front end refuses exactly these); the historical order first, so that earlier random streams change as little as possible
import keyword as _keyword
EXPRESS_RESERVED_PY = ["and", "as", "else", "for", "from", "if", "in", "not", "or", "return", "while"]
_OLD_ORDER = ["class", "pass", "assert", "async", "await", "break", "continue", "def", "del", "elif", "except", "finally",
              "global", "import", "is", "lambda", "nonlocal", "raise", "try", "yield"]
_PY = [k for k in _keyword.kwlist if k == k.lower() and k not in EXPRESS_RESERVED_PY]
PY_KEYWORDS = [k for k in _OLD_ORDER if k in _PY] + [k for k in _PY if k not in _OLD_ORDER]
PY_BUILTINS = ["property", "len", "id", "object", "str", "int", "print", "sys", "float", "dict", "none"]
# identifiers that look like the generator's own naming scheme (constructor parameters `inherited<i>__<name>`) or like
# names of the runtime's base classes: legal EXPRESS identifiers, legal Python names (seeded C18-e2).  `inherited9__zz`
# cannot collide with a real inherited parameter (no attribute is called zz).
NAMING_SCHEME = ["inherited", "inherited_from", "inheritedx", "inherited1", "inherited9__zz", "a__b", "x__", "scope", "count", "keys"]
PY_BUILTINS = PY_BUILTINS + NAMING_SCHEME


def agg_levels(body):
    """("aggregate", kind, lo, hi, base) with base a name or another such tuple/list -> ([(kind, lo, hi), …], leaf name)"""
    levels = []
    while not isinstance(body, str):
        levels.append((body[1], body[2], body[3]))
        body = body[4]
    return levels, body


def agg_express(body):
    levels, leaf = agg_levels(body)
    return " OF ".join(f"{k} [{lo}:{'?' if hi is None else hi}]" for k, lo, hi in levels) + " OF " + leaf


def agg_tokens(body):
    levels, leaf = agg_levels(body)
    return " ".join(f"{k} {lo} {'?' if hi is None else hi}" for k, lo, hi in levels) + " " + leaf


def agg_with_leaf(body, leaf):
    if isinstance(body, str):
        return leaf
    return (body[0], body[1], body[2], body[3], agg_with_leaf(body[4], leaf))


def random_agg(rng, leaf, depth):
    body = leaf
    for _ in range(depth):
        k = rng.choice(["ARRAY", "LIST", "BAG", "SET"])
        lo = rng.randrange(0, 3)
        hi = lo + rng.randrange(0, 4) if (k == "ARRAY" or rng.random() < 0.6) else None
        body = ("aggregate", k, lo, hi, body)
    return body


class Attr:
    def __init__(self, name, kind, typ, init=None, inv=None):
        self.name, self.kind, self.typ, self.init, self.inv = name, kind, typ, init, inv   # kind: e o d i


class Entity:
    def __init__(self, name, supers):
        self.name, self.supers, self.attrs = name, list(supers), []


class TypeDef:
    def __init__(self, name, body):
        self.name, self.body = name, body      # body: tuple, first item = kind


class Schema:
    def __init__(self, name):
        self.name, self.types, self.entities = name, [], []

    def copy(self):
        s = Schema(self.name)
        s.types = [TypeDef(t.name, t.body) for t in self.types]
        for e in self.entities:
            ne = Entity(e.name, e.supers)
            ne.attrs = [Attr(a.name, a.kind, a.typ, a.init, a.inv) for a in e.attrs]
            s.entities.append(ne)
        return s

    def express(self):
        out = [f"SCHEMA {self.name};"]
        for t in self.types:
            b = t.body
            if b[0] == "simple":
                rhs = b[1]
            elif b[0] == "boolean":
                rhs = "BOOLEAN"
            elif b[0] == "defined":
                rhs = b[1]
            elif b[0] == "enum":
                rhs = "ENUMERATION OF (" + ", ".join(b[1]) + ")"
            elif b[0] == "select":
                rhs = "SELECT (" + ", ".join(b[1]) + ")"
            elif b[0] in ("renum", "rselect"):
                rhs = b[1]                       # TYPE t = <enumeration or select type>: a rename
            else:
                rhs = agg_express(b)
            out.append(f"TYPE {t.name} = {rhs}; END_TYPE;")
        for e in self.entities:
            head = f"ENTITY {e.name}"
            if e.supers:
                head += " SUBTYPE OF (" + ", ".join(e.supers) + ")"
            out.append(head + ";")
            for a in e.attrs:
                if a.kind in "eo":
                    out.append(f"  {a.name} : {'OPTIONAL ' if a.kind == 'o' else ''}{a.typ};")
            der = [a for a in e.attrs if a.kind == "d"]
            if der:
                out.append("DERIVE")
                for a in der:
                    out.append(f"  {a.name} : {a.typ} := {a.init};")
            inv = [a for a in e.attrs if a.kind == "i"]
            if inv:
                out.append("INVERSE")
                for a in inv:
                    out.append(f"  {a.name} : SET OF {a.inv[0]} FOR {a.inv[1]};")
            out.append("END_ENTITY;")
        out.append("END_SCHEMA;")
        return "\n".join(out) + "\n"

    def driver_lines(self):
        out = [f"schema {self.name}"]
        for t in self.types:
            b = t.body
            if b[0] in ("enum", "select"):
                out.append(f"type {t.name} {b[0]} " + " ".join(b[1]))
            elif b[0] in ("renum", "rselect"):
                # observable content of a rename = the content of the type it (transitively) renames
                by = {x.name: x for x in self.types}
                r = t
                while r.body[0] in ("renum", "rselect") and r.body[1] in by:
                    r = by[r.body[1]]
                content = r.body[1] if r.body[0] in ("enum", "select") else b[2]
                out.append(f"type {t.name} {'enum' if b[0] == 'renum' else 'select'} " + " ".join(content))
            elif b[0] == "aggregate":
                out.append(f"type {t.name} aggregate " + agg_tokens(b))
            elif b[0] == "boolean" or (b[0] == "defined" and self._root_kind(b[1]) == "boolean"):
                # BOOLEAN is emitted as the alias `t = bool`; a rename of such a type is the same alias (the same object)
                out.append(f"type {t.name} boolean")
            else:
                out.append(f"type {t.name} {b[0]} {b[1]}")
        for e in self.entities:
            # attribute order as exp2python sees it (ENTITYget_attributes): explicit, then derived, then inverse
            attrs = [a for a in e.attrs if a.kind in "eo"] + [a for a in e.attrs if a.kind == "d"] + [a for a in e.attrs if a.kind == "i"]
            out.append(f"entity {e.name} {','.join(e.supers) or '-'} " + (",".join(f"{a.name}:{a.kind}:{self._aty(a)}" for a in attrs) or "-"))
        out.append("end")
        return out

    def _aty(self, a):
        """the attribute's declared type as the driver wants it: a simple type name | BOOLEAN | @name | # (aggregate)"""
        t = a.typ
        if a.kind in "di" or t is None:
            return "INTEGER"
        if " OF " in t:
            return "#"
        if t == "BOOLEAN" or t in SIMPLE:
            return t
        by = {x.name: x for x in self.types}
        if t in by and by[t].body[0] == "aggregate":
            return "#"
        if t in by and by[t].body[0] == "defined" and self._root_kind(t) == "boolean":
            return "BOOLEAN"
        return "@" + t

    def _root_kind(self, name):
        by = {x.name: x for x in self.types}
        seen = set()
        while name in by and name not in seen:
            seen.add(name)
            t = by[name]
            if t.body[0] != "defined":
                return t.body[0]
            name = t.body[1]
        return None

    def key(self):
        return "\n".join(self.driver_lines()[1:-1])


def _is_ancestor(ents, anc, n):
    return any(p == anc or _is_ancestor(ents, anc, p) for p in ents[n].supers)


def _c3(ents, n, memo):
    if n in memo:
        return memo[n]
    seqs = []
    for p in ents[n].supers:
        lp = _c3(ents, p, memo)
        if lp is None:
            memo[n] = None
            return None
        seqs.append(list(lp))
    seqs.append(list(ents[n].supers))
    out = [n]
    while any(seqs):
        seqs = [q for q in seqs if q]
        for q in seqs:
            h = q[0]
            if not any(h in r[1:] for r in seqs):
                break
        else:
            memo[n] = None
            return None
        out.append(h)
        seqs = [[x for x in q if x != h] for q in seqs]
    memo[n] = out
    return out


def gen(rng, idx=0, n_ent=None, n_types=None, p_kw=0.15, p_multi=0.3, allow_kw=PY_KEYWORDS + PY_BUILTINS, admissible=False):
    """admissible=True: every declared supertype order is one Python accepts (no listed supertype is an ancestor of
    another listed one, and a C3 linearisation exists) - diamonds and deep multiple inheritance still occur"""
    s = Schema(f"s{idx}")
    used = set()
    pool = list(allow_kw)
    rng.shuffle(pool)

    def fresh(prefix):
        if pool and rng.random() < p_kw:
            n = pool.pop()
            if n not in used:
                used.add(n)
                return n
        while True:
            n = f"{prefix}{rng.randrange(1000)}"
            if n not in used:
                used.add(n)
                return n
    n_types = rng.randrange(0, 6) if n_types is None else n_types
    n_ent = rng.randrange(1, 8) if n_ent is None else n_ent
    # simple / defined / boolean / enum types first
    plain = []
    for _ in range(n_types):
        r = rng.random()
        n = fresh("t")
        if r < 0.3:
            s.types.append(TypeDef(n, ("simple", rng.choice(sorted(SIMPLE))))); plain.append(n)
        elif r < 0.4:
            s.types.append(TypeDef(n, ("boolean",)))
        elif r < 0.55 and plain:
            s.types.append(TypeDef(n, ("defined", rng.choice(plain)))); plain.append(n)
        elif r < 0.62 and any(t.body[0] in ("enum", "renum") for t in s.types):
            src = rng.choice([t for t in s.types if t.body[0] in ("enum", "renum")])
            s.types.append(TypeDef(n, ("renum", src.name, list(src.body[1] if src.body[0] == "enum" else src.body[2]))))
        elif r < 0.8:
            s.types.append(TypeDef(n, ("enum", [fresh("i") for _ in range(rng.randrange(1, 4))])))
        else:
            lo = rng.randrange(0, 3)
            hi = None if rng.random() < 0.4 else lo + rng.randrange(0, 4)
            s.types.append(TypeDef(n, ("aggregate", rng.choice(["ARRAY", "LIST", "BAG", "SET"]), lo, hi if hi is not None else (lo + 2 if False else None),
                                       rng.choice(sorted(SIMPLE) + plain))))
            if s.types[-1].body[1] == "ARRAY" and s.types[-1].body[3] is None:
                s.types[-1].body = ("aggregate", "ARRAY", lo, lo + 2, s.types[-1].body[4])
    # entities
    for _ in range(n_ent):
        n = fresh("e")
        prev = [e.name for e in s.entities]
        supers = []
        if prev and rng.random() < 0.6:
            k = 1 if rng.random() > p_multi else min(len(prev), rng.randrange(2, 4))
            supers = rng.sample(prev, k)
        s.entities.append(Entity(n, supers))
        if admissible and len(supers) > 1:
            ents = {e.name: e for e in s.entities}
            e = s.entities[-1]
            e.supers = [x for x in supers if not any(y != x and _is_ancestor(ents, x, y) for y in supers)]
            while len(e.supers) > 1 and _c3(ents, n, {}) is None:
                e.supers = e.supers[:-1]
    typenames = [t.name for t in s.types if t.body[0] != "aggregate"]
    for e in s.entities:
        for _ in range(rng.choice([0, 1, 1, 2, 3])):
            r = rng.random()
            an = fresh("a")
            if r < 0.55:
                typ = rng.choice(sorted(SIMPLE) + ["BOOLEAN"])
            elif r < 0.7 and typenames:
                typ = rng.choice(typenames)
            elif r < 0.85:
                typ = rng.choice([x.name for x in s.entities])
            else:
                typ = f"{rng.choice(['LIST', 'SET', 'BAG'])} [{rng.randrange(0, 2)}:{rng.choice(['?', '3'])}] OF {rng.choice(['REAL', 'INTEGER', 'STRING'])}"
            kind = "o" if rng.random() < 0.25 else "e"
            e.attrs.append(Attr(an, kind, typ))
        if rng.random() < 0.2:
            e.attrs.append(Attr(fresh("d"), "d", "INTEGER", init=str(rng.randrange(10))))
    # inverse attributes: E.inv : SET OF F FOR r  where F.r : E
    ents = s.entities
    if len(ents) >= 2 and rng.random() < 0.4:
        e, f = rng.sample(ents, 2)
        r = fresh("r")
        f.attrs.append(Attr(r, "e", e.name))
        e.attrs.append(Attr(fresh("v"), "i", None, inv=(f.name, r)))
    # select over entities / defined types
    if s.entities and rng.random() < 0.4:
        members = rng.sample([x.name for x in s.entities] + plain, min(len(s.entities) + len(plain), rng.randrange(1, 4)))
        s.types.append(TypeDef(fresh("t"), ("select", members)))
        if rng.random() < 0.4:
            s.types.append(TypeDef(fresh("t"), ("rselect", s.types[-1].name, list(members))))
    return s


def _names(rng, n, prefix="n"):
    """n distinct identifiers of varying length/shape: the symbol table iterates in hash order, so the same structure is
    visited in many different orders"""
    out = set()
    while len(out) < n:
        out.add(rng.choice(["", "x", "zz", "abc"]) + prefix + str(rng.randrange(10000)) + rng.choice(["", "_a", "_bb"]))
    out = list(out); rng.shuffle(out)
    return out


def gen_renamed_in_select(rng, idx):
    """renamed enumerations / selects used as attribute types of entities that are members of a select"""
    s = Schema(f"r{idx}")
    nm = _names(rng, 16)
    e0, r1, r2, r3, p, q, b, c1, c2, c3, asm, a1, a2, a3, a4, a5 = nm
    s.types.append(TypeDef(e0, ("enum", ["raw", "primed", "coated"][:rng.randrange(1, 4)])))
    items = list(s.types[0].body[1])
    s.types.append(TypeDef(r1, ("renum", e0, items)))
    s.types.append(TypeDef(r2, ("renum", rng.choice([e0, r1]), items)))
    ep, eq, eb = Entity(p, []), Entity(q, []), Entity(b, [])
    ep.attrs = [Attr(a1, "e", "STRING"), Attr(a2, rng.choice("eo"), r1)]
    eq.attrs = [Attr(a3, "e", rng.choice([r2, r1, e0]))]
    eb.attrs = [Attr(a4, "e", "REAL")]
    s.entities += [ep, eq, eb]
    s.types.append(TypeDef(c1, ("select", [p, b])))
    s.types.append(TypeDef(c2, ("select", [q, b] if rng.random() < 0.7 else [q, c1])))
    if rng.random() < 0.5:
        s.types.append(TypeDef(c3, ("rselect", c1, [p, b])))
    ea = Entity(asm, [])
    ea.attrs = [Attr(a5, "e", f"LIST [1:?] OF {c1}"), Attr(r3, "o", c2)]
    s.entities.append(ea)
    rng.shuffle(s.types)
    # a rename must follow nothing in EXPRESS (declarations are order-free), but keep select-of-select acyclic: fine as built
    return s


def gen_lattice(rng, idx):
    """an entity lists a supertype A and, after it, a descendant X of A; the path from X up to A runs through an entity
    with several supertypes, the one leading to A in first / middle / last position"""
    s = Schema(f"l{idx}")
    nm = _names(rng, 24)
    a, m = nm[0], nm[1]
    ea = Entity(a, []); ea.attrs = [Attr(nm[2], "e", "STRING")]
    s.entities.append(ea)
    cur, k = a, 3
    for depth in range(rng.randrange(1, 4)):
        n = nm[k]; k += 1
        sup = [cur]
        if depth == 0 and rng.random() < 0.3:
            pass
        else:
            for _ in range(rng.randrange(1, 3)):
                u = nm[k]; k += 1
                s.entities.append(Entity(u, []))
                sup.insert(rng.randrange(len(sup) + 1), u)
        e = Entity(n, sup)
        if rng.random() < 0.5:
            e.attrs = [Attr(nm[k], "e", "REAL")]; k += 1
        s.entities.append(e)
        cur = n
    em = Entity(m, [a, cur] if rng.random() < 0.8 else [cur, a])
    s.entities.append(em)
    return s


def fixed_shapes():
    """hand-made shapes every run checks: diamond, shallow-before-deep supertypes, keyword names everywhere"""
    out = []
    s = Schema("diamond")
    for n, sup, at in [("root", [], ["x"]), ("l", ["root"], ["y"]), ("r", ["root"], ["z"]), ("d", ["l", "r"], ["w"])]:
        e = Entity(n, sup); e.attrs = [Attr(a, "e", "INTEGER") for a in at]; s.entities.append(e)
    out.append(s)
    s = Schema("shallowdeep")
    for n, sup, at in [("g", [], ["x"]), ("p", ["g"], ["y"]), ("q", [], ["z"]), ("c", ["q", "p"], ["w"])]:
        e = Entity(n, sup); e.attrs = [Attr(a, "e", "INTEGER") for a in at]; s.entities.append(e)
    out.append(s)
    s = Schema("chain")
    for n, sup, at in [("g", [], ["x", "x2"]), ("p", ["g"], []), ("c", ["p"], ["w"]), ("leaf", ["c"], [])]:
        e = Entity(n, sup); e.attrs = [Attr(a, "e", "INTEGER") for a in at]; s.entities.append(e)
    s.entities[0].attrs.append(Attr("dd", "d", "INTEGER", init="1"))
    out.append(s)
    for i, kw in enumerate(PY_KEYWORDS + ["property", "len", "sys", "object"]):
        s = Schema(f"kw{i}")
        s.types.append(TypeDef("t1", ("enum", [kw, "other"])))
        e = Entity(kw, []); e.attrs = [Attr("a1", "e", "INTEGER")]; s.entities.append(e)
        e2 = Entity("sub", [kw]); e2.attrs = [Attr(kw, "o", "REAL")]; s.entities.append(e2)
        out.append(s)
        s = Schema(f"kwt{i}")
        s.types.append(TypeDef(kw, ("simple", "REAL")))
        e = Entity("e1", []); e.attrs = [Attr("a1", "e", kw)]; s.entities.append(e)
        out.append(s)
    # the two kept MRO findings, at every seed: declared supertype orders with no C3 linearisation, and an ancestor listed
    # before its own subtype (the random batch `random-any-supertype-order` produces them only at some seeds)
    s = Schema("noc3")
    for n, sup in [("n0", []), ("n1", []), ("n2", ["n0", "n1"]), ("n3", ["n1", "n2", "n0"])]:
        e = Entity(n, sup); e.attrs = [Attr("a_" + n, "e", "INTEGER")]; s.entities.append(e)
    out.append(s)
    s = Schema("ancfirst")
    for n, sup in [("n0", []), ("n1", ["n0"]), ("n2", ["n0", "n1"])]:
        e = Entity(n, sup); e.attrs = [Attr("a_" + n, "e", "INTEGER")]; s.entities.append(e)
    out.append(s)
    # three supertypes, the first an ancestor of the last, an unrelated attribute-bearing one in between: the constructor's
    # parameter order must stay the Part 21 order whatever order the base classes are emitted in (seeded C18-f1)
    s = Schema("ancfirst3")
    for n, sup in [("m0", []), ("m1", []), ("m2", ["m0"]), ("m3", ["m0", "m1", "m2"]), ("m4", ["m1", "m0", "m2"])]:
        e = Entity(n, sup); e.attrs = [Attr("a_" + n, "e", "INTEGER")]; s.entities.append(e)
    out.append(s)
    # attribute names that look like the generator's own parameter names / the runtime's names (seeded C18-e2)
    s = Schema("naming")
    for n, sup, at in [("a", [], ["x", "inherited", "a__b"]), ("b", ["a"], ["inherited_from", "inherited1", "scope", "count"]),
                       ("c", ["b"], ["inherited9__zz", "inheritedx", "keys", "x__"])]:
        e = Entity(n, sup); e.attrs = [Attr(x, "e", "INTEGER") for x in at]; s.entities.append(e)
    out.append(s)
    # ... and the one that collides exactly: an own attribute called like the first inherited parameter
    s = Schema("namingclash")
    for n, sup, at in [("a", [], ["x"]), ("b", ["a"], ["inherited0__x"])]:
        e = Entity(n, sup); e.attrs = [Attr(x, "e", "INTEGER") for x in at]; s.entities.append(e)
    out.append(s)
    # below a diamond: an entity whose (first attribute-bearing) supertype is the bottom of a diamond - the shared ancestor's
    # attributes arrive once per path inside ONE supertype's attribute list (seeded C18-c2)
    for nm, e_sup, f_sup in (("belowdiamond", ["d"], ["e"]), ("belowdiamond2", ["marker", "d"], ["marker", "e"])):
        s = Schema(nm)
        for n, sup, at in [("a", [], ["id", "nm"]), ("marker", [], []), ("b", ["a"], ["own_b"]), ("c", ["a"], ["own_c"]),
                           ("d", ["b", "c"], ["own_d"]), ("e", e_sup, ["own_e"]), ("f", f_sup, ["own_f"])]:
            e = Entity(n, sup); e.attrs = [Attr(x, "e", "INTEGER") for x in at]; s.entities.append(e)
        out.append(s)
    # an escaped keyword next to the declared identifier `keyword_`: two entities / two defined types, one class each
    s = Schema("kwus_e")
    for n, sup in [("class", []), ("class_", ["class"]), ("class__", [])]:
        e = Entity(n, sup); e.attrs = [Attr("a_" + str(len(s.entities)), "e", "INTEGER")]; s.entities.append(e)
    out.append(s)
    s = Schema("kwus_t")
    s.types.append(TypeDef("pass", ("simple", "INTEGER")))
    s.types.append(TypeDef("pass_", ("simple", "REAL")))
    e = Entity("e1", []); e.attrs = [Attr("a1", "e", "pass"), Attr("a2", "e", "pass_")]; s.entities.append(e)
    out.append(s)
    return out


def gen_rename_chain(rng, idx, kind, depth):
    """a chain of `depth` defined types, each renaming the previous one, over the underlying `kind`
    (a simple type name, BOOLEAN, an ENUMERATION or a SELECT); identifiers of varying shape: the dictionary order of
    the chain members differs from schema to schema"""
    s = Schema(f"c{idx}")
    nm = _names(rng, depth + 6)
    ent = Entity(nm[depth], [])
    ent.attrs = [Attr(nm[depth + 1], "e", "INTEGER")]
    s.entities.append(ent)
    if kind == "BOOLEAN":
        s.types.append(TypeDef(nm[0], ("boolean",)))
        mk = lambda n, prev: TypeDef(n, ("defined", prev))
    elif kind == "ENUM":
        items = [nm[depth + 2], nm[depth + 3]]
        s.types.append(TypeDef(nm[0], ("enum", items)))
        mk = lambda n, prev: TypeDef(n, ("renum", prev, items))
    elif kind == "SELECT":
        s.types.append(TypeDef(nm[0], ("select", [ent.name])))
        mk = lambda n, prev: TypeDef(n, ("rselect", prev, [ent.name]))
    else:
        s.types.append(TypeDef(nm[0], ("simple", kind)))
        mk = lambda n, prev: TypeDef(n, ("defined", prev))
    for i in range(1, depth):
        s.types.append(mk(nm[i], nm[i - 1]))
    user = Entity(nm[depth + 4], [])
    user.attrs = [Attr(nm[depth + 5], rng.choice("eo"), nm[rng.randrange(depth)])]
    s.entities.append(user)
    rng.shuffle(s.types)
    return s


def gen_nested_aggregates(rng, idx):
    """defined TYPEs and attribute types that are aggregates of aggregates (depth 1-3) over simple types, named defined
    types, entities, enumerations and selects"""
    s = Schema(f"g{idx}")
    nm = _names(rng, 24)
    lab, en, ent, ent2, sel = nm[0], nm[1], nm[2], nm[3], nm[4]
    s.types.append(TypeDef(lab, ("simple", rng.choice(sorted(SIMPLE)))))
    s.types.append(TypeDef(en, ("enum", [nm[5], nm[6]])))
    e1 = Entity(ent, []); e1.attrs = [Attr(nm[7], "e", "INTEGER")]
    e2 = Entity(ent2, [ent] if rng.random() < 0.5 else [])
    s.entities += [e1, e2]
    s.types.append(TypeDef(sel, ("select", [ent, ent2])))
    leaves = sorted(SIMPLE) + ["BOOLEAN", lab, lab, en, ent, ent2, sel]
    k = 8
    for _ in range(rng.randrange(2, 5)):
        s.types.append(TypeDef(nm[k], random_agg(rng, rng.choice(leaves), rng.choice([1, 2, 2, 3])))); k += 1
    holder = Entity(nm[k], []); k += 1
    for _ in range(rng.randrange(1, 4)):
        body = random_agg(rng, rng.choice(leaves), rng.choice([1, 2, 2, 3]))
        holder.attrs.append(Attr(nm[k], rng.choice("eo"), agg_express(body))); k += 1
    # an attribute typed by a named aggregate type, and an aggregate over a named aggregate type
    aggs = [t.name for t in s.types if t.body[0] == "aggregate"]
    holder.attrs.append(Attr(nm[k], "e", rng.choice(aggs))); k += 1
    s.entities.append(holder)
    rng.shuffle(s.types)
    return s


def gen_diamond_dag(rng, idx):
    """inheritance DAGs of depth up to 4 with diamonds at every level: entities below a diamond bottom, stacked diamonds,
    a diamond bottom as first / second supertype; every entity declares explicit attributes"""
    s = Schema(f"d{idx}")
    nm = _names(rng, 60)
    k = 0

    def ent(supers):
        nonlocal k
        e = Entity(nm[k], supers); k += 1
        for _ in range(rng.choice([1, 1, 2])):
            e.attrs.append(Attr(nm[k], rng.choice("eeo"), rng.choice(["INTEGER", "REAL", "STRING"]))); k += 1
        if rng.random() < 0.2:
            e.attrs.append(Attr(nm[k], "d", "INTEGER", init="1")); k += 1
        s.entities.append(e)
        return e.name
    root = ent([])
    tops = [root]
    bottoms = []
    for level in range(rng.randrange(1, 3)):
        top = rng.choice(tops)
        l, r = ent([top]), ent([top])
        extra = [ent([])] if rng.random() < 0.3 else []
        sup = [l, r] + extra
        rng.shuffle(sup)
        b = ent(sup)                      # the bottom of a diamond
        bottoms.append(b)
        tops = [b, l, r]                  # the next diamond may stand on this bottom (stacked) or on a side
    for b in list(bottoms):
        shape = rng.randrange(4)
        if shape == 0:
            ent([b])                                      # single inheritance below a diamond bottom
        elif shape == 1:
            ent([ent([]), b])                             # diamond bottom as second supertype
        elif shape == 2:
            ent([b, ent([])])                             # ... as first
        else:
            c = ent([b])
            ent([ent([c]), ent([c])])                     # a second diamond hanging below the first
    return s


def gen_multi_schema(rng, idx):
    """-> (text, [schema names]): two or three schemas in one file; the later ones REFERENCE / USE types and entities of the
    earlier ones item by item, rename referenced types and derive entities (also multiply) from referenced entities"""
    nm = _names(rng, 40)
    k = 0

    def fresh():
        nonlocal k
        k += 1
        return nm[k - 1]
    n_s = rng.choice([2, 2, 3])
    names = [f"ms{idx}_{chr(97 + i)}" for i in range(n_s)]
    out, exported = [], []           # exported: (schema, kind, name)
    for si, sn in enumerate(names):
        lines = [f"SCHEMA {sn};"]
        local_types, local_ents = [], []
        if si > 0 and exported:
            src = rng.choice(names[:si])
            items = [e for e in exported if e[0] == src]
            pick = rng.sample(items, rng.randrange(1, len(items) + 1))
            kw = rng.choice(["REFERENCE", "USE"])
            lines.append(f"{kw} FROM {src} (" + ", ".join(p[2] for p in pick) + ");")
            for _, kind, n in pick:
                (local_types if kind == "t" else local_ents).append(n)
        for _ in range(rng.randrange(1, 4)):
            t = fresh()
            base = rng.choice(sorted(SIMPLE) + local_types) if local_types and rng.random() < 0.6 else rng.choice(sorted(SIMPLE))
            lines.append(f"TYPE {t} = {base};\nEND_TYPE;")
            local_types.append(t); exported.append((sn, "t", t))
        for _ in range(rng.randrange(1, 4)):
            e = fresh()
            sup = rng.sample(local_ents, min(len(local_ents), rng.choice([0, 1, 2, 2]))) if local_ents else []
            lines.append(f"ENTITY {e}" + (f"\n  SUBTYPE OF ({', '.join(sup)})" if sup else "") + ";")
            if rng.random() < 0.5:
                lines.append(f"  {fresh()} : {rng.choice(sorted(SIMPLE) + local_types)};")
            lines.append("END_ENTITY;")
            local_ents.append(e); exported.append((sn, "e", e))
        lines.append("END_SCHEMA;\n")
        out.append("\n".join(lines))
    return "\n".join(out), names

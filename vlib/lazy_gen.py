"""Schemas and Part 21 populations for the lazy-loader checks (C10, C11).

A schema is a dict  {name, entities: [ {name, sup, abstract_andor: [subs] | None, attrs: [(name, kind, target)],
                                         inverses: [(name, aggr, over_entity, for_attr)]} ]}
kinds: 'str' 'int' 'optstr' 'ref' 'optref' 'listref' 'setref'  (target = entity name for the ref kinds).
A population is a list of instances {id, parts: [(entity, [values])]}  (one part = simple instance; several = complex,
external mapping).  Values: ('str', text) ('int', n) ('null',) ('ref', id) ('agg', [ids]).
Everything random comes from the rng passed in.  Ground truth (ids, keywords, references per attribute, inverse sets)
is computed from the population, never from the text.
"""
import itertools

HEADER = ("ISO-10303-21;\nHEADER;\nFILE_DESCRIPTION(('verif'),'2;1');\n"
          "FILE_NAME('g','2012-06-30T',('a'),(''),'0','1','2');\nFILE_SCHEMA(('%s'));\nENDSEC;\nDATA;")
FOOTER = "ENDSEC;\nEND-ISO-10303-21;\n"


# ------------------------------------------------------------------ schemas
def express(s):
    out = [f"SCHEMA {s['name']};"]
    for e in s["entities"]:
        head = f"ENTITY {e['name']}"
        if e.get("andor"):
            head += " SUPERTYPE OF (" + " ANDOR ".join(e["andor"]) + ")"
        if sups_of(e):
            head += " SUBTYPE OF (" + ", ".join(sups_of(e)) + ")"
        out.append(head + ";")
        for (n, k, t) in e["attrs"]:
            ty = {"str": "STRING", "int": "INTEGER", "optstr": "OPTIONAL STRING", "ref": t, "optref": f"OPTIONAL {t}",
                  "listref": f"LIST [0:?] OF {t}", "setref": f"SET [0:?] OF {t}"}[k]
            out.append(f"  {n} : {ty};")
        for (n, owner, t) in e.get("redecl", []):
            out.append(f"  SELF\\{owner}.{n} : {t};")
        if e.get("inverses"):
            out.append("INVERSE")
            for (n, aggr, over, attr) in e["inverses"]:
                out.append(f"  {n} : " + (f"SET [0:?] OF {over}" if aggr else over) + f" FOR {attr};")
        out.append("END_ENTITY;")
    out.append("END_SCHEMA;")
    return "\n".join(out) + "\n"


def sups_of(e):
    """declared supertypes in order: `sups` (list) or `sup` (one)"""
    return list(e.get("sups") or ([e["sup"]] if e.get("sup") else []))


def ent(s, name):
    return next(e for e in s["entities"] if e["name"] == name)


def supers(s, name):
    """name and all its supertypes (breadth first, each once), most specific first"""
    out, todo = [], [name]
    while todo:
        n = todo.pop(0)
        if n in out:
            continue
        out.append(n)
        todo += sups_of(ent(s, n))
    return out


def attr_order(s, name, seen=None):
    """entities in Part 21 internal-mapping order: supertypes in declaration order (recursively, each once), then the entity"""
    seen = seen if seen is not None else []
    for sp in sups_of(ent(s, name)):
        attr_order(s, sp, seen)
    if name not in seen:
        seen.append(name)
    return seen


def all_attrs(s, name):
    """explicit attributes in Part 21 order (supertypes first, in declaration order) as (owner, attrname, kind, target)"""
    out = []
    for en in attr_order(s, name):
        for (n, k, t) in ent(s, en)["attrs"]:
            out.append((en, n, k, t))
    return out


def redeclared(s, name):
    """{attrname: new target} for the attributes entity `name` (or a supertype) redeclares"""
    out = {}
    for en in supers(s, name):
        for (n, owner, t) in ent(s, en).get("redecl", []):
            out.setdefault(n, t)
    return out


def is_a(s, name, anc):
    return anc in supers(s, name)


KW_LENGTHS = [1, 31, 74, 100, 101, 114, 200]     # exp2cxx supports entity names up to 200 characters


def long_name(n, tag="k"):
    """an EXPRESS identifier of exactly n characters (letters, digits, underscores)"""
    if n == 1:
        return tag[0]
    body = (tag + "w" + "ab3_cd9_" * (n // 8 + 1))[:n - 1]
    return body + "z"


def schema_c10(rng, idx, kwlens=None, inverses=None):
    """references, lists, an ANDOR family for complex instances, forward refs and cycles are possible everywhere;
    kwlens: extra entities whose names have exactly these lengths (keyword length is a size boundary of the scanner);
    inverses (default: every odd idx): INVERSE attributes (aggregate-valued) on `nd` and `grp` - loadInstance then also loads the
    candidate referrers lazyRefs inspects (see inv_keywords / expected_loaded); the ANDOR family stays free of them"""
    nm = f"lz{idx}"
    inverses = (idx % 2 == 1) if inverses is None else inverses
    ents = [
        {"name": "nd", "attrs": [("name", "str", None), ("nxt", "optref", "nd")]},
        {"name": "grp", "attrs": [("lbl", "str", None), ("items", "listref", "nd"), ("k", "int", None)]},
        {"name": "base", "andor": ["sa", "sb"], "attrs": [("a", "int", None)]},
        {"name": "sa", "sup": "base", "attrs": [("r", "optref", "nd"), ("t", "optstr", None)]},
        {"name": "sb", "sup": "base", "attrs": [("s", "str", None), ("q", "optref", "grp")]},
    ]
    # a few random extra entities
    for j in range(rng.randint(0, 3)):
        attrs = []
        for a in range(rng.randint(1, 4)):
            k = rng.choice(["str", "int", "optref", "listref", "setref", "optstr"])
            t = rng.choice(["nd", "grp", "base"] + [f"x{i}" for i in range(j + 1)]) if "ref" in k else None
            attrs.append((f"a{a}", k, t))
        ents.append({"name": f"x{j}", "attrs": attrs})
    for n in (kwlens if kwlens is not None else KW_LENGTHS[idx % 4::4]):
        ents.append({"name": long_name(n), "attrs": [("ln", "str", None), ("lr", "optref", "nd"), ("ls", "setref", "nd")]})
    if inverses:
        nd, grp = ents[0], ents[1]
        nd["inverses"] = [("prevs", True, "nd", "nxt"), ("in_grps", True, "grp", "items")]
        k = 0
        for e in ents[5:]:
            # referrers of nd through one attribute; an instance that mentions an nd only through ANOTHER attribute (lr vs ls, a0 vs a1)
            # is a candidate lazyRefs loads and keeps although it is no referrer
            refs = [(n_, kd) for (n_, kd, t) in e["attrs"] if t == "nd" and "ref" in kd]
            if refs and rng.random() < 0.8:
                nd["inverses"].append((f"by{k}", True, e["name"], rng.choice(refs)[0]))
                k += 1
            grefs = [(n_, kd) for (n_, kd, t) in e["attrs"] if t == "grp" and "ref" in kd]
            if grefs and rng.random() < 0.8:
                grp.setdefault("inverses", []).append((f"gy{k}", True, e["name"], rng.choice(grefs)[0]))
                k += 1
    return {"name": nm, "entities": ents}


def inv_keywords(s):
    """{entity: sorted entities whose instances are candidate referrers of an instance of it}: the inverted entities of its inverse
    attributes (own and inherited), each with all its subtypes - what lazyRefs::checkAnInvAttr collects in edL"""
    out = {}
    for e in s["entities"]:
        c = set()
        for en in supers(s, e["name"]):
            for (_, _, over, _) in ent(s, en).get("inverses", []):
                c |= {f["name"] for f in s["entities"] if is_a(s, f["name"], over)}
        if c:
            out[e["name"]] = sorted(c)
    return out


def loaded_class(s, pop, requested):
    """how the loaded set of a history relates to the forward closure: 'forward closure only' | 'plus referrers' |
    'plus candidates that are no referrers' (an instance loaded only because its keyword and a mention made it a candidate, although it
    does not refer through the inverted attribute)"""
    byid = {x["id"]: x for x in pop}
    fwd = {x["id"]: [r for r in refs_in_order(x) if r in byid] for x in pop}
    base = set()
    for i in requested:
        if i in byid:
            base |= {i} | closure(fwd, i)
    full = expected_loaded(s, pop, requested)
    if full == base:
        return "forward closure only"
    # the same closure with real referrers only
    seen, todo = set(), [i for i in requested if i in byid]
    while todo:
        i = todo.pop()
        if i in seen:
            continue
        seen.add(i)
        todo += fwd[i]
        x = byid[i]
        if len(x["parts"]) == 1:
            for en in supers(s, x["parts"][0][0]):
                for (_, _, over, attr) in ent(s, en).get("inverses", []):
                    todo += [y["id"] for y in pop if len(y["parts"]) == 1 and is_a(s, y["parts"][0][0], over)
                             and i in attr_refs(s, y, over, attr)]
    return "plus referrers" if seen == full else "plus candidates that are no referrers"


def expected_loaded(s, pop, requested):
    """what loadInstance leaves loaded after the calls `requested`: the least set that contains the requested instances of the file and
    is closed under forward references and under `candidate referrer` (a simple instance that mentions a loaded simple instance x and
    whose entity is among inv_keywords of x's entity) - computed from the population and the schema only"""
    inv = inv_keywords(s)
    byid = {x["id"]: x for x in pop}
    mention = {x["id"]: set(refs_in_order(x)) for x in pop}
    seen, todo = set(), [i for i in requested if i in byid]
    while todo:
        i = todo.pop()
        if i in seen:
            continue
        seen.add(i)
        x = byid[i]
        todo += [r for r in mention[i] if r in byid]
        if len(x["parts"]) == 1:
            cand_ents = inv.get(x["parts"][0][0], [])
            todo += [y["id"] for y in pop if len(y["parts"]) == 1 and y["parts"][0][0] in cand_ents and i in mention[y["id"]]]
    return seen


def schema_c11(rng, idx, ninv=None, complex_ref=False, mi=False, deep=False, redecl=False, diamond=False, inh=None, rdiamond=False):
    """targets with 1-3 inverse attributes (own and inherited, aggregate and single), several referrer entities,
    a referrer subtype, referrers that also mention the target through another attribute"""
    nm = f"iv{idx}"
    ninv = ninv or rng.randint(1, 3)
    shape = rng.randrange(4)
    ents = [{"name": "tg", "attrs": [("nm", "str", None)], "inverses": []},
            {"name": "tsub", "sup": "tg", "attrs": [("d", "optstr", None)], "inverses": []},
            {"name": "rel", "attrs": [("one", "optref", "tg"), ("many", "setref", "tg"), ("oth", "optref", "tg")]},
            {"name": "rsub", "sup": "rel", "attrs": [("z", "int", None)]},
            {"name": "rsub2", "sup": "rsub", "attrs": [("zz", "int", None)]},
            # a referrer entity with a long name: the candidate test reads the keyword back from the file (typeFromFile)
            {"name": long_name([101, 114, 100, 74, 200, 31][idx % 6], "r"), "sup": "rel", "attrs": [("zl", "int", None)]},
            {"name": "qel", "attrs": [("q1", "optref", "tg"), ("qs", "listref", "tg"), ("w", "optref", "tsub")]},
            ]
    if complex_ref:
        # referrers may be complex instances (REL ANDOR family): the known `complex-referrer` class
        ent({"entities": ents}, "rel")["andor"] = ["ra", "rb"]
        ents += [{"name": "ra", "sup": "rel", "attrs": [("za", "int", None)]},
                 {"name": "rb", "sup": "rel", "attrs": [("zb", "optstr", None)]}]
    # an entity whose inverse attributes are over itself: an instance can be its own referrer
    ents.append({"name": "sn", "attrs": [("nm", "str", None), ("nxt", "optref", "sn"), ("deps", "setref", "sn"), ("boss", "optref", "sn")],
                 "inverses": [("prevs", True, "sn", "nxt"), ("users", True, "sn", "deps"), ("minion", False, "sn", "boss")]})
    if mi:
        # subtypes of the inverted entity with several supertypes: rel first (m1) and rel second (m2) - in m2 the attributes of
        # `doc` come before those of `rel`, so rel's attributes sit at other positions than in REL / M1 instances
        ents += [{"name": "doc", "attrs": [("dfor", "optref", "tg")]},
                 {"name": "m1", "sups": ["rel", "doc"], "attrs": [("z1", "int", None)]},
                 {"name": "m2", "sups": ["doc", "rel"], "attrs": [("z2", "int", None)]}]
    if deep:
        # targets that inherit their inverse attributes from a grand-supertype (tsub2) or from a second supertype (tmi)
        ents += [{"name": "tsub2", "sup": "tsub", "attrs": [("e", "optstr", None)]},
                 {"name": "aux", "attrs": [("a", "int", None)]},
                 {"name": "tmi", "sups": ["aux", "tg"], "attrs": [("f", "optstr", None)]}]
    if diamond:
        # target hierarchies in which the inverse-declaring entity is inherited along two (dj) and four (dk) paths: the inverse
        # is declared at the top (tg: the random inverses below, and the single-valued `keeper`) and in the middle (dl.lefts)
        ents += [{"name": "own", "attrs": [("holder", "optref", "tg"), ("others", "setref", "tg")]},
                 {"name": "dl", "sup": "tg", "attrs": [("l", "optstr", None)], "inverses": [("lefts", True, "own", "others")]},
                 {"name": "dr", "sup": "tg", "attrs": [("r", "int", None)]},
                 {"name": "dj", "sups": ["dl", "dr"], "attrs": [("j", "optstr", None)]},
                 {"name": "dj2l", "sup": "dj", "attrs": [("a2", "int", None)]},
                 {"name": "dj2r", "sup": "dj", "attrs": [("b2", "optstr", None)]},
                 {"name": "dk", "sups": ["dj2l", "dj2r"], "attrs": [("k", "int", None)]}]
        ent({"entities": ents}, "tg")["inverses"].append(("keeper", False, "own", "holder"))
    if rdiamond:
        # a multiple-inheritance diamond BELOW the inverted entity, the shared subtype (rdab) standing in rdb's subtype list BEFORE
        # further subtypes (rdz, rdy): subtypesIterator must skip the entity it has queued already and go on with the rest of the
        # list (edL of lazyRefs::checkAnInvAttr); referrers of every subtype are generated (concrete_choices)
        # (the order of a registered subtype list follows exp2cxx's symbol table, not the declaration order: these names put rdab
        # first in rdb's list on the current generator; checks/c11.py measures it on the real registry - evidence `subtype walks`)
        ents += [{"name": "rda", "sup": "rel", "attrs": [("ya", "int", None)]},
                 {"name": "rdb", "sup": "rel", "attrs": [("yb", "int", None)]},
                 {"name": "rdz", "sup": "rdb", "attrs": [("y0", "int", None)]},
                 {"name": "rdy", "sup": "rdb", "attrs": [("y2", "int", None)]},
                 {"name": "rdab", "sups": ["rda", "rdb"], "attrs": [("yab", "int", None)]},
                 {"name": "rdq", "sups": ["rdy", "rda"], "attrs": [("y3", "int", None)]},
                 {"name": "rdp", "sups": ["rdb", "rda"], "attrs": [("y4", "int", None)]}]
    if redecl:
        # a referrer subtype that redeclares the inverted attribute (SELF\rel.one : tsub)
        ents.append({"name": "rre", "sup": "rel", "attrs": [("zr", "int", None)], "redecl": [("one", "rel", "tsub")]})
    cands = [("rel", "one"), ("rel", "many"), ("qel", "q1"), ("qel", "qs"), ("rel", "oth"), ("rsub", "one")]
    if redecl:
        cands = [("rel", "one"), ("rel", "many"), ("qel", "q1")]
        rng.shuffle(cands)
        cands.remove(("rel", "one")); cands.insert(0, ("rel", "one"))      # the redeclared attribute is always inverted
    if mi:
        cands = [("rel", "one"), ("rel", "many"), ("rel", "oth"), ("m2", "one"), ("qel", "q1")]
    if complex_ref:
        cands = [("rel", "one"), ("rel", "many"), ("rel", "oth")]
    if not redecl:
        rng.shuffle(cands)
    used = cands[:ninv]
    if inh is not None and ninv >= 2 and not complex_ref and not redecl:
        # (several inverses in one entity) x (inverted attribute INHERITED by the inverted entity): one level up (rsub.one is
        # rel's), two levels up (rsub2), through a second supertype (m2 SUBTYPE OF (doc, rel)); at a chosen position among its siblings
        pos, kind = inh
        ic = {"one-up": ("rsub", "one"), "two-up": ("rsub2", "many"), "second-super": ("m2", "oth") if mi else ("rsub2", "oth")}[kind]
        used = [u for u in used if u != ic][:ninv - 1]
        used.insert(min(pos, len(used)), ic)
    for i, (over, attr) in enumerate(used):
        owner = "tsub" if (shape == 1 and i == ninv - 1) else "tg"
        # names that are proper prefixes of one another, the longer one declared first (inv_xx, inv_x, inv): a look-up by name must
        # not stop at the first inverse attribute whose name merely starts with the requested one
        ent({"entities": ents}, owner)["inverses"].append(("inv" + ("_" + "x" * (len(used) - 1 - i) if i < len(used) - 1 else ""), True, over, attr))
    if shape == 2:
        ent({"entities": ents}, "tsub")["inverses"].append(("solo", False, "qel", "w"))
    return {"name": nm, "entities": ents}


# ------------------------------------------------------------------ populations
STR_ALPHA = ["a", "b", "Z", "0", "7", " ", "#", "#1", "#23", "(", ")", ";", "''", "/*", "*/", "=", ",", "$", "*", "/", "#)", ");", "\n"[:0]]


PAREN_ALPHA = ["(", ")", "(", ")", ";", "#", "#2", "''", "a", " ", "((", "))", ")(", "(;", "')'"[1:2], ","]


BS = "\\"
# control directives and escapes of the Part 21 string grammar (body items; cf. vlib/p21_gen_rw.string_grid)
DIRECTIVES = [BS + BS, BS + "S" + BS + "'", BS + "S" + BS + BS, BS + "S" + BS + "D", BS + "PA" + BS,
              BS + "X" + BS + "27", BS + "X" + BS + "5C", BS + "X2" + BS + "0027" + BS + "X0" + BS,
              BS + "X4" + BS + "00000027" + BS + "X0" + BS]
GRID_ITEMS = ["a", "''"] + DIRECTIVES + [";", ")", "(", "#3", "/*"]


def string_grid():
    """string bodies: every item kind alone, at the start, at the end, and next to every other item kind"""
    out = [""]
    for d in GRID_ITEMS:
        out += [d, "x" + d, d + "x"]
    for d1 in GRID_ITEMS:
        for d2 in GRID_ITEMS:
            out.append(d1 + d2)
    return out


def rand_string(rng, plain=False, parens=False):
    """parens=True: mostly `(` `)` `;` `#` `''`, balanced or not (used inside the parts of complex instances, where a
    reader that counts parentheses by hand instead of skipping string literals goes wrong)"""
    if plain:
        return "".join(rng.choice("abcxyz") for _ in range(rng.randint(0, 4)))
    if parens:
        alpha = PAREN_ALPHA + (DIRECTIVES if rng.random() < 0.5 else [])
        return "".join(rng.choice(alpha) for _ in range(rng.randint(1, 4)))
    alpha = STR_ALPHA + (DIRECTIVES if rng.random() < 0.5 else [])
    return "".join(rng.choice(alpha) for _ in range(rng.randint(0, 7)))


def concrete_choices(s):
    """instance shapes: every entity alone, plus ANDOR combinations"""
    shapes = []
    for e in s["entities"]:
        shapes.append([e["name"]])
        if e.get("andor"):
            subs = e["andor"]
            for r in range(2, len(subs) + 1):
                for combo in itertools.combinations(subs, r):
                    shapes.append([e["name"]] + list(combo))
    return shapes


def population(rng, s, n, cyc=0.5, plain_strings=False, maxid=None):
    shapes = concrete_choices(s)
    maxid = maxid or max(n + 3, rng.choice([n, 2 * n, 50, 1000]))
    ids = rng.sample(range(1, maxid + 1), n)
    if rng.random() < 0.5:
        ids.sort()
    insts = [{"id": i, "shape": rng.choice(shapes)} for i in ids]

    def of_type(t, before=None):
        return [x["id"] for k, x in enumerate(insts) if any(is_a(s, p, t) for p in x["shape"])
                and (before is None or k < before)]
    for k, x in enumerate(insts):
        parts = []
        shape = x["shape"]
        selfy = lambda t: cyc != 0 and t is not None and any(is_a(s, p_, t) for p_ in shape)
        complex_ = len(shape) > 1
        heavy = complex_ and not plain_strings and rng.random() < 0.6
        for p in sorted(shape) if complex_ else shape:
            attrs = ent(s, p)["attrs"] if complex_ else [(n_, k_, t_) for (_, n_, k_, t_) in all_attrs(s, p)]
            rd = {} if complex_ else redeclared(s, p)
            attrs = [(n_, k_, rd.get(n_, t_)) for (n_, k_, t_) in attrs]
            vals = []
            for (an, kind, tgt) in attrs:
                # acyclic populations: only references to earlier instances
                pool = of_type(tgt, None if rng.random() < cyc else k) if tgt else []
                if cyc == 0:
                    pool = of_type(tgt, k)
                if kind == "str":
                    vals.append(("str", rand_string(rng, plain_strings, heavy)))
                elif kind == "optstr":
                    vals.append(("str", rand_string(rng, plain_strings, heavy)) if (heavy or rng.random() < 0.6) else ("null",))
                elif kind == "int":
                    vals.append(("int", rng.randint(-99, 999)))
                elif kind == "ref":
                    vals.append(("ref", rng.choice(pool)) if pool else None)
                elif kind == "optref" and selfy(tgt) and rng.random() < 0.2:
                    vals.append(("ref", x["id"]))                      # an instance that refers to itself
                elif kind == "optref":
                    vals.append(("ref", rng.choice(pool)) if pool and rng.random() < 0.75 else ("null",))
                else:
                    m = rng.randint(0, 4) if pool else 0
                    if kind == "setref":
                        agg = rng.sample(pool, min(m, len(pool)))
                    else:
                        agg = [rng.choice(pool) for _ in range(m)]
                    if selfy(tgt) and rng.random() < 0.2 and x["id"] not in agg:
                        agg.insert(rng.randrange(len(agg) + 1), x["id"])   # ... alone or among other referrers
                    vals.append(("agg", agg))
            parts.append((p, vals))
        x["parts"] = parts
    # a required reference without any candidate: drop the instance (rare; keeps the file conforming)
    insts = [x for x in insts if all(v is not None for (_, vs) in x["parts"] for v in vs)]
    live = {x["id"] for x in insts}
    for x in insts:
        for (_, vs) in x["parts"]:
            for j, v in enumerate(vs):
                if v[0] == "ref" and v[1] not in live:
                    vs[j] = ("null",)
                elif v[0] == "agg":
                    vs[j] = ("agg", [r for r in v[1] if r in live])
    return insts


# ------------------------------------------------------------------ ground truth
def keyword(x):
    return "-" if len(x["parts"]) > 1 else x["parts"][0][0].upper()


def refs_in_order(x):
    out = []
    for (_, vs) in x["parts"]:
        for v in vs:
            if v[0] == "ref":
                out.append(v[1])
            elif v[0] == "agg":
                out += v[1]
    return out


def closure(fwd, i):
    seen, todo = set(), list(fwd.get(i, []))
    while todo:
        j = todo.pop()
        if j not in seen:
            seen.add(j)
            todo += fwd.get(j, [])
    return seen


def attr_refs(s, x, owner_chain_entity, attr):
    """ids instance x mentions through explicit attribute `attr` (declared in owner_chain_entity or a supertype)"""
    out = []
    complex_ = len(x["parts"]) > 1
    for (p, vs) in x["parts"]:
        names = [n for (n, _, _) in ent(s, p)["attrs"]] if complex_ else [n for (_, n, _, _) in all_attrs(s, p)]
        for n, v in zip(names, vs):
            if n == attr:
                if v[0] == "ref":
                    out.append(v[1])
                elif v[0] == "agg":
                    out += v[1]
    return out


def inverse_truth(s, pop, x, skip_complex=False, skip_redecl=False):
    """{(invname, owner): sorted referrer ids} for every inverse attribute x has (own or inherited);
    skip_complex: leave complex (externally mapped) referrers out - what the known `complex-referrer` defect yields"""
    res = {}
    types = set()
    for (p, _) in x["parts"]:
        types |= set(supers(s, p))
    for t in types:
        for (n, aggr, over, attr) in ent(s, t).get("inverses", []):
            refs = []
            for y in pop:
                if skip_complex and len(y["parts"]) > 1:
                    continue
                if skip_redecl and len(y["parts"]) == 1 and attr in redeclared(s, y["parts"][0][0]):
                    continue
                if any(is_a(s, p, over) for (p, _) in y["parts"]) and x["id"] in attr_refs(s, y, over, attr):
                    refs.append(y["id"])
            res[(n, t)] = sorted(refs)
    return res


# ------------------------------------------------------------------ rendering
WS = ["", "", "", " ", "  ", "\n", "\t", " \n ", "\r\n"]
CMT_ALPHA = ["a", "b", " ", "#", "#4", "(", ")", ";", "=", ",", "x", "9", "$", "E"]


def ws(rng, lay):
    return rng.choice(WS) if lay else ""


def comment(rng, semi=True):
    """semi=False: no `;` (the EAGER reader's first pass ends the instance at a `;` inside a comment in a parameter list)"""
    body = "".join(rng.choice([c for c in CMT_ALPHA if semi or c != ";"]) for _ in range(rng.randint(0, 6)))
    return "/*" + body + "*/"


def p21_string(t):
    return "'" + t + "'"      # alphabet already has quotes doubled


def render_value(rng, v, lay):
    if v[0] == "str":
        return p21_string(v[1])
    if v[0] == "int":
        return str(v[1])
    if v[0] == "null":
        return "$"
    if v[0] == "ref":
        return f"#{v[1]}"
    if v[0] == "agg":
        return "(" + ",".join(ws(rng, lay) + f"#{r}" + ws(rng, lay) for r in v[1]) + ")"
    raise ValueError(v)


def render_params(rng, vals, lay, cmt_at):
    """cmt_at: index of the parameter that gets a comment in front of it (after `(` / `,`), or None"""
    items = []
    for k, v in enumerate(vals):
        pre = ws(rng, lay)
        if cmt_at == k:
            pre += comment(rng, semi=False) + " " + ws(rng, lay)
        items.append(pre + render_value(rng, v, lay) + ws(rng, lay))
    return "(" + ",".join(items) + ")"


RISKY = ["comment-before-semicolon", "comment-between-id-and-eq", "comment-before-endsec", "whitespace-after-keyword",
         "comment-between-keyword-and-paren", "two-comments-one-instance", "two-comments-before-instance",
         "apostrophe-in-comment", "comment-open-in-comment", "id-above-int-max", "comment-above-8192"]


def render_instance(rng, x, lay=True, cmt=True, risky=None):
    """one instance in a layout inside the class both readers are specified for (see notes/C10.md):
    at most ONE comment per instance - before `#`, after `=`, or after a `(` / `,` of a simple instance -,
    white space around `=`, blanks (not other white space) directly after the keyword, white space before `;`.
    risky = one of RISKY: additionally the named conforming shape on which the two readers are known to have differed."""
    where = None
    simple = len(x["parts"]) == 1
    if risky == "several-comments":
        # comments at several of the positions around and inside the record at once (the readers agree on them since fixes/C10-8)
        pos = ["lead", "lead2", "ideq", "eq", "kwparen", "param", "semi"]
        on = {q for q in pos if rng.random() < 0.5}
        while len(on) < 2:
            on.add(rng.choice(pos))
        out = ws(rng, lay)
        if "lead" in on:
            out += comment(rng, semi=False) + ws(rng, lay)
        if "lead2" in on:
            out += comment(rng, semi=False) + ws(rng, lay)
        out += f"#{x['id']}" + ws(rng, lay)
        if "ideq" in on:
            out += comment(rng, semi=False) + ws(rng, lay)
        out += "=" + ws(rng, lay)
        if "eq" in on:
            out += comment(rng, semi=False) + " " + ws(rng, lay)
        if not simple:
            out += "(" + "".join(p.upper() + render_params(rng, vs, lay, None) for (p, vs) in x["parts"]) + ")"
        else:
            p, vs = x["parts"][0]
            out += p.upper()
            if "kwparen" in on:
                out += " " + comment(rng, semi=False) + " "
            out += render_params(rng, vs, lay, rng.randrange(len(vs)) if ("param" in on and vs) else None)
        if "semi" in on:
            out += ws(rng, lay) + comment(rng, semi=False)
        return out + ws(rng, lay) + ";"
    if risky == "two-comments-one-instance":
        where = "lead"
    elif risky is None and cmt and rng.random() < 0.4:
        where = rng.choice(["lead", "eq", "param"])
    out = ws(rng, lay)
    if where == "lead":
        out += comment(rng) + ws(rng, lay)
    if risky in ("apostrophe-in-comment", "comment-open-in-comment"):
        body = rng.choice(["it's here", "don't", "'", " a'b'c "]) if risky == "apostrophe-in-comment" else rng.choice(["see /* here", "/*", " x /* y /* z "])
        out += "/*" + body + "*/" + ws(rng, lay)
    if risky == "comment-above-8192":
        # a conforming comment longer than the eager reader's MAX_COMMENT_LENGTH (before fixes/C01-9 ReadComment gave up and skipped the instance)
        out += "/*" + "c" * rng.choice([8193, 8200, 9000, 20000, 65536, 70000]) + "*/" + ws(rng, lay)
    if risky == "two-comments-before-instance":
        out += comment(rng, semi=False) + ws(rng, lay) + comment(rng, semi=False) + ws(rng, lay)
    if risky == "id-above-int-max":
        # a conforming instance name no `int` holds (the eager reader and SDAI_Application_instance::STEPfile_id are `int`)
        out += "#" + str(rng.choice([2147483648, 3000000000, 4294967296 + x["id"], 10 ** 18 + x["id"]])) + ws(rng, lay)
    else:
        out += f"#{x['id']}" + ws(rng, lay)
    if risky == "comment-between-id-and-eq":
        out += comment(rng, semi=False) + ws(rng, lay)
    out += "=" + ws(rng, lay)
    if where == "eq":
        out += comment(rng) + " " + ws(rng, lay)
    if not simple:
        out += "(" + "".join(p.upper() + render_params(rng, vs, lay, None) for (p, vs) in x["parts"]) + ")"
    else:
        p, vs = x["parts"][0]
        at = rng.randrange(len(vs)) if (where == "param" and vs) else None
        if risky == "two-comments-one-instance" and vs:
            at = rng.randrange(len(vs))
        out += p.upper()
        if risky == "whitespace-after-keyword":
            out += rng.choice(["\t", "\n", "\r\n", "\t "])
        elif risky == "comment-between-keyword-and-paren":
            out += " " + comment(rng, semi=False) + " "
        else:
            out += (rng.choice(["", "", " ", "  "]) if lay else "")
        out += render_params(rng, vs, lay, at)
    if risky == "comment-before-semicolon":
        out += ws(rng, lay) + comment(rng, semi=False)
    out += ws(rng, lay) + ";"
    return out


def render_file(rng, s, pop, lay=True, cmt=True, risky=None):
    """returns (text, offset of the first byte after `DATA;`); risky: see render_instance - applied to ONE instance
    (a simple one where the shape needs it) or, for comment-before-endsec, to the end of the section"""
    head = HEADER % s["name"]
    victim = None
    if risky and risky != "comment-before-endsec" and pop:
        simple = [k for k, x in enumerate(pop) if len(x["parts"]) == 1 and x["parts"][0][1]]
        victim = rng.choice(simple) if simple else None
    body = "\n" + "\n".join(render_instance(rng, x, lay, cmt, risky if k == victim else None)
                              for k, x in enumerate(pop)) + "\n"
    tail = (comment(rng, semi=False) + "\n") if risky == "comment-before-endsec" else ""
    return head + body + ws(rng, lay) + tail + FOOTER, len(head)

"""Generator and reference interpreter for the FUNCTIONs exp2python translates (C18): integer parameters and locals,
assignments, IF, REPEAT (increment / WHILE / UNTIL controls, SKIP, ESCAPE), CASE, BEGIN-END, RETURN.

    statement tuples
        ("assign", var, int_tree)
        ("if", bool_tree, [stmt], [stmt] | None)
        ("for", var, lo_tree, hi_tree, step | None, while_tree | None, until_tree | None, [stmt])     step: non-zero int literal
        ("while", counter, n, [stmt])      counter := n; REPEAT WHILE counter > 0; …; counter := counter - 1; END_REPEAT;
        ("until", counter, n, [stmt])      counter := n; REPEAT UNTIL counter <= 0; …; counter := counter - 1; END_REPEAT;
        ("skip",) ("escape",)              only inside a loop body (SKIP only in loops without UNTIL / WHILE control, see notes)
        ("case", int_tree, [([int], stmt)], stmt | None)
        ("begin", [stmt])
        ("return", int_tree)
    expression trees: those of vlib/expr_gen_py18 with ("a", name) a parameter / local / loop variable

    f = gen_function(rng, idx, …) -> Func;  Module([f, …]).express();  run(f, args) -> int      (ISO 10303-11 clause 13)

Every random choice comes from the `rng` passed in.
"""
from vlib import expr_gen_py18 as X
from vlib.schema_gen_py18 import PY_KEYWORDS


def _ns(t):
    """the same tree with every `SELF.x` written `x` (no SELF in a function)"""
    if t[0] == "s":
        return ("a", t[1])
    if t[0] == "u":
        return ("u", t[1], _ns(t[2]))
    if t[0] == "b":
        return ("b", t[1], _ns(t[2]), _ns(t[3]))
    return t


def gen_int(rng, names, depth):
    return _ns(X.gen_int(rng, names, [], depth, False))


def gen_bool(rng, names, depth):
    return _ns(X.gen_bool(rng, names, [], depth, False))


class Func:
    def __init__(self, name, params, locals_, body):
        self.name, self.params, self.locals, self.body = name, params, locals_, body   # locals: [(name, init tree | None)]

    def copy(self):
        return Func(self.name, list(self.params), list(self.locals), self.body)

    def express(self):
        out = [f"FUNCTION {self.name}(" + "; ".join(f"{p} : INTEGER" for p in self.params) + ") : INTEGER;"]
        if self.locals:
            out.append("  LOCAL")
            for n, init in self.locals:
                out.append(f"    {n} : INTEGER" + (f" := {X.express_of(init)}" if init is not None else "") + ";")
            out.append("  END_LOCAL;")
        out += stmts_express(self.body, 1)
        out.append("END_FUNCTION;")
        return "\n".join(out)


class Module:
    def __init__(self, name, funcs):
        self.name, self.funcs = name, funcs

    def express(self):
        return f"SCHEMA {self.name};\nENTITY anchor;\n  a0 : INTEGER;\nEND_ENTITY;\n" + "\n".join(f.express() for f in self.funcs) + "\nEND_SCHEMA;\n"

    def key(self):
        return self.express()


def stmts_express(stmts, lvl):
    pad = "  " * lvl
    out = []
    for s in stmts:
        k = s[0]
        if k == "assign":
            out.append(f"{pad}{s[1]} := {X.express_of(s[2])};")
        elif k == "if":
            out.append(f"{pad}IF {X.express_of(s[1])} THEN")
            out += stmts_express(s[2], lvl + 1)
            if s[3] is not None:
                out.append(f"{pad}ELSE")
                out += stmts_express(s[3], lvl + 1)
            out.append(f"{pad}END_IF;")
        elif k == "for":
            _, v, lo, hi, step, wh, un, body = s
            head = f"{pad}REPEAT {v} := {X.express_of(lo)} TO {X.express_of(hi)}"
            if step is not None:
                head += f" BY {step}"
            if wh is not None:
                head += f" WHILE {X.express_of(wh)}"
            if un is not None:
                head += f" UNTIL {X.express_of(un)}"
            out.append(head + ";")
            out += stmts_express(body, lvl + 1)
            out.append(f"{pad}END_REPEAT;")
        elif k == "while":
            out.append(f"{pad}{s[1]} := {s[2]};")
            out.append(f"{pad}REPEAT WHILE ({s[1]} > 0);")
            out += stmts_express(s[3], lvl + 1)
            out.append(f"{pad}  {s[1]} := ({s[1]} - 1);")
            out.append(f"{pad}END_REPEAT;")
        elif k == "until":
            out.append(f"{pad}{s[1]} := {s[2]};")
            out.append(f"{pad}REPEAT UNTIL ({s[1]} <= 0);")
            out += stmts_express(s[3], lvl + 1)
            out.append(f"{pad}  {s[1]} := ({s[1]} - 1);")
            out.append(f"{pad}END_REPEAT;")
        elif k == "skip":
            out.append(f"{pad}SKIP;")
        elif k == "escape":
            out.append(f"{pad}ESCAPE;")
        elif k == "case":
            out.append(f"{pad}CASE {X.express_of(s[1])} OF")
            for labels, act in s[2]:
                out.append(f"{pad}  {', '.join(str(l) for l in labels)} : " + stmts_express([act], 0)[0].strip())
            if s[3] is not None:
                out.append(f"{pad}  OTHERWISE : " + stmts_express([s[3]], 0)[0].strip())
            out.append(f"{pad}END_CASE;")
        elif k == "begin":
            out.append(f"{pad}BEGIN")
            out += stmts_express(s[1], lvl + 1)
            out.append(f"{pad}END;")
        elif k == "return":
            out.append(f"{pad}RETURN ({X.express_of(s[1])});")
    return out


class _Return(Exception):
    def __init__(self, v):
        self.v = v


class _Skip(Exception):
    pass


class _Escape(Exception):
    pass


class Budget(Exception):
    pass


def run(f, args, budget=20000):
    """the value ISO 10303-11 gives the call (clauses 13.3, 13.4, 13.7, 13.9-13.11, 15)"""
    env = dict(zip(f.params, args))
    for n, init in f.locals:
        env[n] = X.evaluate(init, env) if init is not None else None
    left = [budget]
    try:
        _exec(f.body, env, left)
    except _Return as r:
        return r.v
    return None


def _exec(stmts, env, left):
    for s in stmts:
        left[0] -= 1
        if left[0] < 0:
            raise Budget()
        k = s[0]
        if k == "assign":
            env[s[1]] = X.evaluate(s[2], env)
        elif k == "if":
            if X.evaluate(s[1], env):
                _exec(s[2], env, left)
            elif s[3] is not None:
                _exec(s[3], env, left)
        elif k == "for":
            _, v, lo, hi, step, wh, un, body = s
            i, end, inc = X.evaluate(lo, env), X.evaluate(hi, env), (1 if step is None else step)
            saved = env.get(v, _Missing)
            try:
                while True:
                    if (inc > 0 and i > end) or (inc < 0 and i < end):
                        break
                    env[v] = i
                    if wh is not None and not X.evaluate(wh, env):
                        break
                    try:
                        _exec(body, env, left)
                    except _Skip:
                        pass
                    if un is not None and X.evaluate(un, env):
                        break
                    i += inc
                    left[0] -= 1
                    if left[0] < 0:
                        raise Budget()
            except _Escape:
                pass
            if saved is _Missing:
                env.pop(v, None)
            else:
                env[v] = saved
        elif k in ("while", "until"):
            env[s[1]] = s[2]
            try:
                while True:
                    if k == "while" and not env[s[1]] > 0:
                        break
                    try:
                        _exec(s[3], env, left)
                        env[s[1]] = env[s[1]] - 1
                    except _Skip:
                        pass
                    if k == "until" and env[s[1]] <= 0:
                        break
                    left[0] -= 1
                    if left[0] < 0:
                        raise Budget()
            except _Escape:
                pass
        elif k == "skip":
            raise _Skip()
        elif k == "escape":
            raise _Escape()
        elif k == "case":
            sel = X.evaluate(s[1], env)
            for labels, act in s[2]:
                if sel in labels:
                    _exec([act], env, left)
                    break
            else:
                if s[3] is not None:
                    _exec([s[3]], env, left)
        elif k == "begin":
            _exec(s[1], env, left)
        elif k == "return":
            raise _Return(X.evaluate(s[1], env))


_Missing = object()


# ---- features (for the classifier) and generation

def walk(stmts):
    for s in stmts:
        yield s
        k = s[0]
        if k == "if":
            yield from walk(s[2])
            if s[3] is not None:
                yield from walk(s[3])
        elif k == "for":
            yield from walk(s[7])
        elif k in ("while", "until"):
            yield from walk(s[3])
        elif k == "case":
            yield from walk([a for _, a in s[2]] + ([s[3]] if s[3] is not None else []))
        elif k == "begin":
            yield from walk(s[1])


def features(f):
    out = set()
    if set(f.params) & set(PY_KEYWORDS):
        out.add("keyword-parameter")
    if any(init is not None for _, init in f.locals):
        out.add("local-initializer")
    for s in walk(f.body):
        if s[0] == "for":
            out.add("repeat-increment")
            if s[5] is not None:
                out.add("repeat-increment-while")
        if s[0] == "skip":
            out.add("skip")
        if s[0] == "case" and "case_selector" in f.params + [n for n, _ in f.locals]:
            out.add("case-selector-name")
        if s[0] in ("for",) and s[6] is not None and any(x[0] == "skip" for x in walk(s[7])):
            out.add("skip-under-until")
    return out


# ---- the fragment with a Lean model (lean/StepModel/GenPyStmt.lean): assignment, IF, REPEAT with any of its controls,
# SKIP, ESCAPE, BEGIN-END (a sequence), RETURN (everything but CASE); LOCAL initial values are written by FUNCPrint as leading assignments

def in_fragment(f):
    return not any(s[0] == "case" for s in walk(f.body))


def lean_tokens(f):
    """the function body (LOCAL initial values first) in the prefix form of `m_c18` `func` lines"""
    def seq(stmts):
        if not stmts:
            return ["nop"]
        if len(stmts) == 1:
            return one(stmts[0])
        return ["seq"] + one(stmts[0]) + seq(stmts[1:])

    def one(s):
        k = s[0]
        if k == "assign":
            return ["asg", s[1]] + X.prefix_of(s[2])
        if k == "if":
            return ["if"] + X.prefix_of(s[1]) + seq(s[2]) + seq(s[3] or [])
        if k == "for":
            opt = lambda e: ["none"] if e is None else ["some"] + X.prefix_of(e)
            return ["rep", s[1]] + X.prefix_of(s[2]) + X.prefix_of(s[3]) + [str(1 if s[4] is None else s[4])] + opt(s[5]) + opt(s[6]) + seq(s[7])
        if k in ("while", "until"):
            # counter := n; REPEAT WHILE (counter > 0) | UNTIL (counter <= 0); body; counter := counter - 1; END_REPEAT
            c = ("a", s[1])
            ctl = (["some"] + X.prefix_of(("b", "gt", c, ("i", 0))) + ["none"]) if k == "while" else (["none", "some"] + X.prefix_of(("b", "le", c, ("i", 0))))
            dec = ["asg", s[1]] + X.prefix_of(("b", "minus", c, ("i", 1)))
            return ["seq", "asg", s[1], "i", str(s[2]), "whl"] + ctl + (["seq"] + seq(s[3]) + dec)
        if k == "skip":
            return ["skip"]
        if k == "escape":
            return ["esc"]
        if k == "begin":
            return seq(s[1])
        if k == "return":
            return ["ret"] + X.prefix_of(s[1])
        raise ValueError(k)
    inits = [("assign", n, init) for n, init in f.locals if init is not None]
    return seq(inits + list(f.body))


def _name(rng, used, p_kw):
    while True:
        n = rng.choice(PY_KEYWORDS) if rng.random() < p_kw else rng.choice("bcdghkmnpqrsuvwz") + rng.choice(["", "1", "2", "x"])
        if n not in used:
            used.add(n)
            return n


def gen_stmts(rng, vars_, counters, depth, in_for, n, frag=False):
    out = []
    for _ in range(n):
        r = rng.random()
        if frag and (0.75 <= r < 0.9):           # no counted WHILE / UNTIL loops, no CASE in the modelled fragment
            r = rng.choice([0.1, 0.5, 0.6, 0.92])
        if depth <= 0 or r < 0.4:
            out.append(("assign", rng.choice(vars_["w"]), gen_int(rng, vars_["r"], 2)))
        elif r < 0.55:
            out.append(("if", gen_bool(rng, vars_["r"], 2), gen_stmts(rng, vars_, counters, depth - 1, in_for, rng.randrange(1, 3), frag),
                        gen_stmts(rng, vars_, counters, depth - 1, in_for, rng.randrange(1, 3), frag) if rng.random() < 0.5 else None))
        elif r < 0.75 and vars_["loop"]:
            v = vars_["loop"].pop()
            lo = ("i", rng.choice([0, 1, 2])) if rng.random() < 0.6 else ("a", rng.choice(vars_["p"]))
            hi = ("i", rng.choice([0, 1, 3, 4])) if rng.random() < 0.5 else ("a", rng.choice(vars_["p"]))
            step = rng.choice([None, None, 1, 2, -1, -2])
            if step is not None and step < 0:
                lo, hi = hi, lo
            inner = dict(vars_); inner["r"] = vars_["r"] + [v]
            wh = gen_bool(rng, inner["r"], 1) if (rng.random() < 0.2 and not frag) else None
            un = gen_bool(rng, inner["r"], 1) if (rng.random() < 0.2 and not frag) else None
            body = gen_stmts(rng, inner, counters, depth - 1, "plain" if wh is None and un is None else "ctl", rng.randrange(1, 3), frag)
            out.append(("for", v, lo, hi, step, wh, un, body))
        elif r < 0.83 and counters:
            c = counters.pop()
            out.append((rng.choice(["while", "until"]), c, rng.choice([0, 1, 2, 3]), gen_stmts(rng, vars_, counters, depth - 1, None, rng.randrange(1, 3), frag)))
        elif r < 0.9:
            items, labels = [], [0, 1, 2, 3, 5, 7]
            rng.shuffle(labels)
            for _ in range(rng.randrange(1, 3)):
                ls = [labels.pop() for _ in range(rng.randrange(1, 3))]
                items.append((ls, ("assign", rng.choice(vars_["w"]), gen_int(rng, vars_["r"], 1))))
            other = ("assign", rng.choice(vars_["w"]), gen_int(rng, vars_["r"], 1)) if rng.random() < 0.6 else None
            out.append(("case", gen_int(rng, vars_["r"], 1), items, other))
        elif r < 0.95 and in_for:
            kind = "skip" if (in_for == "plain" and rng.random() < 0.5) else "escape"
            out.append(("if", gen_bool(rng, vars_["r"], 1), [(kind,)], None))
        else:
            out.append(("begin", gen_stmts(rng, vars_, counters, depth - 1, in_for, rng.randrange(1, 3), frag)))
    return out


def gen_function(rng, idx, p_kw=0.15, depth=3, frag=False):
    used = {"anchor", "a0", "self"}
    name = "f%d" % idx
    used.add(name)
    params = [_name(rng, used, p_kw) for _ in range(rng.randrange(1, 3))]
    nloc = rng.randrange(1, 4)
    locs = [_name(rng, used, p_kw) for _ in range(nloc)]
    loops = [_name(rng, used, 0.0) for _ in range(3)]
    counters = [_name(rng, used, 0.0) for _ in range(2)]
    locals_, pre = [], []
    for n in locs:
        if rng.random() < 0.5:
            locals_.append((n, gen_int(rng, params, 1)))
        else:
            locals_.append((n, None))
            pre.append(("assign", n, gen_int(rng, params, 1)))
    cs = list(counters)
    vars_ = {"r": params + locs, "w": locs, "p": params, "loop": list(loops)}
    body = pre + gen_stmts(rng, vars_, cs, depth, None, rng.randrange(1, 5), frag)
    body.append(("return", gen_int(rng, params + locs, 2)))
    used_counters = [c for c in counters if c not in cs]
    locals_ += [(c, None) for c in used_counters]
    return Func(name, params, locals_, body)


def fixed_functions():
    """one function per translation rule that has its own shape"""
    a, r = ("a", "x"), ("a", "r")
    fs = []
    fs.append(Func("f_local", ["x"], [("r", ("i", 5))], [("return", ("b", "plus", r, a))]))
    fs.append(Func("f_repeat", ["x"], [("r", None)], [("assign", "r", ("i", 0)),
                                                      ("for", "i", ("i", 1), a, None, None, None, [("assign", "r", ("b", "plus", r, ("a", "i")))]),
                                                      ("return", r)]))
    fs.append(Func("f_by", ["x"], [("r", None)], [("assign", "r", ("i", 0)),
                                                  ("for", "i", a, ("i", 1), -1, None, None, [("assign", "r", ("b", "plus", r, ("a", "i")))]),
                                                  ("return", r)]))
    fs.append(Func("f_skip", ["x"], [("r", None)], [("assign", "r", ("i", 0)),
                                                    ("for", "i", ("i", 1), ("i", 5), None, None, None,
                                                     [("if", ("b", "eq", ("a", "i"), a), [("skip",)], None), ("assign", "r", ("b", "plus", r, ("a", "i")))]),
                                                    ("return", r)]))
    fs.append(Func("f_escape", ["x"], [("r", None)], [("assign", "r", ("i", 0)),
                                                      ("for", "i", ("i", 1), ("i", 5), None, None, None,
                                                       [("if", ("b", "gt", ("a", "i"), a), [("escape",)], None), ("assign", "r", ("b", "plus", r, ("a", "i")))]),
                                                      ("return", r)]))
    fs.append(Func("f_forwhile", ["x"], [("r", None)], [("assign", "r", ("i", 0)),
                                                        ("for", "i", ("i", 1), ("i", 6), None, ("b", "ne", ("a", "i"), a), None,
                                                         [("assign", "r", ("b", "plus", r, ("i", 1)))]),
                                                        ("return", r)]))
    fs.append(Func("f_foruntil", ["x"], [("r", None)], [("assign", "r", ("i", 0)),
                                                        ("for", "i", ("i", 1), ("i", 6), None, None, ("b", "ge", ("a", "i"), a),
                                                         [("assign", "r", ("b", "plus", r, ("i", 1)))]),
                                                        ("return", r)]))
    # a variable called like the temporary the translation of CASE introduces
    fs.append(Func("f_caseselector", ["case_selector"], [("r", None)],
                   [("assign", "r", ("i", 0)),
                    ("case", ("b", "plus", ("a", "case_selector"), ("i", 1)), [([1, 2, 3, 4, 5, 7], ("assign", "r", ("a", "case_selector")))], ("assign", "r", ("u", "neg", ("a", "case_selector")))),
                    ("return", ("b", "plus", r, ("a", "case_selector")))]))
    # SKIP in the body of a loop with an UNTIL control: EXPRESS evaluates UNTIL after the SKIP (13.9.3 / 13.11)
    fs.append(Func("f_skipuntil", ["x"], [("r", None)], [("assign", "r", ("i", 0)),
                                                          ("for", "i", ("i", 1), ("i", 5), None, None, ("b", "ge", ("a", "i"), a),
                                                           [("if", ("b", "eq", ("a", "i"), a), [("skip",)], None), ("assign", "r", ("b", "plus", r, ("a", "i")))]),
                                                          ("return", r)]))
    fs.append(Func("f_while", ["x"], [("r", None), ("n", None)], [("assign", "r", a), ("while", "n", 3, [("assign", "r", ("b", "plus", r, ("a", "n")))]), ("return", r)]))
    fs.append(Func("f_until", ["x"], [("r", None), ("n", None)], [("assign", "r", a), ("until", "n", 2, [("assign", "r", ("b", "times", r, ("i", 2)))]), ("return", r)]))
    fs.append(Func("f_case", ["x"], [("r", None)], [("assign", "r", ("i", 0)),
                                                    ("case", a, [([1], ("assign", "r", ("i", 10))), ([2, 3], ("assign", "r", ("b", "plus", a, a)))], ("assign", "r", ("u", "neg", a))),
                                                    ("return", r)]))
    fs.append(Func("f_begin", ["x"], [("r", None)], [("begin", [("assign", "r", a), ("assign", "r", ("b", "times", r, ("i", 2)))]), ("return", r)]))
    fs.append(Func("f_kwlocal", ["x"], [("pass", None)], [("assign", "pass", ("b", "plus", a, ("i", 1))), ("return", ("a", "pass"))]))
    fs.append(Func("f_kwparam", ["class"], [("r", None)], [("assign", "r", ("b", "plus", ("a", "class"), ("i", 1))), ("return", r)]))
    # probes of the iteration space: the values of the loop variable, written as decimal digits (value + 1)
    for k, step in enumerate([None, 1, 2, 3, -1, -2]):
        fs.append(Func("f_seq%d" % k, ["lo", "hi"], [("r", None)],
                       [("assign", "r", ("i", 0)),
                        ("for", "i", ("a", "lo"), ("a", "hi"), step, None, None,
                         [("assign", "r", ("b", "plus", ("b", "times", r, ("i", 10)), ("b", "plus", ("a", "i"), ("i", 1))))]),
                        ("return", r)]))
    return fs


def arguments(rng, f, n):
    return [[rng.choice([0, 1, 2, 3, 4, 6]) for _ in f.params] for _ in range(n)]
